"""C19 — radial profiles and curves of growth are consistent with aperture photometry.

K: the Coq model (coq/C19_Model.v, variant `fixed`) is evaluated on exact-lattice cases
   (integer data/errors, quarter-integer centres and radii, `center` / power-of-two `subpixel`
   weights taken from the implementation's own CircularAperture.to_mask) and compared with
   CurveOfGrowth / RadialProfile: radius, area, and — along a history of normalize('max'|'sum'),
   unnormalize and first reads — normalization_value and every array read, plus the index logic
   of calc_radius_at_ee.
V: the property text evaluated in plain Python on the implementation's output, on lattice cases
   and on arbitrary doubles with method='exact': equality with aperture_photometry /
   area_overlap, annulus quotients, quadrature errors, constant image, monotone curve of growth,
   normalize/unnormalize round trip for all interleavings with first reads, inverse
   encircled-energy interpolators on the monotone part.
"""
import itertools
import math
import warnings
from fractions import Fraction

import numpy as np

from .core import coq, Some, Raw, CoqEvalError

PID = 'C19'
FILES = ['lib/Cases.v', 'C19_Model.v', 'C19_Proofs.v', 'C19_Properties.v']

SIG_DP = 'ProfileBase.normalize/unnormalize:data_profile-first-read-order'
SIG_NF = 'ProfileBase.normalize:non-finite-normalization'
SIG_EE = 'CurveOfGrowth.calc_radius_at_ee:monotone-prefix-last-point'
SIG_UNIT = 'ProfileBase.normalize/unnormalize:unit-or-type-not-restored'
SIG_EEC = 'CurveOfGrowth.calc_ee_at_radius:not-the-current-profile'
SIG_EEH = 'CurveOfGrowth.encircled-energy:depends-on-history'

OPS_BASE = ['nmax', 'nsum', 'un', 'rp', 're']
OPS_COG = OPS_BASE + ['ee', 'ri']      # calls of calc_ee_at_radius / calc_radius_at_ee are reads too
OPS_RAD = OPS_BASE + ['rd']
COQ_OP = {'nmax': 'ONorm NMax', 'nsum': 'ONorm NSum', 'un': 'OUnnorm', 'rp': 'ORead AProf',
          're': 'ORead APerr', 'rd': 'ORead ADp', 'ee': 'OEe', 'ri': 'ORi'}


# ----------------------------------------------------------------------------------------
# generators
# ----------------------------------------------------------------------------------------
def _coord(rng, n, rmax, lattice, where):
    if where == 'inside':
        v = rng.uniform(1, max(1.0, n - 2))
    elif where == 'near':
        v = rng.choice([rng.uniform(-0.5, 1.0), rng.uniform(n - 2.0, n - 0.5)])
    elif where == 'off':
        v = rng.choice([rng.uniform(-rmax, -0.5), rng.uniform(n - 0.5, n - 1 + rmax)])
    else:  # far: the whole disk is off the image
        v = rng.choice([-(rmax + 2.0), n + rmax + 1.0])
    return round(v * 4) / 4 if lattice else v + (rng.random() - 0.5) * 1e-3


def _fits(arr, dt):
    """Can the float64 array be stored in dtype dt without changing any value?"""
    if dt == 'float64':
        return True
    fin = np.isfinite(arr)
    if dt == 'float32':
        with np.errstate(over='ignore', under='ignore'):
            back = arr.astype(np.float32).astype(float)
        return bool(np.all((back == arr) | ~fin) and np.all(np.isfinite(back) == fin))
    if not fin.all() or not np.all(arr == np.rint(arr)):
        return False
    info = np.iinfo(dt)
    return bool(arr.min() >= info.min and arr.max() <= info.max)


def gen_spec(rng, lattice=True, small=False, kind=None):
    ny = rng.randint(3, 6 if small else 10)
    nx = rng.randint(3, 6 if small else 10)
    kind = kind or rng.choice(['cog', 'radial'])
    # radii: non-uniform, strictly increasing; radial profiles mostly start at 0
    nrad = rng.randint(2, 4 if small else 6)
    steps = [0.25, 0.5, 0.75, 1.0, 1.0, 1.25, 1.5, 2.0]
    r = 0.0 if (kind == 'radial' and rng.random() < 0.6) else rng.choice([0.25, 0.5, 1.0, 1.5])
    radii = [r]
    for _ in range(nrad - 1):
        r += rng.choice(steps) if lattice else rng.uniform(0.2, 2.0)
        radii.append(r)
    rmax = radii[-1]
    wx = rng.choice(['inside'] * 5 + ['near'] * 3 + ['off'] * 2 + ['far'])
    wy = rng.choice(['inside'] * 5 + ['near'] * 3 + ['off'] * 2) if wx != 'far' else 'inside'
    xc, yc = _coord(rng, nx, rmax, lattice, wx), _coord(rng, ny, rmax, lattice, wy)
    dk = rng.choice(['const', 'nonneg', 'nonneg', 'signed', 'negtail', 'plateau', 'compact', 'compact'])
    yy, xx = np.indices((ny, nx))
    rr = np.hypot(xx - xc, yy - yc)
    if dk == 'const':
        c = rng.choice([-3, -1, 0, 1, 2, 5]) if lattice else rng.uniform(-5, 5)
        data = np.full((ny, nx), float(c))
    elif dk == 'nonneg':
        data = np.array([[float(rng.randint(0, 9)) for _ in range(nx)] for _ in range(ny)])
    elif dk == 'signed':
        data = np.array([[float(rng.randint(-5, 9)) for _ in range(nx)] for _ in range(ny)])
    elif dk == 'negtail':   # positive core, negative outskirts: non-monotone tail of the curve of growth
        cut = rng.choice(radii)
        data = np.where(rr <= cut, float(rng.randint(1, 9)), -float(rng.randint(1, 4)))
        data = data + np.array([[float(rng.randint(0, 1)) for _ in range(nx)] for _ in range(ny)])
    elif dk == 'compact':   # bright compact core, faint positive wings: strictly increasing curve with tiny steps
        core = float(2 ** rng.randint(28, 34)) if lattice else rng.uniform(1e9, 1e12)
        data = np.where(rr <= max(radii[0], 1.0), core * rng.randint(1, 3), 0.0)
        data = data + np.array([[float(rng.randint(1, 3)) for _ in range(nx)] for _ in range(ny)])
    else:                   # plateau: zero outside a core (ties in the curve of growth)
        cut = rng.choice(radii)
        data = np.where(rr <= cut, float(rng.randint(1, 9)), 0.0)
    if not lattice:
        data = data + np.array([[rng.uniform(-0.5, 0.5) for _ in range(nx)] for _ in range(ny)]) * (dk != 'const')
        if dk in ('nonneg', 'compact'):
            data = np.abs(data)
    error = None
    if rng.random() < 0.55:
        error = np.array([[float(rng.randint(0, 4)) if lattice else rng.uniform(0, 3) for _ in range(nx)]
                          for _ in range(ny)])
    nonfinite = False
    if rng.random() < 0.3:
        for _ in range(rng.randint(1, 3)):
            data[rng.randrange(ny), rng.randrange(nx)] = rng.choice([np.nan, np.inf, -np.inf])
            nonfinite = True
        if error is not None and rng.random() < 0.5:
            error[rng.randrange(ny), rng.randrange(nx)] = rng.choice([np.nan, np.inf])
    mask = None
    mk = rng.choice(['none', 'none', 'random', 'random', 'half', 'all'] if rng.random() < 0.5 else ['none', 'random'])
    if mk == 'random':
        mask = np.array([[rng.random() < 0.25 for _ in range(nx)] for _ in range(ny)])
    elif mk == 'half':
        mask = xx < xc
    elif mk == 'all':
        mask = np.ones((ny, nx), bool)
    if lattice:
        method = rng.choice(['center', 'subpixel', 'subpixel'])
        subpixels = rng.choice([1, 2, 4, 8]) if method == 'subpixel' else 5
    else:
        method, subpixels = 'exact', 5
    # storage types: error maps (and data) in narrow integer dtypes / float32, with error values large enough
    # that value**2 does not fit the dtype (the numbers stay integers, i.e. on the exact lattice)
    edt = ddt = 'float64'
    if lattice and error is not None and np.all(np.isfinite(error)) and rng.random() < 0.35:
        edt = rng.choice(['uint8', 'int16', 'uint16', 'int32', 'float32'])
        lo, hi = {'uint8': (10, 40), 'int16': (150, 400), 'uint16': (200, 600), 'int32': (40000, 60000),
                  'float32': (4000, 9000)}[edt]
        if rng.random() < 0.75:
            error = np.array([[float(rng.randint(lo, hi)) for _ in range(nx)] for _ in range(ny)])
    # magnitudes: the same numbers in other units. Lattice: exact power of two 2^-80 .. 2^80 (the Coq
    # model sees the unscaled integers and applies 2^k exactly); doubles: arbitrary unit factors
    if lattice:
        scale = rng.choice([0, 0, rng.randint(-80, 80), rng.randint(-80, -20), rng.randint(20, 80)])
        if edt not in ('float64', 'float32'):
            scale = 0
        factor = 2.0 ** scale
    else:
        factor = rng.choice([1.0, 1.0, 3e-17, 1e-12, 7e-6, 2.5e9, 4e20])
        scale = None
    if factor != 1.0:
        data = data * factor
        if error is not None:
            error = error * factor
    # a share of the objects is built from Quantity data/error ('' = dimensionless Quantity)
    unit = rng.choice([None, None, None, 'Jy', 'electron / s', 'adu', ''])
    if edt not in ('float64', 'float32'):
        unit = None                         # a Quantity would convert the integers to float64
    if rng.random() < 0.3:
        cands = ['float32'] if (unit is not None or not lattice) else ['float32', 'int16', 'int32', 'int64', 'uint8', 'uint16']
        rng.shuffle(cands)
        if not lattice:                     # arbitrary doubles: take the float32-representable neighbours
            with np.errstate(over='ignore'):
                data = data.astype(np.float32).astype(float)
        ddt = next((d for d in cands if _fits(data, d)), 'float64')
    if not lattice and error is not None and rng.random() < 0.25:
        error = error.astype(np.float32).astype(float)
        edt = 'float32'
    if error is None or not _fits(error, edt):
        edt = 'float64'
    if not _fits(data, ddt):
        ddt = 'float64'
    return dict(dtype_data=ddt, dtype_error=edt, kind=kind, data=data, error=error, mask=mask, xycen=(xc, yc), radii=radii, method=method,
                subpixels=subpixels, dkind=dk, where=(wx, wy), mkind=mk, nonfinite=nonfinite, lattice=lattice,
                scale=scale, factor=factor, unit=unit)


def describe(spec, ops=None):
    def arr(a):
        if a is None:
            return None
        return [[(None if np.isnan(v) else ('inf' if v == np.inf else ('-inf' if v == -np.inf else float(v))))
                 for v in row] for row in a]
    d = dict(kind=spec['kind'], data=arr(spec['data']), error=arr(spec['error']),
             mask=None if spec['mask'] is None else spec['mask'].astype(int).tolist(),
             xycen=[float(spec['xycen'][0]), float(spec['xycen'][1])], radii=[float(r) for r in spec['radii']],
             method=spec['method'], subpixels=int(spec['subpixels']), unit_factor=spec.get('factor', 1.0),
             unit=spec.get('unit'), dtype_data=spec.get('dtype_data', 'float64'),
             dtype_error=spec.get('dtype_error', 'float64'))
    if ops is not None:
        d['ops'] = list(ops)
    return d


def undescribe(d):
    def arr(a):
        if a is None:
            return None
        return np.array([[np.nan if v is None else (np.inf if v == 'inf' else (-np.inf if v == '-inf' else v))
                          for v in row] for row in a], float)
    return dict(kind=d['kind'], data=arr(d['data']), error=arr(d['error']),
                mask=None if d['mask'] is None else np.array(d['mask'], bool), xycen=tuple(d['xycen']),
                radii=list(d['radii']), method=d['method'], subpixels=d['subpixels'], unit=d.get('unit'),
                dtype_data=d.get('dtype_data', 'float64'), dtype_error=d.get('dtype_error', 'float64'))


# ----------------------------------------------------------------------------------------
# implementation
# ----------------------------------------------------------------------------------------
def make(spec):
    from photutils.profiles import CurveOfGrowth, RadialProfile
    cls = RadialProfile if spec['kind'] == 'radial' else CurveOfGrowth
    data = spec['data'].astype(spec.get('dtype_data', 'float64'))
    error = None if spec['error'] is None else spec['error'].astype(spec.get('dtype_error', 'float64'))
    if spec.get('unit') is not None:
        import astropy.units as u
        unit = u.Unit(spec['unit'])
        data = data << unit
        error = None if error is None else error << unit
    with warnings.catch_warnings():
        warnings.simplefilter('ignore')
        return cls(data, spec['xycen'], list(spec['radii']),
                   error=error,
                   mask=None if spec['mask'] is None else spec['mask'].copy(),
                   method=spec['method'], subpixels=spec['subpixels'])


def total_mask(spec):
    m = ~np.isfinite(spec['data'])
    if spec['error'] is not None:
        m |= ~np.isfinite(spec['error'])
    if spec['mask'] is not None:
        m |= spec['mask']
    return m


def fa(x):
    return np.array(x, float).copy()


def tag(x):
    """Type and unit of an observable: ('Q', unit string) for a Quantity, ('A', None) for ndarray/float."""
    unit = getattr(x, 'unit', None)
    return ('A', None) if unit is None else ('Q', unit.to_string())


def fv(x):
    return float(getattr(x, 'value', x))


def raw_arrays(spec):
    """What a fresh object returns (no normalisation)."""
    with warnings.catch_warnings():
        warnings.simplefilter('ignore')
        o = make(spec)
        out = dict(radius=fa(o.radius), area=fa(o.area), profile=fa(o.profile), profile_error=fa(o.profile_error))
        # the objects themselves (Quantity or ndarray): units and types are part of what must be restored
        out['obj'] = dict(profile=o.profile, profile_error=o.profile_error, radius=o.radius, area=o.area)
        if spec['kind'] == 'radial':
            try:
                dp = make(spec).data_profile
                out['data_profile'] = fa(dp)
                out['obj']['data_profile'] = dp
            except ValueError:
                out['data_profile'] = 'raises'
        else:
            out['data_profile'] = None
    return out


def run_history(spec, ops):
    """Returns (trace, final): trace[i] = (nv after op i, array read or None)."""
    with warnings.catch_warnings():
        warnings.simplefilter('ignore')
        o = make(spec)
        trace = []
        tags = []
        for op in ops:
            got = None
            atag = None
            if op == 'nmax':
                o.normalize('max')
            elif op == 'nsum':
                o.normalize('sum')
            elif op == 'un':
                o.unnormalize()
            elif op in ('rp', 're', 'rd'):
                x = getattr(o, {'rp': 'profile', 're': 'profile_error', 'rd': 'data_profile'}[op])
                got = fa(x)
                atag = tag(x)
            elif op == 'ee':
                got = ee_read(o)
            elif op == 'ri':
                got = ri_read(o)
            trace.append((fv(o.normalization_value), got))
            tags.append((atag, tag(o.normalization_value)))
        dp = o.data_profile if spec['kind'] == 'radial' else None
        final = dict(nv=fv(o.normalization_value), profile=fa(o.profile), profile_error=fa(o.profile_error),
                     data_profile=None if dp is None else fa(dp))
        # per op: (tag of the array read or None, tag of normalization_value); and of the final reads
        final['tags'] = tags
        final['ftags'] = dict(nv=tag(o.normalization_value), profile=tag(o.profile), profile_error=tag(o.profile_error),
                              radius=tag(o.radius), area=tag(o.area),
                              data_profile=None if dp is None else tag(dp))
    return o, trace, final


def ee_read(o):
    """calc_ee_at_radius at every sampled radius and in between."""
    rad = fa(o.radius)
    mid = (rad[:-1] + rad[1:]) / 2
    try:
        return {'knots': fa(o.calc_ee_at_radius(rad)), 'mid': fa(o.calc_ee_at_radius(mid)), 'q': mid}
    except ValueError:
        return {'knots': None, 'mid': None, 'q': mid}


def ri_read(o):
    """calc_radius_at_ee at every profile value (classes) and in between, on the current profile."""
    cls = ee_classes(o)
    prof = fa(o.profile)
    q = (prof[:-1] + prof[1:]) / 2
    mid = None
    if cls is not None and np.all(np.isfinite(q)):
        try:
            mid = fa(o.calc_radius_at_ee(q))
        except ValueError:
            mid = None
    return {'cls': cls, 'prof': prof, 'mid': mid, 'q': q}


def fresh_normalised(spec, ops):
    """A fresh object brought to the same normalisation: only the normalize/unnormalize calls of `ops`."""
    key = tuple(op for op in ops if op in ('nmax', 'nsum', 'un'))
    memo = spec.setdefault('_fresh', {})
    if key not in memo:
        if len(memo) > 400:
            memo.clear()
        memo[key] = run_history(spec, list(key))[0]
    return memo[key]


def aper_weights(spec):
    """Full-image weights of the nested circular apertures, from the implementation's to_mask:
    'zero' (radius <= 0), 'off' (no overlap) or a float array."""
    from photutils.aperture import CircularAperture
    shape = spec['data'].shape
    out = []
    for r in spec['radii']:
        if r <= 0:
            out.append('zero')
            continue
        m = CircularAperture(spec['xycen'], r).to_mask(method=spec['method'], subpixels=spec['subpixels'])
        img = m.to_image(shape)
        out.append('off' if img is None else np.array(img, float))
    return out


# ----------------------------------------------------------------------------------------
# property oracles (plain Python, on the implementation's output)
# ----------------------------------------------------------------------------------------
def same(a, b):
    a, b = np.asarray(a, float), np.asarray(b, float)
    return a.shape == b.shape and bool(np.all((a == b) | (np.isnan(a) & np.isnan(b))))


def near(a, b, rtol=1e-9):
    a, b = np.asarray(a, float), np.asarray(b, float)
    if a.shape != b.shape:
        return False
    fin = np.isfinite(a) & np.isfinite(b)
    if not np.all(fin | (~np.isfinite(a) & ~np.isfinite(b))):
        return False
    return bool(np.all(np.abs(a[fin] - b[fin]) <= rtol * np.maximum(np.abs(b[fin]), 1e-300)))


U = Fraction(1, 2 ** 53)


def exact_sum_check(impl, w, arr, tm, square=False, sqrt=False, lattice=True):
    """impl against sum over unmasked pixels with positive weight of w*arr (exact rationals)."""
    sel = (w > 0) & ~tm
    terms = [Fraction(float(w[y, x])) * (Fraction(float(arr[y, x])) ** (2 if square else 1))
             for y, x in zip(*np.nonzero(sel))]
    ex = sum(terms, Fraction(0))
    if not np.isfinite(impl):
        return False
    got = Fraction(float(impl)) ** 2 if sqrt else Fraction(float(impl))
    n = len(terms) + 4
    bound = (Fraction(0) if (lattice and not sqrt) else 4 * n * U / (1 - n * U)) * sum((abs(t) for t in terms), Fraction(0))
    if sqrt and lattice:
        bound = 4 * U * ex
    return abs(got - ex) <= bound


def photometric_oracles(ctx, spec, raw, W):
    """Clauses 1-5 of the property on a fresh object. Returns list of (signature, what)."""
    from photutils.aperture import CircularAperture, aperture_photometry
    bad = []
    data, error = spec['data'], spec['error']
    tm = total_mask(spec)
    lat = spec.get('lattice', False)
    sums, errs, areas = [], [], []
    with warnings.catch_warnings():
        warnings.simplefilter('ignore')
        for r, w in zip(spec['radii'], W):
            if r <= 0:
                sums.append(0.0), errs.append(0.0), areas.append(0.0)
                continue
            ap = CircularAperture(spec['xycen'], r)
            t = aperture_photometry(data, ap, error=error, mask=tm, method=spec['method'], subpixels=spec['subpixels'])
            s = float(t['aperture_sum'][0])
            e = float(t['aperture_sum_err'][0]) if error is not None else None
            a = float(ap.area_overlap(data, mask=tm, method=spec['method'], subpixels=spec['subpixels']))
            sums.append(s), errs.append(e), areas.append(a)
            # the aperture sum itself against the weighted sum of the unmasked pixels (independent arithmetic)
            if isinstance(w, str):
                if not (np.isnan(s) and np.isnan(a)):
                    bad.append(('aperture:no-overlap-not-nan', f'radius {r}: no overlap but sum={s}, area={a}'))
            else:
                if not exact_sum_check(s, w, np.where(tm, 0.0, data), tm, lattice=lat):
                    bad.append(('aperture_sum:weighted-sum', f'radius {r}: aperture sum {s} is not the mask-weighted sum'))
                if not exact_sum_check(a, w, np.ones_like(w), tm, lattice=lat):
                    bad.append(('area_overlap:weighted-sum', f'radius {r}: area {a} is not the sum of unmasked weights'))
                if error is not None and not exact_sum_check(e, w, np.where(tm, 0.0, error), tm, square=True, sqrt=True,
                                                             lattice=lat):
                    bad.append(('aperture_sum_err:quadrature', f'radius {r}: error {e} is not sqrt(sum w*err^2)'))
    sums, areas = np.array(sums), np.array(areas)
    errs = np.array(errs, float) if error is not None else np.array([])
    if spec['kind'] == 'cog':
        if not same(raw['profile'], sums):
            bad.append(('CurveOfGrowth.profile:aperture-sum', f'profile {raw["profile"].tolist()} != aperture sums {sums.tolist()}'))
        if not same(raw['area'], areas):
            bad.append(('CurveOfGrowth.area:area-overlap', f'area {raw["area"].tolist()} != overlap areas {areas.tolist()}'))
        if not same(raw['profile_error'], errs):
            bad.append(('CurveOfGrowth.profile_error:aperture-sum-err', f'{raw["profile_error"].tolist()} != {errs.tolist()}'))
        if not same(raw['radius'], np.array(spec['radii'], float)):
            bad.append(('CurveOfGrowth.radius', 'radius != radii'))
        prof, area = raw['profile'], raw['area']
    else:
        with np.errstate(all='ignore'):
            want = np.diff(sums) / np.diff(areas)
            wante = (np.sqrt(np.diff(errs ** 2)) / np.diff(areas)) if error is not None else np.array([])
        if not same(raw['profile'], want):
            bad.append(('RadialProfile.profile:annulus-quotient', f'profile {raw["profile"].tolist()} != diff(sums)/diff(areas) {want.tolist()}'))
        if not same(raw['area'], np.diff(areas)):
            bad.append(('RadialProfile.area:annulus-area', f'area {raw["area"].tolist()} != diff(areas)'))
        if not same(raw['profile_error'], wante):
            bad.append(('RadialProfile.profile_error:quadrature', f'{raw["profile_error"].tolist()} != sqrt(diff(err^2))/diff(area) {wante.tolist()}'))
        rad = np.array(spec['radii'], float)
        if not same(raw['radius'], (rad[:-1] + rad[1:]) / 2):
            bad.append(('RadialProfile.radius:bin-centres', 'radius != bin centres'))
        # quadrature against the annulus weights directly: (profile_error*area)^2 = sum dW * err^2
        if error is not None:
            for i in range(len(rad) - 1):
                wa, wb = W[i], W[i + 1]
                if isinstance(wb, str) or (isinstance(wa, str) and wa == 'off'):
                    continue
                wa = np.zeros_like(wb) if isinstance(wa, str) else wa
                sel = ~tm
                ex = sum((Fraction(float(wb[y, x] - wa[y, x])) * Fraction(float(error[y, x])) ** 2
                          for y, x in zip(*np.nonzero(sel))), Fraction(0))
                big = sum((Fraction(float(wb[y, x] + wa[y, x])) * Fraction(float(error[y, x])) ** 2
                           for y, x in zip(*np.nonzero(sel))), Fraction(0))
                pe, ar = raw['profile_error'][i], raw['area'][i]
                if np.isfinite(pe) and ar > 0:
                    got = (Fraction(float(pe)) * Fraction(float(ar))) ** 2
                    if abs(got - ex) > Fraction(1, 2 ** 36) * (big + ex):
                        bad.append(('RadialProfile.profile_error:quadrature', f'bin {i}: (profile_error*area)^2={float(got)} '
                                    f'but sum of annulus weights * err^2 = {float(ex)}'))
        prof, area = raw['profile'], raw['area']
    # the unit of Quantity data is carried by the fresh profile and its error (as aperture photometry does)
    if 'obj' in raw:
        want = ('A', None)
        if spec.get('unit') is not None:
            import astropy.units as u
            want = ('Q', u.Unit(spec['unit']).to_string())
        for name in ('profile', 'profile_error'):
            if tag(raw['obj'][name]) != want:
                bad.append((f'{spec["kind"]}.{name}:unit', f'fresh {name} is {tag(raw["obj"][name])}, data unit implies {want}'))
    # constant image: every bin with positive area equals the constant
    vals = data[~tm]
    if vals.size and np.all(vals == vals[0]):
        c = float(vals[0])
        for i in range(len(prof)):
            if np.isfinite(area[i]) and area[i] > 0:
                want = c if spec['kind'] == 'radial' else c * area[i]
                if not (np.isfinite(prof[i]) and abs(prof[i] - want) <= 1e-9 * max(abs(want), 1e-300) + (0 if lat else 1e-12 * abs(c))):
                    bad.append((f'{spec["kind"]}:constant-image', f'constant {c}: bin {i} has profile {prof[i]} (area {area[i]})'))
                    break
    # non-negative data: non-decreasing curve of growth
    if spec['kind'] == 'cog' and vals.size and np.all(vals >= 0):
        fin = prof[np.isfinite(prof)]
        tol = 0.0 if lat else 1e-9 * (abs(fin).max() if fin.size else 0.0)
        if fin.size and np.any(np.diff(fin) < -tol):
            bad.append(('CurveOfGrowth.profile:nonneg-monotone', f'non-negative data but profile {prof.tolist()} decreases'))
    return bad


def weights_monotone(W):
    prev = None
    for w in W:
        cur = None if isinstance(w, str) else w
        if prev is not None and cur is not None and np.any(cur < prev - 1e-12):
            return False
        if cur is not None:
            prev = cur
    return True


def spec_nv(raw_profile, ops):
    """normalization_value the property implies after `ops` (normalisation refused for 0 / non-finite)."""
    nv = 1.0
    with np.errstate(all='ignore'), warnings.catch_warnings():
        warnings.simplefilter('ignore')
        for op in ops:
            if op in ('nmax', 'nsum'):
                p = raw_profile / nv
                n = (np.nanmax(p) if not np.all(np.isnan(p)) else np.nan) if op == 'nmax' else np.nansum(p)
                if np.isfinite(n) and n != 0:
                    nv *= n
            elif op == 'un':
                nv = 1.0
    return nv


def nv_tags(unit_tag, profile_vals, ops):
    """Tag of the normalization_value the property implies after each op: a normalisation by the max/sum
    of a profile with unit U has unit U the first time (then the profile is dimensionless)."""
    out, nv, t = [], 1.0, ('A', None)
    with np.errstate(all='ignore'), warnings.catch_warnings():
        warnings.simplefilter('ignore')
        for op in ops:
            if op in ('nmax', 'nsum'):
                p = profile_vals / nv
                n = (np.nanmax(p) if not np.all(np.isnan(p)) else np.nan) if op == 'nmax' else np.nansum(p)
                if np.isfinite(n) and n != 0:
                    nv *= n
                    if unit_tag[0] == 'Q':      # float or Quantity times Quantity -> Quantity; unit U * 1 = U
                        t = unit_tag if t[0] == 'A' or t[1] == unit_tag[1] else t
            elif op == 'un':
                nv, t = 1.0, ('A', None)
            out.append(t)
    return out


def div_tag(a, n):
    """Tag of (array with tag a) / (normalization_value with tag n), as astropy types it."""
    if a[0] == 'A' and n[0] == 'A':
        return ('A', None)
    import astropy.units as u
    ua = u.dimensionless_unscaled if a[0] == 'A' else u.Unit(a[1])
    un = u.dimensionless_unscaled if n[0] == 'A' else u.Unit(n[1])
    return ('Q', (ua / un).to_string())


def unit_oracle(spec, raw, ops, final):
    """Every read has the type (Quantity / ndarray) and unit of  fresh array / normalization_value  as astropy
    computes it; in particular after unnormalize() everything is back to the fresh type and unit."""
    obj = raw['obj']
    ftag = {k: tag(v) for k, v in obj.items()}
    names = {'rp': 'profile', 're': 'profile_error', 'rd': 'data_profile'}
    nvt = nv_tags(ftag['profile'], raw['profile'], ops)
    last = nvt[-1] if ops else ('A', None)
    for name, got in final['ftags'].items():          # arrays after the whole history first
        if got is None or name == 'nv' or name not in ftag:
            continue
        want = ftag[name] if name in ('radius', 'area') else div_tag(ftag[name], last)
        if got != want:
            return [(SIG_UNIT, f'after {list(ops)}: {name} is {got} but fresh {name} {ftag[name]} / normalization_value '
                               f'{last} is {want}  (("Q", unit) = Quantity, ("A", None) = ndarray/float)')]
    for i, op in enumerate(ops):
        got_arr, _ = final['tags'][i]
        if op in names and got_arr != div_tag(ftag[names[op]], nvt[i]):
            return [(SIG_UNIT, f'after {ops[:i + 1]}: {names[op]} is {got_arr} but fresh {names[op]} {ftag[names[op]]} / '
                               f'normalization_value {nvt[i]} is {div_tag(ftag[names[op]], nvt[i])}  '
                               f'(("Q", unit) = Quantity, ("A", None) = ndarray/float)')]
    for i, op in enumerate(ops):
        if final['tags'][i][1] != nvt[i]:
            return [(SIG_UNIT, f'after {ops[:i + 1]}: normalization_value is {final["tags"][i][1]}, expected {nvt[i]}')]
    if final['ftags']['nv'] != last:
        return [(SIG_UNIT, f'after {list(ops)}: normalization_value is {final["ftags"]["nv"]}, expected {last}')]
    return []


def history_oracle(spec, raw, ops, trace, final):
    """normalize followed by unnormalize restores every array, whenever each was first read;
    more generally every array read equals the fresh array / normalization_value.
    Returns list of (signature, what)."""
    bad = []
    names = {'rp': 'profile', 're': 'profile_error', 'rd': 'data_profile'}
    allnan = bool(np.all(~np.isfinite(raw['profile'])))

    def sig(name):
        if allnan:
            return SIG_NF
        return SIG_DP if name == 'data_profile' else f'ProfileBase.normalize/unnormalize:{name}-not-restored'
    want_nv = spec_nv(raw['profile'], ops)
    for name in ('profile', 'profile_error', 'data_profile'):
        if final[name] is None:
            continue
        want = raw[name] / want_nv
        if not near(final[name], want):
            bad.append((sig(name), f'after {list(ops)}: {name} = {final[name].tolist()[:8]} but fresh/{want_nv} = {want.tolist()[:8]}'))
            return bad
    nvbad = []
    for i, (op, (nv, got)) in enumerate(zip(ops, trace)):
        want_nv = spec_nv(raw['profile'], ops[:i + 1])
        if op in names:
            want = raw[names[op]] / want_nv
            if not near(got, want):
                bad.append((sig(names[op]), f'after {ops[:i + 1]}: {names[op]} = {got.tolist()[:8]} but fresh/{want_nv} = {want.tolist()[:8]}'))
                return bad
        if op == 'ee':
            want = raw['profile'] / want_nv
            if np.all(np.isfinite(want)):
                if got['knots'] is None or not near(got['knots'], want):
                    bad.append((SIG_EEC, f'after {ops[:i + 1]}: calc_ee_at_radius(radius) = '
                                f'{None if got["knots"] is None else got["knots"].tolist()[:8]} but the current profile is '
                                f'{want.tolist()[:8]}'))
                    return bad
                with warnings.catch_warnings():
                    warnings.simplefilter('ignore')
                    ref = fa(fresh_normalised(spec, ops[:i]).calc_ee_at_radius(got['q']))
                if not near(got['mid'], ref):
                    bad.append((SIG_EEH, f'after {ops[:i + 1]}: calc_ee_at_radius({got["q"].tolist()[:6]}) = '
                                f'{got["mid"].tolist()[:6]} but a fresh object with the same normalisation gives {ref.tolist()[:6]}'))
                    return bad
        if op == 'ri':
            prof = got['prof']
            if np.all(np.isfinite(prof)) and mono_prefix(prof) >= 2:
                k = mono_prefix(prof)
                if got['cls'] is None or any(c != 1 for c in got['cls'][:k]):
                    bad.append((SIG_EE, f'after {ops[:i + 1]}: profile {prof.tolist()[:8]} is strictly increasing up to index '
                                f'{k - 1} but calc_radius_at_ee(profile[i]) -> '
                                f'{"ValueError" if got["cls"] is None else got["cls"]} (1 = radius[i], 0 = NaN)'))
                    return bad
                with warnings.catch_warnings():
                    warnings.simplefilter('ignore')
                    try:
                        ref = fa(fresh_normalised(spec, ops[:i]).calc_radius_at_ee(got['q']))
                    except ValueError:
                        ref = None
                if got['mid'] is not None and (ref is None or not near(got['mid'], ref)):
                    bad.append((SIG_EEH, f'after {ops[:i + 1]}: calc_radius_at_ee({got["q"].tolist()[:6]}) = '
                                f'{got["mid"].tolist()[:6]} but a fresh object with the same normalisation gives '
                                f'{None if ref is None else ref.tolist()[:6]}'))
                    return bad
        if not nvbad and not ((np.isnan(nv) and np.isnan(want_nv)) or abs(nv - want_nv) <= 1e-9 * abs(want_nv)):
            nvbad.append((SIG_NF if allnan else 'ProfileBase.normalize:normalization_value',
                          f'after {ops[:i + 1]}: normalization_value = {nv}, expected {want_nv}'))
    return bad or nvbad or unit_oracle(spec, raw, ops, final)


def mono_prefix(profile):
    """Length of the maximal strictly increasing prefix (the monotone part)."""
    k = 1
    while k < len(profile) and profile[k] > profile[k - 1]:
        k += 1
    return k


def ee_classes(o):
    """calc_radius_at_ee(profile[i]) for every i: None if it raises, else class list."""
    prof, rad = fa(o.profile), fa(o.radius)
    with warnings.catch_warnings():
        warnings.simplefilter('ignore')
        try:
            v = fa(o.calc_radius_at_ee(prof))
        except ValueError:
            return None
    return [0 if np.isnan(x) else (1 if abs(x - r) <= 1e-9 * r else 2) for x, r in zip(v, rad)]


def ee_oracle(o):
    """The interpolators invert each other at the sampled radii on the monotone part."""
    prof, rad = fa(o.profile), fa(o.radius)
    if not np.all(np.isfinite(prof)):
        return []
    k = mono_prefix(prof)
    if k < 2:
        return []
    with warnings.catch_warnings():
        warnings.simplefilter('ignore')
        try:
            ees = fa(o.calc_ee_at_radius(rad[:k]))
            # the composition is evaluated through the knot values themselves: pchip may return the
            # last knot one ulp outside the range, which extrapolate=False maps to NaN
            backs = fa(o.calc_radius_at_ee(prof[:k]))
        except ValueError as e:
            return [(SIG_EE, f'profile {prof.tolist()} is strictly increasing up to index {k - 1} but '
                             f'calc_radius_at_ee raises: {str(e)[:60]}')]
    for i in range(k):
        ee, back = ees[i], backs[i]
        if not (abs(ee - prof[i]) <= 1e-9 * abs(prof[i]) + 1e-300):
            return [('CurveOfGrowth.calc_ee_at_radius:knots', f'calc_ee_at_radius(radius[{i}]) = {ee} != profile[{i}] = {prof[i]}')]
        if not (np.isfinite(back) and abs(back - rad[i]) <= 1e-9 * rad[i]):
            return [(SIG_EE, f'profile {prof.tolist()} (monotone part = first {k} points): '
                             f'calc_radius_at_ee(profile[{i}]) = {back}, expected radius[{i}] = {rad[i]}')]
    return []


# ----------------------------------------------------------------------------------------
# Coq encoding
# ----------------------------------------------------------------------------------------
def qlit(x):
    """A finite float as mantissa * 2^exponent (numerals stay short at any magnitude)."""
    f = float(x)
    if f == 0.0:
        return Raw('(Q2 0 0)')
    m, e = math.frexp(f)
    mi, e = int(m * 2 ** 53), e - 53
    while mi % 2 == 0:
        mi //= 2
        e += 1
    return Raw(f'(Q2 {coq(mi)} {coq(e)})')


def vlit(x):
    return Some(qlit(x)) if np.isfinite(x) else None


def ozarr(a):
    return [Some(int(v)) if np.isfinite(v) else None for v in a.ravel()]


def to_coq(spec, W, ops, raw, trace, final, ee):
    S = spec['subpixels'] ** 2 if spec['method'] == 'subpixel' else 1
    apers = []
    for w in W:
        if isinstance(w, str):
            apers.append(Raw('AZero' if w == 'zero' else 'AOff'))
        else:
            ws = w * S
            wi = np.rint(ws)
            if not np.array_equal(ws, wi):
                return None
            apers.append(Raw('(AW ' + coq([int(v) for v in wi.ravel()]) + ')'))
    ny, nx = spec['data'].shape
    unit = 2.0 ** (-spec['scale'])

    def obs(got):
        if got is None:
            return None
        if isinstance(got, dict) and 'knots' in got:        # calc_ee_at_radius at the sampled radii; [] = raised
            return Some([] if got['knots'] is None else [vlit(v) for v in got['knots']])
        if isinstance(got, dict):                            # calc_radius_at_ee classes; [] = raised
            return Some([] if got['cls'] is None else [Some(qlit(c)) for c in got['cls']])
        return Some([vlit(v) for v in got])
    tr = [(vlit(nv), obs(got)) for nv, got in trace]
    fin = (vlit(final['nv']), [vlit(v) for v in final['profile']], [vlit(v) for v in final['profile_error']],
           None if final['data_profile'] is None else Some([vlit(v) for v in final['data_profile']]))
    fields = [
        ('k_S', S), ('k_ny', ny), ('k_nx', nx), ('k_data', ozarr(spec['data'] * unit)),
        ('k_err', None if spec['error'] is None else Some(ozarr(spec['error'] * unit))),
        ('k_umask', None if spec['mask'] is None else Some([bool(v) for v in spec['mask'].ravel()])),
        ('k_apers', apers), ('k_radii', [qlit(r) for r in spec['radii']]),
        ('k_radial', spec['kind'] == 'radial'), ('k_xc', qlit(spec['xycen'][0])), ('k_yc', qlit(spec['xycen'][1])),
        ('k_ops', [Raw(COQ_OP[o]) for o in ops]), ('k_scale', int(spec['scale'])),
        ('x_radius', [qlit(r) for r in raw['radius']]), ('x_area', [vlit(v) for v in raw['area']]),
        ('x_trace', tr), ('x_final', fin),
        ('x_ee', None if ee == 'skip' else Some(None if ee is None else Some([int(c) for c in ee]))),
    ]
    return '{| ' + '; '.join(f'{k} := {coq(v)}' for k, v in fields) + ' |}'


# ----------------------------------------------------------------------------------------
class Reporter:
    """Defers ctx.violation so that, per signature, the most telling inputs (array differences before
    normalization_value differences, short histories first) are the ones written out; at most 3 each."""

    def __init__(self, ctx):
        self.ctx, self.items = ctx, []

    def add(self, sig, what, replay, found_input=True):
        ops = replay.get('spec', {}).get('ops') or []
        roundtrip = any(o in ('nmax', 'nsum') and 'un' in ops[i + 1:] for i, o in enumerate(ops))
        prio = (1 if ('normalization_value =' in what or 'normalization_value is' in what) else 0, 0 if (roundtrip or not ops) else 1, len(ops))
        self.items.append((prio, len(self.items), sig, what, replay, found_input))

    def flush(self):
        n = {}
        for prio, _, sig, what, replay, found in sorted(self.items, key=lambda t: (t[0], t[1])):
            n[sig] = n.get(sig, 0) + 1
            if n[sig] <= 3:
                self.ctx.violation(sig, what, replay, found_input=found)
        for sig, k in sorted(n.items()):
            self.ctx.stat('violating-inputs', sig, k)
        self.items = []


def gen_ops(rng, kind, dp_ok, sum_ok, maxlen):
    alpha = [o for o in (OPS_RAD if kind == 'radial' else OPS_COG)
             if (o != 'rd' or dp_ok) and (o != 'nsum' or sum_ok)]
    n = rng.randint(0, maxlen)
    ops = [rng.choice(alpha) for _ in range(n)]
    if n >= 2 and rng.random() < 0.5:      # make sure normalize ... unnormalize occurs often
        i = rng.randrange(n - 1)
        ops[i] = rng.choice(['nmax', 'nsum'] if sum_ok else ['nmax'])
        ops[rng.randrange(i + 1, n)] = 'un'
    return ops


def object_flags(spec, raw):
    dp_ok = spec['kind'] == 'radial' and not isinstance(raw['data_profile'], str)
    p = raw['profile'][np.isfinite(raw['profile'])]
    s, sa = (abs(p.sum()), np.abs(p).sum()) if p.size else (0.0, 0.0)
    sum_ok = bool(sa == 0 or s >= 1e-6 * sa)
    return dp_ok, sum_ok


def check_object(ctx, rep, spec, raw, W, tag):
    """Photometric clauses on one fresh object; returns True if no violation."""
    ok = True
    for sig, what in photometric_oracles(ctx, spec, raw, W):
        rep.add(sig, what, {'type': 'object', 'spec': describe(spec), 'cmd': 'bin/check C19 --replay <this file>'})
        ok = False
    if not weights_monotone(W):
        rep.add('hypothesis:weights-monotone-in-radius', 'to_mask weights of nested circular apertures are not '
                      'monotone in the radius (hypothesis of nonneg_data_monotone_cog_partial)',
                      {'type': 'object', 'spec': describe(spec)}, found_input=False)
        ok = False
    else:
        ctx.support('weights_monotone_in_radius(K-checked hypothesis)')
    ctx.stat(tag + ':kind', spec['kind'])
    ctx.stat(tag + ':centre', '/'.join(spec['where']))
    ctx.stat(tag + ':data', spec['dkind'] + ('+nonfinite' if spec['nonfinite'] else ''))
    ctx.stat(tag + ':mask', spec['mkind'])
    ctx.stat(tag + ':dtype', f"data={spec.get('dtype_data', 'float64')}/error={spec.get('dtype_error', 'float64') if spec['error'] is not None else '-'}")
    ctx.stat(tag + ':quantity', 'ndarray' if spec.get('unit') is None else repr(spec['unit']))
    f = spec.get('factor', 1.0)
    ctx.stat(tag + ':unit', '1' if f == 1.0 else ('<1e-15' if f < 1e-15 else '<1' if f < 1 else '>1e15' if f > 1e15 else '>1'))
    ctx.stat(tag + ':error', 'yes' if spec['error'] is not None else 'no')
    ctx.stat(tag + ':method', spec['method'] + (str(spec['subpixels']) if spec['method'] == 'subpixel' else ''))
    ctx.stat(tag + ':radii', ('from0' if spec['radii'][0] == 0 else 'positive') + f'/n={len(spec["radii"])}')
    if any(isinstance(w, str) and w == 'off' for w in W):
        ctx.stat(tag + ':apertures', 'some-off-image')
    return ok


def check_history(ctx, rep, spec, raw, ops, want_ee=True):
    """Runs one history on the implementation, applies the oracles; returns (trace, final, ee, ok)."""
    o, trace, final = run_history(spec, ops)
    ok = True
    for sig, what in history_oracle(spec, raw, ops, trace, final):
        rep.add(sig, what, {'type': 'history', 'spec': describe(spec, ops), 'cmd': 'bin/check C19 --replay <this file>'})
        ok = False
    ee = 'skip'
    if spec['kind'] == 'cog' and want_ee:
        ee = ee_classes(o)
        for sig, what in ee_oracle(o):
            rep.add(sig, what, {'type': 'history', 'spec': describe(spec, ops), 'cmd': 'bin/check C19 --replay <this file>'})
            ok = False
        ctx.stat('ee', 'raises' if ee is None else ('monotone-part-shorter' if mono_prefix(final['profile']) < len(final['profile'])
                                                   else 'fully-monotone'))
    return trace, final, ee, ok


def safe_coq_eval(ctx, terms):
    """check_case on all terms; if a shard fails or times out, re-run in small groups and bisect, so that one
    slow case cannot sink the run. Returns (indices that disagree, indices that could not be evaluated)."""
    try:
        return ctx.coq_eval_cases(['C19_Model'], 'check_case', terms, case_type='case', timeout=150), []
    except CoqEvalError:
        ctx.stat('coq', 'shard-failed:bisecting')
    bad, dead = [], []
    counter = [0]

    def rec(idx):
        counter[0] += 1
        try:
            b = ctx.coq_eval_cases(['C19_Model'], 'check_case', [terms[i] for i in idx], case_type='case',
                                   tag=f'retry{counter[0]}', timeout=60)
            bad.extend(idx[j] for j in b)
        except CoqEvalError:
            if len(idx) == 1:
                dead.append(idx[0])
            else:
                rec(idx[:len(idx) // 2])
                rec(idx[len(idx) // 2:])
    n = len(terms)
    for a in range(0, n, 64):
        rec(list(range(a, min(n, a + 64))))
    return sorted(bad), sorted(dead)


def run(ctx):
    ctx.build_with_translator(FILES, extra_files=['C01_Model.v', 'C01_Proofs.v', 'C01R_Model.v', 'C01R_Proofs.v', 'C19M_Proofs.v',
                                                  'C19M_RProofs.v', 'C19M_Properties.v'],
                              extra_obligation_files=['C19M_Properties.v'])   # weights monotone in the radius
    rep = Reporter(ctx)
    try:
        _run(ctx, rep)
    finally:
        rep.flush()


def _run(ctx, rep):
    quick = ctx.tier == 'quick'
    rng = ctx.rng
    ctx.cov['rule'] = (
        'objects: CurveOfGrowth / RadialProfile over random 3..10 x 3..10 images (constant, non-negative, signed, '
        'positive core with negative outskirts, plateau; NaN/inf pixels), centres inside / within a pixel of the edge / '
        'off the edge / wholly off the image, non-uniform radii (radial mostly starting at 0), masks (none, random, '
        'half-plane, all), error maps (with NaN), methods center / subpixel 1,2,4,8 (exact lattice: quarter-integer '
        'geometry, integer values; compared with the Coq model) and exact (arbitrary doubles; property oracles only). '
        'histories: random interleavings (length <= 6) of normalize(max|sum), unnormalize and reads of profile, '
        'profile_error, data_profile, plus ALL interleavings up to length 4 (quick) / 5 (thorough) on small objects. '
        'non-trivial = object with at least one finite non-zero profile value; distinct = distinct (object, history)')
    ctx.assumptions += [
        'aperture weights are taken from the implementation (CircularAperture.to_mask().to_image()); their geometric '
        'correctness is C01, the cutout slicing is C02',
        'PchipInterpolator is not modelled: the inverse-interpolator theorem assumes it interpolates its knots; the '
        'harness tests that composition on the real scipy object',
        'float rounding: exact-lattice cases are compared exactly where a value is computed without rounding '
        '(aperture sums, areas, radius) and to a relative 2^-40 after quotients / normalisation',
    ]
    ctx.cov['partial_clauses'] = [
        'nonneg_data_monotone_cog_partial: hypothesis "weights monotone in the radius" (K-checked on every object)',
        'ee_interpolators_inverse_on_monotone_part_partial: hypothesis "pchip interpolates its knots" (tested on scipy)',
    ]

    # ---------------- A. exact-lattice objects + random histories, compared with the Coq model
    ncoq = 260 if quick else 2200
    coq_cases, coq_meta = [], []
    skipped = 0
    for i in range(ncoq):
        spec = gen_spec(rng, lattice=True, small=(i % 2 == 0))
        raw = raw_arrays(spec)
        W = aper_weights(spec)
        ok = check_object(ctx, rep, spec, raw, W, 'lattice')
        dp_ok, sum_ok = object_flags(spec, raw)
        if spec['kind'] == 'radial' and not dp_ok:
            ctx.stat('histories', 'skipped:data_profile-raises(off-image window)')
            ops = []
            # without data_profile the history machine cannot be observed; photometry still compared
            trace, final, ee = [], dict(nv=1.0, profile=raw['profile'], profile_error=raw['profile_error'],
                                        data_profile=np.array([])), 'skip'
            hok = True
        else:
            ops = gen_ops(rng, spec['kind'], dp_ok, sum_ok, 6)
            trace, final, ee, hok = check_history(ctx, rep, spec, raw, ops)
        nontrivial = bool(np.any(np.isfinite(raw['profile']) & (raw['profile'] != 0)))
        ctx.count_case(describe(spec, ops), nontrivial)
        ctx.stat('histories', f'len={len(ops)}')
        term = to_coq(spec, W, ops, raw, trace, final, ee)
        if term is None:
            skipped += 1
            continue
        coq_cases.append(term)
        coq_meta.append((spec, ops, ok and hok, raw, trace, final, ee))
        if i < 2:
            ctx.sample({'case': describe(spec, ops), 'impl_profile': raw['profile'].tolist(),
                        'impl_area': raw['area'].tolist(), 'final': {k: (None if v is None else np.asarray(v).tolist())
                                                                     for k, v in final.items() if k in ('nv', 'profile', 'profile_error', 'data_profile')}})
    ctx.stat('coq', 'skipped:non-dyadic-weights', skipped)
    bad, dead = safe_coq_eval(ctx, coq_cases)
    ctx.stat('coq', 'disagreements', len(bad))
    ctx.stat('coq', 'could-not-evaluate', len(dead))
    for i in dead[:3]:
        spec, ops = coq_meta[i][0], coq_meta[i][1]
        rep.add('correspondence:C19_Model.check_case:could-not-evaluate', 'the model could not be evaluated on this case '
                'within the time limit (no verdict)', {'type': 'history', 'spec': describe(spec, ops)}, found_input=False)
    shown = 0
    for i in bad:
        spec, ops, ok, raw, trace, final, ee = coq_meta[i]
        if not ok:
            continue      # already reported with a concrete input by a property oracle
        if shown >= 5:
            break
        shown += 1
        detail = {'type': 'history', 'spec': describe(spec, ops), 'impl': {'radius': raw['radius'].tolist(),
                  'area': raw['area'].tolist(), 'trace': [(nv, None if g is None else g.tolist()) for nv, g in trace],
                  'final': {k: (None if v is None else np.asarray(v).tolist()) for k, v in final.items() if k in ('nv', 'profile', 'profile_error', 'data_profile')}, 'ee': ee},
                  'model': ctx.coq_eval_term(['C19_Model'], f'model_out {coq_cases[i]}'),
                  'cmd': 'bin/check C19 --replay <this file>'}
        rep.add('correspondence:C19_Model.check_case', 'model and implementation disagree although no property '
                'oracle fails on this input', detail, found_input=False)

    # ---------------- B. all interleavings on small objects (property oracles)
    maxlen = 4 if quick else 5
    nobj = 4 if quick else 10
    done = 0
    tries = 0
    while done < nobj and tries < 200:
        tries += 1
        kind = 'radial' if done % 2 == 0 else 'cog'
        spec = gen_spec(rng, lattice=(done % 4 < 2), small=True, kind=kind)
        if done % 8 == 2:
            spec['mask'] = np.ones(spec['data'].shape, bool)      # all-NaN profile
            spec['mkind'] = 'all'
        if done % 4 in (0, 1) and spec.get('unit') is None and done < 4:
            spec['unit'] = 'Jy' if done == 0 else 'electron / s'   # always some Quantity objects in the exhaustive part
        raw = raw_arrays(spec)
        dp_ok, sum_ok = object_flags(spec, raw)
        if kind == 'radial' and not dp_ok:
            continue
        W = aper_weights(spec)
        check_object(ctx, rep, spec, raw, W, 'exhaustive')
        alpha = [o for o in (OPS_RAD if kind == 'radial' else OPS_COG) if (o != 'nsum' or sum_ok)]
        n = 0
        stop = False
        for L in range(0, maxlen + 1):
            for ops in itertools.product(alpha, repeat=L):
                _, _, _, hok = check_history(ctx, rep, spec, raw, list(ops), want_ee=(L <= 2))
                n += 1
                if not hok:
                    stop = True      # one concrete history per object is enough
                    break
            if stop:
                break
        ctx.cov['evaluations'] += n
        ctx.stat('exhaustive', f'{kind}:histories', n)
        ctx.count_case(['exhaustive', describe(spec), maxlen], True)
        done += 1

    # ---------------- C. arbitrary doubles, method='exact' (property oracles only)
    nd = 150 if quick else 1500
    for i in range(nd):
        spec = gen_spec(rng, lattice=False, small=(i % 3 == 0))
        raw = raw_arrays(spec)
        W = aper_weights(spec)
        check_object(ctx, rep, spec, raw, W, 'doubles')
        dp_ok, sum_ok = object_flags(spec, raw)
        if spec['kind'] == 'radial' and not dp_ok:
            continue
        ops = gen_ops(rng, spec['kind'], dp_ok, sum_ok, 6)
        check_history(ctx, rep, spec, raw, ops)
        ctx.count_case(describe(spec, ops), bool(np.any(np.isfinite(raw['profile']) & (raw['profile'] != 0))))

    # ---------------- D. integer translation covariance (profile_shift), lattice, exact
    nshift = 40 if quick else 300
    for i in range(nshift):
        spec = gen_spec(rng, lattice=True, small=True)
        dy, dx = rng.randint(0, 3), rng.randint(0, 3)
        py, px = rng.randint(0, 2), rng.randint(0, 2)
        ny, nx = spec['data'].shape

        def pad(a, fill):
            if a is None:
                return None
            out = np.full((ny + dy + py, nx + dx + px), fill, a.dtype)
            out[dy:dy + ny, dx:dx + nx] = a
            return out
        spec2 = dict(spec)
        spec2.pop('_fresh', None)
        # the padded frame is masked, so exactly the original pixels contribute
        spec2['data'] = pad(spec['data'], 7.0)
        spec2['error'] = pad(spec['error'], 1.0)
        m = spec['mask'] if spec['mask'] is not None else np.zeros((ny, nx), bool)
        spec2['mask'] = pad(m, True)
        spec2['xycen'] = (spec['xycen'][0] + dx, spec['xycen'][1] + dy)
        a, b = raw_arrays(spec), raw_arrays(spec2)
        W1, W2 = aper_weights(spec), aper_weights(spec2)
        off_differs = any(isinstance(u, str) != isinstance(v, str) for u, v in zip(W1, W2))
        ctx.count_case(['shift', describe(spec), dy, dx, py, px])
        if off_differs:
            ctx.stat('shift', 'skipped:overlap-class-changes')
            continue
        ctx.stat('shift', 'compared')
        for name in ('profile', 'profile_error', 'area', 'radius'):
            if not same(a[name], b[name]):
                rep.add(f'{spec["kind"]}:integer-translation', f'{name} changes under an integer shift of image, mask, '
                              f'error and centre by ({dx},{dy}): {a[name].tolist()} vs {b[name].tolist()}',
                              {'type': 'shift', 'spec': describe(spec), 'shift': [dy, dx, py, px]})
                break


# ----------------------------------------------------------------------------------------
def replay(obj):
    r = obj['replay']
    spec = undescribe(r['spec'])
    spec['lattice'] = spec['method'] != 'exact'
    raw = raw_arrays(spec)
    W = aper_weights(spec)
    bad = []

    class _C:
        pass
    if r.get('type') == 'shift':
        print('shift replays are re-run by the check itself; photometric clauses only')
    bad += photometric_oracles(_C(), spec, raw, W)
    ops = r['spec'].get('ops')
    if ops is not None:
        o, trace, final = run_history(spec, ops)
        bad += history_oracle(spec, raw, ops, trace, final)
        if spec['kind'] == 'cog':
            bad += ee_oracle(o)
            print('profile:', fa(o.profile).tolist(), ' calc_radius_at_ee classes:', ee_classes(o))
        print('ops:', ops)
        print('final:', {k: (None if v is None else np.asarray(v).tolist()) for k, v in final.items() if k in ('nv', 'profile', 'profile_error', 'data_profile')})
    print('fresh:', {k: (v if v is None or isinstance(v, str) else v.tolist()) for k, v in raw.items()})
    for sig, what in bad:
        print('FAILS:', sig, '--', what)
    print('property FAILS on this input' if bad else 'property holds on this input')
    return 1 if bad else 0
