"""C08 — indexing a catalog commutes with evaluating its properties; a sliced catalog is
independent of its parent (SourceCatalog, ApertureStats)."""
import inspect

import numpy as np

from .core import coq

PID = 'C08'
FILES = ['lib/Cases.v', 'C08_Model.v', 'C08_Proofs.v', 'C08_Properties.v']


# --------------------------------------------------------------------------
# canonicalisation of values (by value; NaN == NaN; never addresses)
# --------------------------------------------------------------------------
def _num(x):
    x = x.item() if hasattr(x, 'item') else x
    if isinstance(x, float):
        if x != x:
            return 'nan'
        return float(x).hex()
    if isinstance(x, (bool, int)):
        # integers and integer-valued floats are the same value (an index array becomes
        # float as soon as one source of the catalog contributes a NaN)
        return float(x).hex() if abs(int(x)) < 2 ** 53 else int(x)
    if isinstance(x, complex):
        return ('c', _num(x.real), _num(x.imag))
    if x is None:
        return ('none',)
    return canon(x)


def canon(v):
    """Hashable canonical form of a value (compared by value)."""
    import astropy.units as u
    from astropy.coordinates import SkyCoord
    from photutils.aperture import Aperture, ApertureMask, BoundingBox
    if v is None:
        return ('none',)
    if isinstance(v, (bool, np.bool_)):
        return ('b', bool(v))
    if isinstance(v, (int, np.integer)):
        return ('n', _num(int(v)))
    if isinstance(v, (float, np.floating)):
        return ('n', _num(float(v)))
    if isinstance(v, str):
        return ('s', v)
    if isinstance(v, slice):
        return ('slice', v.start, v.stop, v.step)
    if isinstance(v, SkyCoord):
        w = v.icrs
        return ('sky', v.frame.name, tuple(np.shape(v)), canon(np.asarray(w.ra.deg)), canon(np.asarray(w.dec.deg)))
    if isinstance(v, np.ma.MaskedArray) and not isinstance(v, u.Quantity):
        return ('ma', canon(np.asarray(v.data)), canon(np.ma.getmaskarray(v)))
    if isinstance(v, u.Quantity):
        return ('q', str(v.unit), canon(np.asarray(v.value)))
    if isinstance(v, np.ndarray):
        if v.dtype == object:
            return ('oarr', tuple(v.shape), tuple(canon(e) for e in v.ravel()))
        kind = 'n' if v.dtype.kind in 'iuf' else v.dtype.kind
        if v.shape == ():
            return (kind, _num(v[()])) if kind != 'b' else ('b', bool(v[()]))
        return ('arr', kind, tuple(v.shape), tuple(_num(e) for e in v.ravel().tolist()))
    if isinstance(v, BoundingBox):
        return ('bbox', v.ixmin, v.ixmax, v.iymin, v.iymax)
    if isinstance(v, ApertureMask):
        return ('apmask', canon(v.bbox), canon(np.asarray(v.data)))
    if isinstance(v, Aperture):
        pars = tuple((p, canon(getattr(v, p))) for p in v._params)
        return ('aper', type(v).__name__, pars)
    if isinstance(v, dict):
        return ('dict', tuple(sorted((str(k), canon(x)) for k, x in v.items())))
    if isinstance(v, (list, tuple)):
        return ('seq', tuple(canon(e) for e in v))
    if type(v).__name__ == 'CutoutImage':
        return ('cutout', canon(np.asarray(v.data)), canon(v.bbox_original), canon(v.slices_original))
    r = repr(v)
    return ('obj', type(v).__name__, r if ' at 0x' not in r else '')      # never an address


def container_kind(v):
    """0 none (np.isscalar), 1 ndarray (incl. Quantity, masked), 2 list, 3 tuple, 4 other sequence object."""
    if isinstance(v, np.ndarray):
        return 1
    if isinstance(v, list):
        return 2
    if isinstance(v, tuple):
        return 3
    return 4


# --------------------------------------------------------------------------
# class description
# --------------------------------------------------------------------------
def _chain(fn):
    names = []
    while fn is not None:
        names.append(fn.__code__.co_name)
        fn = getattr(fn, '__wrapped__', None)
    return names


def class_info(cls):
    from astropy.utils import lazyproperty
    lazy = [n for n, _ in inspect.getmembers(cls, lambda o: isinstance(o, lazyproperty))]
    props = [n for n, _ in inspect.getmembers(cls, lambda o: isinstance(o, property))]
    info = {'lazy': lazy, 'props': props, 'asc': set(), 'udet': set()}
    for n in props:
        ch = _chain(getattr(cls, n).fget)
        if '_as_scalar' in ch or '_decorator' in ch:
            info['asc'].add(n)
        if '_use_detcat' in ch:
            info['udet'].add(n)
    if cls.__name__ == 'SourceCatalog':
        info['pyscal'] = ['isscalar', 'nlabels']
        pub = [n for n in lazy if not n.startswith('_') and n not in info['pyscal']] + ['label', 'labels', 'slices']
    else:
        info['pyscal'] = ['isscalar', 'n_apertures']
        pub = [n for n in lazy if not n.startswith('_') and n not in info['pyscal']] + ['id', 'ids']
    info['public'] = sorted(pub)
    return info


# --------------------------------------------------------------------------
# scenes
# --------------------------------------------------------------------------
def make_wcs():
    from astropy.wcs import WCS
    w = WCS(naxis=2)
    w.wcs.crpix = [10.0, 8.0]
    w.wcs.cdelt = [-0.001, 0.001]
    w.wcs.crval = [150.0, 2.0]
    w.wcs.ctype = ['RA---TAN', 'DEC--TAN']
    return w


def gen_scene(rng):
    """A small image with sources of the classes named by the property: a smooth blob, a flat
    2-pixel source, a 1-pixel source, a fully masked source, a source with a NaN pixel, a
    negative source, a source at the frame edge."""
    ny, nx = rng.randint(18, 24), rng.randint(22, 30)
    data = np.zeros((ny, nx))
    # gentle dyadic background pattern
    for y in range(ny):
        for x in range(nx):
            data[y, x] = ((3 * x + 5 * y) % 7) / 16.0
    seg = np.zeros((ny, nx), int)
    mask = np.zeros((ny, nx), bool)
    kinds = ['blob', 'flat2', 'pix1', 'masked', 'nanpix', 'neg', 'edge', 'flatbox', 'blob2', 'line']
    rng.shuffle(kinds)
    if rng.random() < 0.6:
        # an elongated source flanked by negative troughs: the enclosed flux is not monotonic in
        # the radius, so the root search of fluxfrac_radius has to shrink its bracket or fails
        kinds.insert(rng.randrange(3), 'trough')
    nsrc = rng.randint(3, 6)
    placed = []
    lab = 0
    cells = [(cy, cx) for cy in range(3) for cx in range(3)]
    rng.shuffle(cells)
    for kind, (cy, cx) in zip(kinds[:nsrc], cells):
        y0 = 1 + cy * (ny // 3) + rng.randint(0, 1)
        x0 = 1 + cx * (nx // 3) + rng.randint(0, 2)
        lab += 1
        if kind in ('blob', 'blob2'):
            yy, xx = np.mgrid[:ny, :nx]
            sx, sy = (2.0, 1.2) if kind == 'blob' else (1.1, 1.9)
            g = np.round(40 * np.exp(-((xx - x0 - 2) ** 2 / (2 * sx * sx) + (yy - y0 - 2) ** 2 / (2 * sy * sy)))
                         * 8) / 8
            sel = (g > 2) & (np.abs(xx - x0 - 2) <= 3) & (np.abs(yy - y0 - 2) <= 2) & (seg == 0)
            data[sel] += g[sel]
            seg[sel] = lab
        elif kind == 'flat2':
            data[y0, x0:x0 + 2] = 5.0
            seg[y0, x0:x0 + 2] = lab
        elif kind == 'pix1':
            data[y0, x0] = 9.0
            seg[y0, x0] = lab
        elif kind == 'masked':
            data[y0:y0 + 2, x0:x0 + 3] = 6.0
            seg[y0:y0 + 2, x0:x0 + 3] = lab
            mask[y0:y0 + 2, x0:x0 + 3] = True
        elif kind == 'nanpix':
            data[y0:y0 + 3, x0:x0 + 3] = [[3, 4, 3], [4, 9, 4], [3, 4, 2]]
            data[y0, x0 + 1] = np.nan
            seg[y0:y0 + 3, x0:x0 + 3] = lab
        elif kind == 'neg':
            data[y0:y0 + 2, x0:x0 + 2] = [[-3, -2], [-4, 1]]
            seg[y0:y0 + 2, x0:x0 + 2] = lab
        elif kind == 'edge':
            data[0:2, x0:x0 + 3] = [[2, 7, 3], [1, 3, 2]]
            seg[0:2, x0:x0 + 3] = lab
        elif kind == 'flatbox':
            data[y0:y0 + 3, x0:x0 + 4] = 4.0
            seg[y0:y0 + 3, x0:x0 + 4] = lab
        elif kind == 'line':
            data[y0, x0:x0 + 4] = [3, 5, 6, 2]
            seg[y0, x0:x0 + 4] = lab
        elif kind == 'trough':
            x1 = min(x0, nx - 7)
            data[y0 + 2, x1:x1 + 6] = [6, 10, 14, 14, 10, 6]
            seg[y0 + 2, x1:x1 + 6] = lab
            depth = rng.choice([8, 12, 20])
            for yy_ in (y0, y0 + 1, y0 + 3, y0 + 4):
                if 0 <= yy_ < ny:
                    data[yy_, x1:x1 + 6] = -depth / (1 if yy_ in (y0 + 1, y0 + 3) else 2)
        placed.append(kind)
    # labels need not be consecutive: relabel with a random increasing or shuffled map
    labels = sorted(rng.sample(range(1, 12), lab))
    if rng.random() < 0.5:
        rng.shuffle(labels)
    out = np.zeros_like(seg)
    for k in range(1, lab + 1):
        out[seg == k] = labels[k - 1]
    error = np.round(np.sqrt(np.abs(np.nan_to_num(data)) + 1.0) * 4) / 4
    bkg = np.full((ny, nx), 0.25) + (np.arange(nx) % 4) / 8.0
    return {'data': data, 'seg': out, 'mask': mask, 'error': error, 'background': bkg, 'kinds': placed}


def gen_config(rng):
    return {
        'error': rng.random() < 0.6,
        'mask': rng.random() < 0.7,
        'background': rng.random() < 0.5,
        'wcs': rng.random() < 0.5,
        'localbkg_width': rng.choice([0, 0, 2, 3]),
        'kron_params': rng.choice([(2.5, 1.4), (2.5, 1.4, 0.0), (2.5, 1.4, 3.0), (2.0, 1.0, 6.0)]),
        'apermask_method': rng.choice(['correct', 'correct', 'mask', 'none']),
        'detection_cat': rng.random() < 0.35,
        'unit': rng.random() < 0.3,
        'convolved': rng.random() < 0.4,
    }


def build_sourcecat(scene, cfg):
    import astropy.units as u
    from astropy.convolution import convolve
    from photutils.segmentation import SegmentationImage, SourceCatalog
    unit = u.Jy if cfg['unit'] else 1
    data = scene['data'].copy()
    kw = {}
    if cfg['error']:
        kw['error'] = scene['error'].copy() * unit
    if cfg['mask']:
        kw['mask'] = scene['mask'].copy()
    if cfg['background']:
        kw['background'] = scene['background'].copy() * unit
    if cfg['wcs']:
        kw['wcs'] = make_wcs()
    if cfg['convolved']:
        k = np.array([[1, 2, 1], [2, 4, 2], [1, 2, 1]]) / 16.0
        kw['convolved_data'] = convolve(np.nan_to_num(data), k, normalize_kernel=False) * unit
    segm = SegmentationImage(scene['seg'].copy())
    detcat = None
    if cfg['detection_cat']:
        det_data = np.nan_to_num(scene['data']) + (scene['seg'] > 0) * 1.0
        detcat = SourceCatalog(det_data * unit, segm, mask=kw.get('mask'), wcs=kw.get('wcs'),
                               kron_params=cfg['kron_params'], apermask_method=cfg['apermask_method'])
    return SourceCatalog(data * unit, segm, localbkg_width=cfg['localbkg_width'],
                         kron_params=cfg['kron_params'], apermask_method=cfg['apermask_method'],
                         detection_cat=detcat, **kw)


def gen_aper_config(rng):
    return {
        'error': rng.random() < 0.6,
        'mask': rng.random() < 0.6,
        'wcs': rng.random() < 0.5,
        'sky': rng.random() < 0.3,
        'sigma_clip': rng.random() < 0.4,
        'sum_method': rng.choice(['exact', 'center', 'subpixel']),
        'local_bkg': rng.choice([None, 'scalar', 'array']),
        'unit': rng.random() < 0.3,
        'shape': rng.choice(['circle', 'circle', 'ellipse', 'annulus']),
        'naper': rng.randint(2, 6),
        'seed': rng.randint(0, 10 ** 6),
    }


def build_aperstats(scene, cfg):
    import random
    import astropy.units as u
    from astropy.stats import SigmaClip
    from photutils.aperture import ApertureStats, CircularAperture, CircularAnnulus, EllipticalAperture
    r = random.Random(cfg['seed'])
    ny, nx = scene['data'].shape
    unit = u.Jy if cfg['unit'] else 1
    pos = []
    ys, xs = np.nonzero(scene['seg'])
    for k in range(cfg['naper']):
        c = r.random()
        if c < 0.55 and len(ys):
            i = r.randrange(len(ys))
            pos.append((float(xs[i]) + r.choice([0, 0.25, 0.5]), float(ys[i]) + r.choice([0, 0.25])))
        elif c < 0.7:
            pos.append((-30.0, -30.0))                 # no overlap with the image
        elif c < 0.85:
            pos.append((0.0, float(r.randrange(ny))))  # partial overlap
        else:
            pos.append((float(r.randrange(nx)), float(r.randrange(ny))))
    if cfg['shape'] == 'circle':
        aper = CircularAperture(pos, r=r.choice([1.0, 2.5, 3.0]))
    elif cfg['shape'] == 'ellipse':
        aper = EllipticalAperture(pos, 3.0, 1.5, theta=0.5)
    else:
        aper = CircularAnnulus(pos, 1.5, 3.5)
    kw = {}
    wcs = make_wcs() if (cfg['wcs'] or cfg['sky']) else None
    if cfg['sky']:
        aper = aper.to_sky(wcs)
    if wcs is not None:
        kw['wcs'] = wcs
    if cfg['error']:
        kw['error'] = scene['error'].copy() * unit
    if cfg['mask']:
        kw['mask'] = scene['mask'].copy()
    if cfg['sigma_clip']:
        kw['sigma_clip'] = SigmaClip(sigma=2.0, maxiters=3)
    if cfg['local_bkg'] == 'scalar':
        kw['local_bkg'] = 0.5 * unit
    elif cfg['local_bkg'] == 'array':
        kw['local_bkg'] = (np.arange(cfg['naper']) / 4.0) * unit
    return ApertureStats(scene['data'].copy() * unit, aper, sum_method=cfg['sum_method'], subpixels=4, **kw)


# --------------------------------------------------------------------------
# index forms
# --------------------------------------------------------------------------
def gen_index(rng, n, labels=None, kind=None):
    """-> (description (JSON-able), python index object or ('label', ...) request, positions, scalar?)"""
    kinds = ['int', 'negint', 'slice', 'slice_step', 'list', 'array', 'mask', 'masklist']
    if labels is not None:
        kinds += ['get1', 'getn']
    kind = kind or rng.choice(kinds)
    if kind == 'int':
        i = rng.randrange(n)
        return {'kind': 'int', 'i': i}
    if kind == 'negint':
        i = -rng.randint(1, n)
        return {'kind': 'int', 'i': i}
    if kind == 'slice':
        a = rng.choice([None, 0, 1, rng.randrange(n), -rng.randint(1, n)])
        b = rng.choice([None, n, n + 2, rng.randint(1, n), -1])
        d = {'kind': 'slice', 'a': a, 'b': b, 's': None}
        if not list(range(n))[slice(a, b)]:
            d = {'kind': 'slice', 'a': 0, 'b': rng.randint(1, n), 's': None}
        return d
    if kind == 'slice_step':
        s = rng.choice([2, -1, -2, 3])
        d = {'kind': 'slice', 'a': None, 'b': None, 's': s}
        return d
    if kind in ('list', 'array'):
        k = rng.randint(1, min(n, 4))
        l = [rng.randrange(-n, n) for _ in range(k)]
        return {'kind': kind, 'l': l}
    if kind in ('mask', 'masklist'):
        m = [rng.random() < 0.5 for _ in range(n)]
        if not any(m):
            m[rng.randrange(n)] = True
        return {'kind': kind, 'm': m}
    if kind == 'get1':
        return {'kind': 'get1', 'label': int(rng.choice(list(labels)))}
    k = rng.randint(1, min(n, 3))
    return {'kind': 'getn', 'labels': [int(x) for x in rng.sample(list(labels), k)]}


def index_positions(d, n, labels=None):
    """(positions in the parent, child is scalar?)"""
    k = d['kind']
    if k == 'int':
        return [d['i'] % n], True
    if k == 'slice':
        return list(range(n))[slice(d['a'], d['b'], d['s'])], False
    if k in ('list', 'array'):
        return [i % n for i in d['l']], False
    if k in ('mask', 'masklist'):
        return [i for i, b in enumerate(d['m']) if b], False
    labs = [int(x) for x in labels]
    if k == 'get1':
        return [labs.index(d['label'])], True
    return [labs.index(x) for x in d['labels']], False


def apply_index(cat, d):
    k = d['kind']
    if k == 'int':
        return cat[d['i']]
    if k == 'slice':
        return cat[slice(d['a'], d['b'], d['s'])]
    if k == 'list':
        return cat[list(d['l'])]
    if k == 'array':
        return cat[np.array(d['l'])]
    if k == 'mask':
        return cat[np.array(d['m'], bool)]
    if k == 'masklist':
        return cat[list(d['m'])]
    is_sc = type(cat).__name__ == 'SourceCatalog'
    if k == 'get1':
        return cat.get_label(d['label']) if is_sc else cat.get_id(d['label'])
    return cat.get_labels(d['labels']) if is_sc else cat.get_ids(d['labels'])


def cat_labels(cat):
    return [int(x) for x in (cat.labels if type(cat).__name__ == 'SourceCatalog' else cat.ids)]


# --------------------------------------------------------------------------
# per-source reading of a value
# --------------------------------------------------------------------------
ALWAYS_ITERABLE = ('labels', 'ids')          # documented as "always an iterable"
ERR = {'TypeError': 1, 'IndexError': 2, 'ValueError': 3, 'AttributeError': 4}
POOL = ['x0', 'x1', 'x2', 'x3', 'c1_flux', 'c1_fluxerr', 'k1_flux', 'k1_fluxerr', 'ff1', 'x4', 'x5', 'y0', 'y1']
METHODS = {   # pseudo-properties: method name, argument, index in the returned tuple
    'M:circ:1.5:flux': ('circular_photometry', 1.5, 0), 'M:circ:1.5:fluxerr': ('circular_photometry', 1.5, 1),
    'M:circ:3.0:flux': ('circular_photometry', 3.0, 0), 'M:circ:3.0:fluxerr': ('circular_photometry', 3.0, 1),
    'M:kron:a:flux': ('kron_photometry', (2.5, 1.4), 0), 'M:kron:a:fluxerr': ('kron_photometry', (2.5, 1.4), 1),
    'M:kron:b:flux': ('kron_photometry', (3.0, 1.0, 2.0), 0),
    'M:kron:b:fluxerr': ('kron_photometry', (3.0, 1.0, 2.0), 1),
    'M:fluxfrac:0.1': ('fluxfrac_radius', 0.1, None), 'M:fluxfrac:0.5': ('fluxfrac_radius', 0.5, None),
    'M:fluxfrac:0.9': ('fluxfrac_radius', 0.9, None), 'M:fluxfrac:0.999': ('fluxfrac_radius', 0.999, None),
    'M:fluxfrac:1.0': ('fluxfrac_radius', 1.0, None),
    'M:mkcirc:2.0': ('make_circular_apertures', 2.0, None),
    'M:mkkron:none': ('make_kron_apertures', None, None),
    'M:mkkron:c': ('make_kron_apertures', (3.0, 1.0), None),
}
PHOT = {   # op argument -> (pseudo-properties, name suffixes)
    'circ:1.5': (['M:circ:1.5:flux', 'M:circ:1.5:fluxerr'], ['_flux', '_fluxerr']),
    'circ:3.0': (['M:circ:3.0:flux', 'M:circ:3.0:fluxerr'], ['_flux', '_fluxerr']),
    'kron:a': (['M:kron:a:flux', 'M:kron:a:fluxerr'], ['_flux', '_fluxerr']),
    'kron:b': (['M:kron:b:flux', 'M:kron:b:fluxerr'], ['_flux', '_fluxerr']),
    'fluxfrac:0.1': (['M:fluxfrac:0.1'], ['']), 'fluxfrac:0.5': (['M:fluxfrac:0.5'], ['']),
    'fluxfrac:0.9': (['M:fluxfrac:0.9'], ['']), 'fluxfrac:0.999': (['M:fluxfrac:0.999'], ['']),
    'fluxfrac:1.0': (['M:fluxfrac:1.0'], ['']),
    'mkcirc:2.0': (['M:mkcirc:2.0'], None), 'mkkron:none': (['M:mkkron:none'], None),
    'mkkron:c': (['M:mkkron:c'], None),
}


def _ffarg_canon(e):
    # the cached CircularAperture of _fluxfrac_optimizer_args is re-used (its radius is
    # overwritten) by every fluxfrac_radius call: compare everything but that radius
    if e is None:
        return ('none',)
    data, mask, aper, kronflux, kwargs, maxrad = e
    return ('ffarg', canon(data), canon(mask), canon(aper.positions), canon(kronflux), canon(kwargs), canon(maxrad))


def canon_key(key, v):
    if key == '_fluxfrac_optimizer_args' and isinstance(v, (list, tuple)):
        return ('seq', tuple(_ffarg_canon(e) for e in v))
    return canon(v)


def value_len(v):
    try:
        return len(v)
    except TypeError:
        return None


def elem_canons(key, v):
    n = value_len(v)
    if n is None:
        raise TypeError('no len')
    if key == '_fluxfrac_optimizer_args':
        return [_ffarg_canon(v[i]) for i in range(n)]
    return [canon(v[i]) for i in range(n)]


def call_method(cat, m, name=None, overwrite=False):
    meth, arg, _ = METHODS[m]
    fn = getattr(cat, meth)
    if meth in ('make_circular_apertures', 'make_kron_apertures'):
        return fn(arg)
    return fn(arg, name=name, overwrite=overwrite)


def photutils_site(e):
    import traceback
    fr = [f for f in traceback.extract_tb(e.__traceback__) if '/photutils/' in f.filename]
    fr = [f for f in fr if f.name not in ('_as_scalar', '_use_detcat', '_decorator', '__get__')]
    return fr[-1].name if fr else 'unknown'


# --------------------------------------------------------------------------
# setup shared by the cases of one (scene, configuration)
# --------------------------------------------------------------------------
class Setup:
    def __init__(self, cls, scene_seed, cfg):
        import random
        from photutils.aperture import ApertureStats
        from photutils.segmentation import SourceCatalog
        self.cls = cls
        self.scene_seed = scene_seed
        self.scene = gen_scene(random.Random(scene_seed))
        self.cfg = cfg
        self.klass = SourceCatalog if cls == 'sc' else ApertureStats
        self.info = class_info(self.klass)
        self._tok = {}
        ref = self.build()
        # ApertureStats.__init__ already reads n_apertures (isscalar, _pixel_aperture)
        self.precached = [k for k in ref.__dict__ if k in self.info['lazy']]
        self.init_attrs = [k for k in ref.__dict__ if k != '_local_bkg' and k not in self.precached]
        self.n = len(ref)
        self.labels = cat_labels(ref)
        self.hasdet = cls == 'sc' and ref._detection_cat is not None
        info = self.info
        lazy = info['lazy']
        self.base = ['label', 'labels', 'slices'] if cls == 'sc' else ['id', 'ids']
        self.methods = sorted(METHODS) if cls == 'sc' else []
        pubmeth = [n for n, o in inspect.getmembers(self.klass, inspect.isfunction)]
        names = sorted(set(lazy) | set(info['props']) | set(pubmeth) | set(self.init_attrs) | set(POOL)
                       | set(self.methods) | {'_local_bkg'})
        self.nid = {n: i + 1 for i, n in enumerate(names)}
        self.props_attr = sorted(set(dir(self.klass)) | set(self.init_attrs))
        self.internal = sorted(set(info['props']) | set(self.init_attrs))
        # reference values: f role p s
        self.unevaluable = set()
        self.f, self.f_det = {}, {}
        self.kind0, self.kind1, self.kind0_det = {}, {}, {}
        targets = [(ref, self.f)] + ([(ref._detection_cat, self.f_det)] if self.hasdet else [])
        for obj, table in targets:
            for p in lazy + self.base:
                if p in info['pyscal']:
                    continue
                try:
                    v = getattr(obj, p)
                    table[p] = elem_canons(p, v)
                    (self.kind0 if obj is ref else self.kind0_det)[p] = container_kind(v)
                except Exception:
                    if obj is ref:
                        self.unevaluable.add(p)
        if cls == 'as':
            self.f['_local_bkg'] = elem_canons('_local_bkg', ref._local_bkg)
            self.kind0['_local_bkg'] = 1
        self.bad_methods = set()
        for m in self.methods:
            try:
                v = call_method(self.build(), m)
            except Exception:
                # e.g. kron_photometry(3-element params) on a catalog built with 2-element
                # kron_params (IndexError in _make_elliptical_apertures): fails on the parent
                # itself, not an indexing issue -> the method is not used for this configuration
                self.bad_methods.add(m)
                continue
            if METHODS[m][2] is not None:
                v = v[METHODS[m][2]]
            self.f[m] = elem_canons(m, v)
            self.kind0[m] = container_kind(v)
        # container kinds of values computed on a scalar catalog (when not unwrapped)
        for i in range(self.n):
            try:
                sc = self.build()[i]
            except Exception:
                break
            todo = [p for p in lazy + self.base if p not in self.kind1 and p not in self.unevaluable
                    and p not in info['pyscal']]
            if not todo:
                break
            for p in todo:
                try:
                    v = getattr(sc, p)
                except Exception:
                    continue
                self.kind1[p] = container_kind(v)
        # row orders "sorted by a property" (NaN last, stable), from the reference catalog
        self.sort_keys = {}
        for p in (['segment_flux', 'area', 'max_value', 'xcentroid', 'kron_flux'] if cls == 'sc'
                  else ['sum', 'max', 'xcentroid', 'mean']):
            try:
                vals = np.asarray(getattr(getattr(ref, p), 'value', getattr(ref, p)), float)
                self.sort_keys[p] = [int(i) for i in np.argsort(vals, kind='stable')]
            except Exception:
                pass
        self.public = [p for p in info['public'] if p not in self.unevaluable]
        self.lazy_ok = [p for p in lazy if p not in self.unevaluable]

    def build(self):
        return build_sourcecat(self.scene, self.cfg) if self.cls == 'sc' else build_aperstats(self.scene, self.cfg)

    def tok(self, c):
        return self._tok.setdefault(c, len(self._tok) + 1)

    def behaves_as_scalar(self, p):
        # a scalar catalog reports the bare per-source value
        return p in self.info['asc'] or p == '_pixel_aperture' or p.startswith('M:')

    def ival(self, v, key=None):
        whole = self.tok(canon_key(key, v))
        if np.isscalar(v):
            return (whole, 0, [])
        n = value_len(v)
        es = []
        if n is not None and n <= 8:
            try:
                es = [self.tok(c) for c in elem_canons(key, v)]
            except Exception:
                es = []
        return (whole, container_kind(v), es)

    # ---- Coq tables ----
    def coq_tables(self, used):
        """Class description and value tables, restricted to the names that occur in the case
        (a name that is never mentioned cannot influence the model's run)."""
        info = self.info
        used = set(used) | {'isscalar', 'nlabels' if self.cls == 'sc' else 'n_apertures'}
        if self.cls == 'as':
            used |= {'_pixel_aperture', '_local_bkg'}
        nid = self.nid
        rows, rows_det = [], []
        for p in (info['lazy'] + self.base + [m for m in self.methods if m not in self.bad_methods]
                  + (['_local_bkg'] if self.cls == 'as' else [])):
            if p not in used:
                continue
            rows.append((nid[p], p.startswith('_'), self.behaves_as_scalar(p), p in info['udet'],
                         p in info['pyscal'], self.kind0.get(p, 1), self.kind1.get(p, self.kind0.get(p, 1))))
            if self.hasdet and p in info['lazy']:
                k0 = self.kind0_det.get(p, 1)
                # a scalar detection catalog is only ever produced by slicing; freshly computed
                # private values keep the container type of the main catalog's scalar values
                k1 = self.kind1.get(p, k0) if self.kind0.get(p) == k0 else k0
                rows_det.append((nid[p], p.startswith('_'), self.behaves_as_scalar(p), p in info['udet'],
                                 p in info['pyscal'], k0, k1))
        ftab = [(nid[p], [self.tok(c) for c in cs]) for p, cs in sorted(self.f.items()) if p in used]
        fdet = [(nid[p], [self.tok(c) for c in cs]) for p, cs in sorted(self.f_det.items()) if p in used]
        special = (nid['isscalar'], nid['nlabels'] if self.cls == 'sc' else nid['n_apertures'],
                   nid['_pixel_aperture'] if self.cls == 'as' else 0, nid['_local_bkg'] if self.cls == 'as' else 0)
        isc_trace = [nid['_pixel_aperture']] if self.cls == 'as' else []
        d0 = [(nid['_local_bkg'], [self.tok(c) for c in self.f['_local_bkg']])] if self.cls == 'as' else []
        return dict(sourcecat=self.cls == 'sc', lazy=[nid[p] for p in info['lazy'] if p in used],
                    props=[nid[p] for p in self.props_attr if p in used],
                    internal=[nid[p] for p in self.internal if p in used], basep=[nid[p] for p in self.base],
                    desc=rows, desc_det=rows_det, f=ftab, fdet=fdet, special=special, isc_trace=isc_trace,
                    labels=self.labels, n=self.n, hasdet=self.hasdet, d0=d0)


_SETUPS = {}


def get_setup(cls, scene_seed, cfg):
    import json
    key = json.dumps([cls, scene_seed, cfg], sort_keys=True, default=str)
    if key not in _SETUPS:
        if len(_SETUPS) > 4:
            _SETUPS.clear()
        _SETUPS[key] = Setup(cls, scene_seed, cfg)
    return _SETUPS[key]


# --------------------------------------------------------------------------
# executing a case (a history of operations) on the real API
# --------------------------------------------------------------------------
def cval_coq(v):
    if v[0] == 'scal':
        return f'(CScal {coq(v[1])})'
    return f'(CCont {["", "KArr", "KList", "KTuple", "KObj"][v[1]]} {coq(v[2])})'


def index_coq(d):
    k = d['kind']
    if k == 'int':
        return f'(IInt {coq(d["i"])})'
    if k == 'slice':
        o = lambda x: 'None' if x is None else f'(Some {coq(x)})'
        return f'(ISlice {o(d["a"])} {o(d["b"])} {o(d["s"])})'
    if k in ('list', 'array'):
        return f'(IList {coq(list(d["l"]))})'
    return f'(IMask {coq([bool(b) for b in d["m"]])})'


def ival_coq(iv):
    return coq((iv[0], iv[1], list(iv[2])))


def make_value(S, spec, cat):
    """User value for add_extra_property -> (python value, model cval)."""
    import astropy.units as u
    scalar = bool(cat.isscalar) if 'isscalar' in cat.__dict__ else (np.shape(cat._labels) == ())
    n = 1 if scalar else len(cat._labels)
    kind, base = spec['kind'], spec['base']
    if kind == 'scalar':
        v = float(base * 100 + 7)
        return v, ('scal', S.tok(canon(v)))
    m = {'badlen': n + 1, 'len1': 1}.get(kind, n)
    arr = np.arange(m) * 1.0 + base * 100
    if kind == 'list':
        v, kc = [float(x) for x in arr], 2
    elif kind == 'tuple':
        v, kc = tuple(float(x) for x in arr), 3
    elif kind == 'qty':
        v, kc = arr * u.m, 1
    else:
        v, kc = arr, 1
    return v, ('cont', kc, [S.tok(canon(v[i])) for i in range(m)])


def snapshot(S, cat):
    """What a catalog reports about its extra properties, and a deep copy (by value) of every
    cached entry of its __dict__ — public or underscore, nested lists/arrays/objects included —
    so that an in-place write into an object shared with another catalog is seen even before it
    changes a public value (without side effects)."""
    ex = list(cat.extra_properties)
    return (tuple(ex), tuple((k, canon(cat.__dict__[k])) if k in cat.__dict__ else (k, 'MISSING') for k in ex),
            tuple(sorted(k for k in cat.__dict__ if k not in S.init_attrs)),
            tuple(sorted((k, canon_key(k, v)) for k, v in cat.__dict__.items() if k not in S.init_attrs)))


class Abort(Exception):
    pass


def execute(desc):
    """Run the history on the real classes. Returns dict(term=Coq case, viol=[...], stats=...)."""
    S = get_setup(desc['cls'], desc['scene_seed'], desc['cfg'])
    info = S.info
    used = set()

    def N(name):
        used.add(name)
        return S.nid[name]
    lazyset = set(info['lazy'])
    cats = [S.build()]
    srcs = {0: list(range(S.n))}   # catalog -> positions of its sources in the root catalog
    exp = {0: []}     # catalog -> the extra_properties list it must report (order included), maintained from
    #                   the documented effect of every SUCCESSFUL registry operation (independent of the model)
    rel = {}          # child -> (parent, positions, scalar)
    ops, obs, viol = [], [], []
    final = {}        # cat -> {public property: per-source canon list}
    done = []         # executed operations (aligned with ops/obs)
    nsnap = [0, 0]
    cname = S.klass.__name__

    def detof(c):
        return getattr(c, '_detection_cat', None)

    def keys(c):
        d = detof(c)
        return set(c.__dict__), (set(d.__dict__) if d is not None else set())

    def traces(c, before, exclude=None):
        km, kd = before
        d = detof(c)
        trm = [k for k in c.__dict__ if k not in km and k in lazyset and k != exclude]
        trd = [k for k in d.__dict__ if k not in kd and k in lazyset] if d is not None else []
        return [N(k) for k in trm], [N(k) for k in trd]

    def is_scalar(c):
        return np.shape(c._labels if desc['cls'] == 'sc' else c._ids) == ()

    def raw_labels(c):     # without touching any lazyproperty
        return [int(x) for x in np.atleast_1d(c._labels if desc['cls'] == 'sc' else c._ids)]

    def raise_violation(j, what_op, e, public):
        site = photutils_site(e)
        kind = 'scalar' if is_scalar(cats[j]) else 'multi'
        detail = {'case': desc, 'failing_op': what_op, 'error': f'{type(e).__name__}: {e}'[:300], 'cat': j}
        if public:
            viol.append((f'{cname}.{site}:{type(e).__name__}:{kind}-catalog',
                         f'{what_op} raises {type(e).__name__} on a {kind} sliced catalog although the parent '
                         f'evaluates it', detail, True))
        else:
            viol.append((f'correspondence:{cname}.{site}:private-read-raises', f'{what_op} raises', detail, False))

    try:
        for od in desc['ops']:
            o, j = od['op'], od['j']
            if j >= len(cats):
                continue
            c = cats[j]
            done.append(od)
            if o == 'eval':
                p = od['p']
                before = keys(c)
                try:
                    v = getattr(c, p)
                except Exception as e:
                    raise_violation(j, f'reading .{p}', e, not p.startswith('_'))
                    raise Abort()
                trm, trd = traces(c, before, exclude=p)
                if od.get('forced_trace'):
                    trm = [N(k) for k in od['forced_trace']]
                ops.append(f'(OEval {j}%nat {N(p)} {coq(trm)} {coq(trd)})')
                obs.append(f'(IVal {ival_coq(S.ival(v, p))})')
                if od.get('final'):
                    if is_scalar(c) and p not in ALWAYS_ITERABLE:
                        final.setdefault(j, {})[p] = [canon(v)]
                    else:
                        final.setdefault(j, {})[p] = elem_canons(p, v)
            elif o == 'evalall':
                before = keys(c)
                for p in od['props']:
                    try:
                        v = getattr(c, p)
                    except Exception as e:
                        raise_violation(j, f'reading .{p}', e, True)
                        raise Abort()
                    if is_scalar(c) and p not in ALWAYS_ITERABLE:
                        final.setdefault(j, {})[p] = [canon(v)]
                    else:
                        final.setdefault(j, {})[p] = elem_canons(p, v)
                trm, trd = traces(c, before)
                ops.append(f'(OTouch {j}%nat {coq(trm)} {coq(trd)})')
                obs.append('IUnit')
            elif o == 'index':
                d = od['idx']
                try:
                    ch = apply_index(c, d)
                    err = None
                except Exception as e:
                    err = ERR.get(type(e).__name__, 99)
                    ch = None
                if d['kind'] in ('get1', 'getn'):
                    labs = [d['label']] if d['kind'] == 'get1' else list(d['labels'])
                    ops.append(f'(OLabel {j}%nat {coq(d["kind"] == "get1")} {coq(labs)})')
                else:
                    ops.append(f'(OIndex {j}%nat {index_coq(d)})')
                if ch is None:
                    obs.append(f'(IErr {err})')
                else:
                    obs.append('IUnit')
                    if d['kind'] in ('get1', 'getn') and not od.get('invalid'):
                        req = [d['label']] if d['kind'] == 'get1' else list(d['labels'])
                        if raw_labels(ch) != [int(x) for x in req]:
                            what_m = 'get_label(s)' if desc['cls'] == 'sc' else 'get_id(s)'
                            viol.append((f'{cname}.{"get_labels" if desc["cls"] == "sc" else "get_ids"}:wrong-rows',
                                         f'{what_m}({req}) on a catalog with rows {raw_labels(c)} returned rows '
                                         f'labelled {raw_labels(ch)}', {'case': desc, 'request': req, 'cat': j}, True))
                            od = dict(od, invalid=True)   # reported once; not compared property by property
                    if not is_scalar(c) and not od.get('invalid'):
                        labs_c = raw_labels(c)
                        pos, scalar = index_positions(d, len(labs_c), labs_c)
                        rel[len(cats)] = (j, pos, scalar)
                        if j in srcs:
                            srcs[len(cats)] = [srcs[j][i] for i in pos]
                        # V: the child registers exactly the parent's extra properties, in order
                        if desc['cls'] == 'sc' and j in exp:
                            exp[len(cats)] = list(exp[j])
                            if list(ch.extra_properties) != exp[j] or list(c.extra_properties) != exp[j]:
                                viol.append((f'{cname}.__getitem__:extra_properties-wrong',
                                             f'after indexing, parent lists {list(c.extra_properties)} and child '
                                             f'lists {list(ch.extra_properties)}; registered (in order): {exp[j]}',
                                             {'case': desc, 'child': len(cats)}, True))
                        # V: extra properties are sliced like built-in ones
                        for k in ((exp[j] if j in exp else list(c.extra_properties)) if desc['cls'] == 'sc' else []):
                            if k not in c.__dict__:
                                continue
                            try:
                                want = [elem_canons(k, c.__dict__[k])[i] for i in pos]
                                got = ([canon(getattr(ch, k))] if scalar else elem_canons(k, getattr(ch, k))) \
                                    if k in ch.extra_properties else None
                            except Exception as e:
                                got, want = f'{type(e).__name__}', 'values'
                            if got != want:
                                viol.append((f'{cname}.__getitem__:extra-property-not-sliced',
                                             f'cat[idx].{k} != cat.{k}[idx] for the extra property {k}',
                                             {'case': desc, 'extra': k, 'child': len(cats)}, True))
                    cats.append(ch)
            elif o == 'dict':
                def dd(x):
                    return [(N(k), S.ival(v, k)) for k, v in x.__dict__.items() if k not in S.init_attrs]
                main_d = dd(c)
                det_d = dd(detof(c)) if detof(c) is not None else None
                fmt = lambda l: '[' + '; '.join(f'({a}, {ival_coq(b)})' for a, b in l) + ']'
                ops.append(f'(ODict {j}%nat)')
                obs.append(f'(IDict {fmt(main_d)} {"None" if det_d is None else "(Some " + fmt(det_d) + ")"})')
            elif o == 'extras':
                ops.append(f'(OExtras {j}%nat)')
                obs.append(f'(INames {coq([N(k) for k in c.extra_properties])})')
            elif o == 'table':
                ops.append(f'(OTable {j}%nat)')
                try:
                    c.to_table(columns=list(c.extra_properties))
                    obs.append('IUnit')
                except Exception as e:
                    obs.append(f'(IErr {ERR.get(type(e).__name__, 99)})')
                    if j in exp and all(k in c.__dict__ for k in exp[j]):
                        viol.append((f'{cname}.to_table:raises-on-extra_properties',
                                     f'to_table(columns=extra_properties) raises {type(e).__name__} although every '
                                     f'registered extra property {exp[j]} is an attribute (extra_properties = '
                                     f'{list(c.extra_properties)})', {'case': desc, 'cat': j}, True))
            else:     # mutating operations: add / remove / rename / phot
                others = {k: snapshot(S, x) for k, x in enumerate(cats) if k != j} if desc['cls'] == 'sc' else {}
                # (a FAILED remove/rename may already have deleted attributes of names that stay registered:
                #  error atomicity is not part of the property; such names are not held against later operations)
                pre_missing = set(k for k in exp.get(j, []) if k not in c.__dict__)
                before = keys(c)
                res = None
                try:
                    if o == 'add':
                        val, cv = make_value(S, od['val'], c)
                        c.add_extra_property(od['name'], val, overwrite=od['overwrite'])
                    elif o == 'remove':
                        c.remove_extra_properties(list(od['names']))
                    elif o == 'rename':
                        c.rename_extra_property(od['name'], od['new'])
                    elif o == 'phot':
                        ms, suff = PHOT[od['arg']]
                        res = call_method(c, ms[0], name=od.get('name'), overwrite=od.get('overwrite', False))
                    err = None
                except Exception as e:
                    err = ERR.get(type(e).__name__, 99)
                    if o == 'phot' and photutils_site(e) not in ('add_extra_property',):
                        raise_violation(j, f'{METHODS[PHOT[od["arg"]][0][0]][0]}({METHODS[PHOT[od["arg"]][0][0]][1]})',
                                        e, True)
                        raise Abort()
                if o == 'add':
                    ops.append(f'(OAdd {j}%nat {N(od["name"])} {cval_coq(cv)} {coq(bool(od["overwrite"]))})')
                elif o == 'remove':
                    ops.append(f'(ORemove {j}%nat {coq([N(k) for k in od["names"]])})')
                elif o == 'rename':
                    trm, trd = traces(c, before, exclude=od['name'])
                    ops.append(f'(ORename {j}%nat {N(od["name"])} {N(od["new"])} {coq(trm)} {coq(trd)})')
                else:
                    ms, suff = PHOT[od['arg']]
                    trm, trd = traces(c, before)
                    names = [N(od['name'] + s) for s in suff] if (suff is not None and od.get('name')) else []
                    ops.append(f'(OPhot {j}%nat {coq([N(m) for m in ms])} {coq(names)} '
                               f'{coq(bool(od.get("overwrite", False)))} {coq(trm)} {coq(trd)})')
                if err is not None:
                    obs.append(f'(IErr {err})')
                elif o == 'phot':
                    vals = list(res) if len(PHOT[od['arg']][0]) == 2 else [res]
                    obs.append('(IVals [' + '; '.join(ival_coq(S.ival(v)) for v in vals) + '])')
                    # V: the same call on a fresh catalog gives, for each source, the same value
                    for m, v in zip(PHOT[od['arg']][0], vals):
                        if j not in srcs or m not in S.f:
                            continue
                        got = [canon(v)] if is_scalar(c) else elem_canons(m, v)
                        nsnap[1] += 1
                        if got != [S.f[m][s_] for s_ in srcs[j]]:
                            meth, marg, _ = METHODS[m]
                            viol.append((f'{cname}.{meth}:differs-from-fresh-catalog',
                                         f'{meth}({marg}) on catalog #{j} differs from the same call on a fresh '
                                         f'catalog (for the same sources) after the history',
                                         {'case': desc, 'op': od, 'cat': j}, True))
                else:
                    obs.append('IUnit')
                # V: the registry after a successful operation is what the operation documents
                if desc['cls'] == 'sc' and j in exp:
                    gone = []
                    if err is None:
                        if o == 'add' and not od['overwrite']:
                            exp[j].append(od['name'])
                        elif o == 'remove':
                            for k in od['names']:
                                exp[j].remove(k) if k in exp[j] else None
                            gone = list(od['names'])
                        elif o == 'rename':
                            if od['name'] in exp[j]:
                                exp[j][exp[j].index(od['name'])] = od['new']
                            gone = [od['name']]
                        elif o == 'phot' and od.get('name') and not od.get('overwrite', False) \
                                and PHOT[od['arg']][1] is not None:
                            exp[j] += [od['name'] + s_ for s_ in PHOT[od['arg']][1]]
                        meth = {'add': 'add_extra_property', 'remove': 'remove_extra_properties',
                                'rename': 'rename_extra_property'}.get(o) or METHODS[PHOT[od['arg']][0][0]][0]
                        now_l = list(c.extra_properties)
                        if now_l != exp[j]:
                            viol.append((f'{cname}.{meth}:extra_properties-wrong',
                                         f'after {meth} ({ {k: v for k, v in od.items() if k not in ("op", "j", "val")} }) '
                                         f'extra_properties is {now_l}, expected {exp[j]} (order included)',
                                         {'case': desc, 'op': od, 'cat': j}, True))
                        missing = [k for k in exp[j] if k not in c.__dict__ and k not in pre_missing]
                        leaked = [k for k in gone if k in c.__dict__ and k not in exp[j]]
                        if missing or leaked:
                            viol.append((f'{cname}.{meth}:extra-attribute-mismatch',
                                         f'after {meth}: registered without attribute {missing}; removed/renamed names '
                                         f'still attributes {leaked}', {'case': desc, 'op': od, 'cat': j}, True))
                    if any(v[0].endswith((':extra_properties-wrong', ':extra-attribute-mismatch')) for v in viol):
                        del exp[j]      # reported once: this catalog's registry is no longer followed
                    else:
                        exp[j] = list(c.extra_properties)  # failed operations may have partial effects (model only)
                # V: independence — the other catalogs report what they reported before
                for k, snap in others.items():
                    nsnap[0] += 1
                    now = snapshot(S, cats[k])
                    if now[:3] == snap[:3] and now[3] != snap[3]:
                        changed = sorted(set(a[0] for a in set(now[3]) ^ set(snap[3])))
                        viol.append(('SourceCatalog.__getitem__:shared-cached-objects',
                                     f'{o} ({od.get("arg", "")}) on catalog #{j} changed the cached value(s) '
                                     f'{changed} of catalog #{k} (objects shared by reference between parent and '
                                     f'slice written in place)', {'case': desc, 'op': od, 'other': k,
                                                                  'changed': changed}, True))
                    elif now != snap:
                        viol.append(('SourceCatalog.__getitem__:shared-_extra_properties',
                                     f'{o} on catalog #{j} changed what catalog #{k} reports '
                                     f'(extra_properties {list(snap[0])} -> {list(now[0])}'
                                     + (', listed name without attribute: to_table raises AttributeError'
                                        if any(x[1] == 'MISSING' for x in now[1]) else '') + ')',
                                     {'case': desc, 'op': od, 'other': k}, True))
    except Abort:
        pass
    # V: commutation — child.p == select(parent.p) for every public property read at the end
    for k, (j, pos, scalar) in rel.items():
        if k not in final or j not in final:
            continue
        for p, got in final[k].items():
            if p not in final[j]:
                continue
            want = [final[j][p][i] for i in pos]
            if got != want:
                viol.append((f'{cname}.{p}:differs-after-indexing',
                             f'cat[idx].{p} != cat.{p}[idx] (catalog #{k} = #{j}[idx])',
                             {'case': desc, 'property': p, 'child': k, 'parent': j}, True))
    # V: every catalog reports, for each of its sources, what a fresh catalog that was never
    # indexed or operated on reports for that source
    for k, vals in final.items():
        if k not in srcs:
            continue
        for p, got in vals.items():
            if p in S.f and got != [S.f[p][s] for s in srcs[k]] \
                    and not any(v[0].startswith(f'{cname}.{p}:') for v in viol):
                viol.append((f'{cname}.{p}:differs-from-fresh-catalog',
                             f'catalog #{k} reports a {p} that differs from fresh_catalog.{p}[its sources] after '
                             f'the history', {'case': desc, 'property': p, 'cat': k}, True))
    t = S.coq_tables(used)
    term = ('{| k_sourcecat := %s; k_lazy := %s; k_props := %s; k_internal := %s; k_basep := %s; k_desc := %s; k_desc_det := %s; '
            'k_f := %s; k_f_det := %s; k_special := %s; k_isc_trace := %s; k_labels := %s; k_n := %s; '
            'k_hasdet := %s; k_d0 := %s; k_ops := [%s]; k_obs := [%s] |}' % (
                coq(t['sourcecat']), coq(t['lazy']), coq(t['props']), coq(t['internal']), coq(t['basep']),
                coq(t['desc']), coq(t['desc_det']), coq(t['f']), coq(t['fdet']), coq(t['special']), coq(t['isc_trace']),
                coq(t['labels']), coq(t['n']), coq(t['hasdet']), coq(t['d0']), '; '.join(ops), '; '.join(obs)))
    return {'term': term, 'viol': viol, 'nops': len(ops), 'ncats': len(cats), 'rel': rel, 'setup': S,
            'done': done, 'ops': ops, 'obs': obs, 'final': final, 'nsnap': nsnap[0], 'nphot': nsnap[1]}


# --------------------------------------------------------------------------
# generating histories
# --------------------------------------------------------------------------
def gen_case(rng, cls, scene_seed, cfg, S):
    n, labels = S.n, list(S.labels)
    ops = []
    # model-side bookkeeping of the catalogs created so far: (labels, scalar)
    cats = [(labels, False)]
    lazy_ok = S.lazy_ok

    def pre_eval(j, k):
        for p in rng.sample(lazy_ok, min(k, len(lazy_ok))):
            ops.append({'op': 'eval', 'j': j, 'p': p})

    reg = {0: []}

    def extras_op(j):
        labs, scalar = cats[j]
        c = rng.random()
        if c < 0.35:
            kind = rng.choice(['arr', 'arr', 'list', 'tuple', 'qty', 'scalar', 'len1', 'badlen'])
            name = rng.choice(POOL[:4] + POOL[:4] + ['area', 'to_table', 'wcs', 'c1_flux'])
            ops.append({'op': 'add', 'j': j, 'name': name, 'val': {'kind': kind, 'base': rng.randint(1, 9)},
                        # (overwrite=True would let a method name such as to_table be shadowed)
                        'overwrite': rng.random() < 0.25 and name != 'to_table'})
        elif c < 0.5:
            ops.append({'op': 'remove', 'j': j, 'names': rng.sample(POOL, rng.randint(1, 2))})
        elif c < 0.65:
            ops.append({'op': 'rename', 'j': j, 'name': rng.choice(POOL + ['area']), 'new': rng.choice(POOL)})
        else:
            arg = rng.choice([a for a in sorted(PHOT) if not set(PHOT[a][0]) & S.bad_methods])
            name = None
            if PHOT[arg][1] is not None and rng.random() < 0.7:
                name = {'c': 'c1', 'k': 'k1', 'f': 'ff1'}[arg[0]]
            ops.append({'op': 'phot', 'j': j, 'arg': arg, 'name': name, 'overwrite': rng.random() < 0.3})

    def observe_others(j):
        for k in range(len(cats)):
            if k != j:
                ops.append({'op': 'extras', 'j': k})
                ops.append({'op': 'table', 'j': k})

    def do_index(j, kind=None):
        labs, scalar = cats[j]
        if scalar:
            ops.append({'op': 'index', 'j': j, 'idx': {'kind': 'int', 'i': 0}, 'invalid': True})
            return None
        d = gen_index(rng, len(labs), labs, kind)
        pos, sc = index_positions(d, len(labs), labs)
        ops.append({'op': 'index', 'j': j, 'idx': d})
        cats.append(([labs[i] for i in pos], sc))
        reg[len(cats) - 1] = list(reg.get(j, []))
        return len(cats) - 1

    def do_index_explicit(j, d):
        labs, scalar = cats[j]
        pos, sc = index_positions(d, len(labs), labs)
        ops.append({'op': 'index', 'j': j, 'idx': d})
        cats.append(([labs[i] for i in pos], sc))
        reg[len(cats) - 1] = list(reg.get(j, []))
        return len(cats) - 1

    def good_value(j):
        kinds = ['scalar', 'len1', 'scalar'] if cats[j][1] else ['arr', 'arr', 'qty', 'list', 'tuple']
        if len(cats[j][0]) == 1 and not cats[j][1]:
            kinds.append('len1')
        return {'kind': rng.choice(kinds), 'base': rng.randint(1, 9)}

    def extras_block(j):
        """A coherent walk over the extra-property API on catalog j: several registrations, renames
        of the first / a middle / the last registered name, overwrites, removals (one, several, all),
        interleaved with observations and indexings.  [reg] is the generator's idea of the registry
        (only used to pick names that make the operations succeed)."""
        r = reg.setdefault(j, [])

        def fresh_name():
            free = [x for x in POOL if x not in r and not x.endswith(('_flux', '_fluxerr')) and x != 'ff1']
            return rng.choice(free) if free else None

        def look():
            ops.append({'op': 'extras', 'j': j})
            if rng.random() < 0.6:
                ops.append({'op': 'table', 'j': j})

        for _ in range(rng.randint(2, 4)):                      # register several
            nm = fresh_name()
            if nm is None:
                break
            if rng.random() < 0.2 and not S.bad_methods and 'c1_flux' not in r:
                ops.append({'op': 'phot', 'j': j, 'arg': 'circ:1.5', 'name': 'c1', 'overwrite': False})
                r += ['c1_flux', 'c1_fluxerr']
            else:
                ops.append({'op': 'add', 'j': j, 'name': nm, 'val': good_value(j), 'overwrite': False})
                r.append(nm)
        look()
        for _ in range(rng.randint(2, 5)):
            c = rng.random()
            if c < 0.4 and r:                                   # rename first / middle / last
                where = rng.choice(['first', 'middle', 'last'])
                i = {'first': 0, 'last': len(r) - 1, 'middle': len(r) // 2 if len(r) < 3 else rng.randrange(1, len(r) - 1)}[where]
                new = fresh_name()
                if new is not None:
                    ops.append({'op': 'rename', 'j': j, 'name': r[i], 'new': new})
                    r[i] = new
            elif c < 0.55 and r:                                # overwrite a registered property
                ops.append({'op': 'add', 'j': j, 'name': rng.choice(r), 'val': good_value(j), 'overwrite': True})
            elif c < 0.75 and r:                                # remove one / several / all
                how = rng.choice(['one', 'one', 'some', 'all'])
                names = [rng.choice(r)] if how == 'one' else (list(r) if how == 'all' else
                                                              rng.sample(r, min(len(r), 2)))
                ops.append({'op': 'remove', 'j': j, 'names': names})
                for k in names:
                    r.remove(k)
            elif c < 0.9:
                nm = fresh_name()
                if nm is not None:
                    ops.append({'op': 'add', 'j': j, 'name': nm, 'val': good_value(j), 'overwrite': False})
                    r.append(nm)
            elif len(cats) < 7 and not cats[j][1]:              # slice the catalog that carries the extras
                ch = do_index(j)
                ops.append({'op': 'extras', 'j': ch})
                ops.append({'op': 'table', 'j': ch})
            look()
            if rng.random() < 0.5:
                observe_others(j)
        if len(cats) < 7 and not cats[j][1] and rng.random() < 0.7:
            ch = do_index(j)
            ops.append({'op': 'dict', 'j': ch})
            ops.append({'op': 'extras', 'j': ch})
            ops.append({'op': 'table', 'j': ch})
            if rng.random() < 0.5:
                extras_block(ch) if rng.random() < 0.4 else observe_others(ch)

    def reorder_then_lookup():
        """Rows reordered by a permutation that is not its own inverse (3-cycles, sorted-by-property
        orders), possibly a sub-selection, then get_label(s)/get_id(s) with scalars, shuffled lists
        and repeats on the reordered catalog."""
        kind = rng.choice(['perm', 'perm', 'sortby', 'subperm'])
        if kind == 'sortby':
            keyp = rng.choice([p for p in (['segment_flux', 'area', 'max_value', 'xcentroid', 'kron_flux']
                                           if cls == 'sc' else ['sum', 'max', 'xcentroid', 'mean'])
                               if p in S.sort_keys] or [None])
            perm = list(S.sort_keys[keyp]) if keyp else list(range(n))
            if rng.random() < 0.5:
                perm.reverse()
        else:
            perm = list(range(n))
            for _ in range(20):
                rng.shuffle(perm)
                if any(perm[perm[i]] != i for i in range(n)):     # not an involution
                    break
            if kind == 'subperm' and n >= 4:
                perm = perm[:rng.randint(3, n - 1)]
        form = rng.choice(['list', 'array'])
        cp = do_index_explicit(0, {'kind': form, 'l': [int(i) for i in perm]})
        ops.append({'op': 'dict', 'j': cp})
        labs = cats[cp][0]
        if rng.random() < 0.4:
            pre_eval(cp, rng.choice([2, 8]))
        cq = do_index_explicit(cp, {'kind': 'get1', 'label': int(rng.choice(labs))})
        k = rng.randint(2, min(len(labs), 4))
        req = rng.sample(labs, k)
        if rng.random() < 0.5:
            req.insert(rng.randrange(len(req) + 1), rng.choice(req))      # a repeated label
        cr = do_index_explicit(cp, {'kind': 'getn', 'labels': [int(x) for x in req]})
        if rng.random() < 0.4 and len(cats[cr][0]) >= 3:                   # look up again in the looked-up catalog
            sub = rng.sample(sorted(set(cats[cr][0])), 1)
            if cats[cr][0].count(sub[0]) == 1:
                do_index_explicit(cr, {'kind': 'get1', 'label': int(sub[0])})
        ops.append({'op': 'dict', 'j': cr})

    if S.precached:      # lazyproperties already evaluated by __init__
        ops.append({'op': 'eval', 'j': 0, 'p': S.precached[-1], 'forced_trace': S.precached[:-1]})
    pre_eval(0, rng.choice([0, 0, 2, 6, 20, 60, len(lazy_ok)]))
    def phot_op(j, fluxfrac_only=False):
        args = [a for a in sorted(PHOT) if not set(PHOT[a][0]) & S.bad_methods
                and (a.startswith('fluxfrac') or not fluxfrac_only)]
        if not args:
            return
        arg = rng.choice(args)
        name = None
        if PHOT[arg][1] is not None and rng.random() < 0.25:
            name = {'c': 'c1', 'k': 'k1', 'f': 'ff1'}[arg[0]]
        ops.append({'op': 'phot', 'j': j, 'arg': arg, 'name': name, 'overwrite': True})

    storm = cls == 'sc' and rng.random() < 0.5
    xblock = cls == 'sc' and rng.random() < 0.6
    if cls == 'sc':
        if xblock and rng.random() < 0.6:
            extras_block(0)
        for _ in range(rng.choice([0, 0, 1, 2, 3])):
            extras_op(0)
        if storm and rng.random() < 0.7:
            # the caches of the photometry methods (_fluxfrac_optimizer_args, kron apertures, ...)
            # exist before the indexing: parent and slices share their per-source entries
            for _ in range(rng.randint(1, 2)):
                phot_op(0, fluxfrac_only=rng.random() < 0.7)
    ops.append({'op': 'dict', 'j': 0})
    c1 = do_index(0)
    ops.append({'op': 'dict', 'j': c1})
    if rng.random() < 0.2:
        ops.append({'op': 'dict', 'j': 0})
    if cls == 'sc':
        ops.append({'op': 'extras', 'j': c1})
    r = rng.random()
    if r < 0.3:
        pre_eval(c1, rng.choice([1, 4, 15]))
    if rng.random() < 0.45:
        c2 = do_index(c1)                      # a slice of a slice (or TypeError on a scalar)
        if c2 is not None:
            ops.append({'op': 'dict', 'j': c2})
    if rng.random() < 0.35:
        pre_eval(0, rng.choice([2, 10]))
        c3 = do_index(0)
        ops.append({'op': 'dict', 'j': c3})
    if n >= 3 and rng.random() < 0.4:
        reorder_then_lookup()
    if rng.random() < 0.15:                    # invalid index expressions
        j = rng.randrange(len(cats))
        m = len(cats[j][0])
        bad = rng.choice([{'kind': 'int', 'i': m + 1}, {'kind': 'int', 'i': -m - 1}, {'kind': 'list', 'l': [0, m]},
                          {'kind': 'mask', 'm': [True] * (m + 1)}, {'kind': 'get1', 'label': 99},
                          {'kind': 'getn', 'labels': [cats[j][0][0], 98]}])
        ops.append({'op': 'index', 'j': j, 'idx': bad, 'invalid': True})
        ops.append({'op': 'dict', 'j': j})
    if xblock:
        for _ in range(rng.choice([1, 1, 2])):
            extras_block(rng.randrange(len(cats)))
    if storm:
        # photometry methods with arguments that exercise the retry / failure branches, repeated on
        # parent and children in both orders (results are compared with a fresh catalog; the deep
        # snapshots of all other catalogs must not change)
        for _ in range(rng.randint(3, 6)):
            phot_op(rng.randrange(len(cats)), fluxfrac_only=rng.random() < 0.7)
    if cls == 'sc':
        for _ in range(rng.choice([0, 1, 2, 3, 5])):
            j = rng.randrange(len(cats))
            extras_op(j)
            observe_others(j)
            if rng.random() < 0.3:
                ops.append({'op': 'extras', 'j': j})
                ops.append({'op': 'table', 'j': j})
        if rng.random() < 0.3 and not cats[-1][1]:
            c4 = do_index(len(cats) - 1)       # slice a catalog that carries extra properties
            if c4 is not None:
                ops.append({'op': 'dict', 'j': c4})
                ops.append({'op': 'extras', 'j': c4})
                ops.append({'op': 'table', 'j': c4})
    # final reads of every public property, youngest catalog first
    for j in reversed(range(len(cats))):
        order = list(S.public)
        rng.shuffle(order)
        k = rng.choice([0, 0, 3, 10])
        for p in order[:k]:                    # read one by one: the returned value is observed
            ops.append({'op': 'eval', 'j': j, 'p': p, 'final': True})
        # the others in one go: their values are observed through the final __dict__
        ops.append({'op': 'evalall', 'j': j, 'props': [p for p in order[k:] if p not in S.base]})
        for p in order[k:]:
            if p in S.base:
                ops.append({'op': 'eval', 'j': j, 'p': p, 'final': True})
    for j in range(len(cats)):
        ops.append({'op': 'dict', 'j': j})
    return {'cls': cls, 'scene_seed': scene_seed, 'cfg': cfg, 'ops': ops}


def class_facts(S):
    """Hypotheses of the theorems about the class description, checked on the real class."""
    info = S.info
    bad = []
    for p in info['lazy']:
        if p not in info['props']:
            bad.append(f'lazyproperty {p} is not a property')
        if not p.startswith('_') and p not in info['pyscal'] and p not in info['asc']:
            bad.append(f'public lazyproperty {p} lacks as_scalar')
    for p in ['isscalar'] + (['_pixel_aperture'] if S.cls == 'as' else []):
        if p in info['udet']:
            bad.append(f'{p} is a use_detcat property')
    return bad


def empty_selection_check(ctx, S):
    """cat[idx] for an index expression that selects no source (empty slice, all-False mask,
    empty list): a valid index expression for the catalog length.  Direct oracle only."""
    cname = S.klass.__name__
    forms = [('slice', lambda n: slice(0, 0)), ('mask', lambda n: np.zeros(n, bool)), ('list', lambda n: [])]
    for form, mk in forms:
        for pre in (False, True):
            cat = S.build()
            if pre:
                for p in S.public:
                    getattr(cat, p)
            desc = {'kind': 'empty-selection', 'cls': S.cls, 'scene_seed': S.scene_seed, 'cfg': S.cfg, 'form': form,
                    'evaluated_before': pre}
            ctx.count_case(desc, True)
            ctx.stat('empty-selection', f'{S.cls}:{form}:{"before" if pre else "after"}')
            try:
                child = cat[mk(S.n)]
            except Exception as e:
                ctx.violation(f'{cname}.__getitem__:empty-selection', f'cat[{form} selecting nothing] raises '
                              f'{type(e).__name__}', desc)
                continue
            raising, differ = [], []
            for p in S.public:
                try:
                    got = elem_canons(p, getattr(child, p))
                except Exception as e:
                    raising.append(f'{p}: {type(e).__name__}')
                    continue
                if got != []:
                    differ.append(p)
            if differ:
                ctx.violation(f'{cname}:empty-selection:values', 'properties of an empty selection are not empty: '
                              + ', '.join(differ[:8]), dict(desc, properties=differ))
            if raising:
                sig = f'{cname}:empty-selection:read-{"cached" if pre else "after-indexing"}'
                ctx.violation(sig, f'{len(raising)} of {len(S.public)} public properties raise on cat[idx] when idx '
                              f'selects no source (cat.p[idx] is an empty array): ' + ', '.join(raising[:6]) + ', ...',
                              dict(desc, raising=raising))


def run(ctx):
    ctx.build_with_translator(FILES)
    ctx.cov['rule'] = ('histories on real SourceCatalog / ApertureStats objects built on small scenes (blobs, flat 2-pixel, '
                       '1-pixel, fully masked, NaN-pixel, negative, frame-edge sources; options error/mask/background/'
                       'wcs/localbkg_width/kron_params(2,3)/apermask_method/detection_cat/units): random subset of '
                       'lazyproperties evaluated first, every index form, slices of slices, rows reordered by non-involutive '
                       'permutations / sorted-by-property orders followed by get_label(s)/get_id(s) lookups (scalars, '
                       'shuffled lists, repeats), walks over the extra-property API (several registrations, rename of the '
                       'first/middle/last name, overwrite, remove one/several/all, interleaved with indexing, '
                       'extra_properties and to_table), extra-property and '
                       'photometry operations on parent or child, then every public property read on every catalog; '
                       'non-trivial = at least one successful indexing; distinct = distinct (scene, config, history)')
    ctx.assumptions += ['the body of a property is not modelled: which other lazyproperties it runs is observed '
                        '(trace = new __dict__ keys) and given to the model; its per-source value is an opaque '
                        'identifier taken from a reference catalog that is never indexed']
    ctx.cov['partial_clauses'] = [
        'per-source nature of each concrete property (the value of p for a source does not depend on which other '
        'sources are in the catalog): property bodies are not modelled; established for every public property by '
        'the correspondence (identifiers of a never-indexed reference catalog) and the direct oracle, not by a theorem',
        'in-place modification of cached arrays/objects shared between parent and slice (numpy views, the cached '
        'CircularAperture of _fluxfrac_optimizer_args): not modelled; covered by the direct oracle only']
    quick = ctx.tier == 'quick'
    nscene = 8 if quick else 60
    per_cfg = 5 if quick else 8
    descs = []
    import json
    for it in range(nscene):
        scene_seed = ctx.rng.randrange(10 ** 6)
        for cls in ('sc', 'sc', 'as'):
            cfg = gen_config(ctx.rng) if cls == 'sc' else gen_aper_config(ctx.rng)
            S = get_setup(cls, scene_seed, cfg)
            if it == 0:
                for msg in class_facts(S):
                    ctx.violation('correspondence:class-description', msg, {'class': S.klass.__name__},
                                  found_input=False)
            if it < 2:
                empty_selection_check(ctx, S)
            for k, v in cfg.items():
                ctx.stat(f'{cls}-config', f'{k}={v}')
            for kind in S.scene['kinds']:
                ctx.stat('scene-sources', kind)
            for _ in range(per_cfg if cls == 'sc' else per_cfg // 2 + 1):
                descs.append(gen_case(ctx.rng, cls, scene_seed, cfg, S))
    # empty selections on an ApertureStats built on sky apertures (always exercised)
    empty_selection_check(ctx, get_setup('as', 593566, {
        'error': False, 'mask': False, 'wcs': True, 'sky': True, 'sigma_clip': False, 'sum_method': 'exact',
        'local_bkg': None, 'unit': True, 'shape': 'annulus', 'naper': 4, 'seed': 866782}))
    # ... and on one built on pixel apertures (always exercised, whatever the random configurations are)
    empty_selection_check(ctx, get_setup('as', 593566, {
        'error': True, 'mask': False, 'wcs': False, 'sky': False, 'sigma_clip': False, 'sum_method': 'exact',
        'local_bkg': None, 'unit': False, 'shape': 'circle', 'naper': 4, 'seed': 866782}))
    terms, results, seen_sigs = [], [], {}
    for d in descs:
        r = execute(d)
        results.append(r)
        terms.append(r['term'])
        for o in d['ops']:
            ctx.stat('ops', o['op'] + (':' + o['idx']['kind'] if o['op'] == 'index' else ''))
        ctx.stat('cases', d['cls'])
        nlook = sum(1 for i, o in enumerate(d['ops']) if o['op'] == 'index' and o['idx']['kind'] in ('get1', 'getn')
                    and any(q['op'] == 'index' and q['idx']['kind'] in ('list', 'array') and q['j'] == 0
                            and len(q['idx']['l']) >= 3 for q in d['ops'][:i]))
        if nlook:
            ctx.stat('lookups', 'get_label(s)/get_id(s) on a catalog reordered by a list/array index', nlook)
        ctx.count_case(json.dumps(d, sort_keys=True, default=str), bool(r['rel']))
        ctx.support('direct oracle: cat[idx].p == cat.p[idx] == fresh.p[sources] (property values compared)',
                    sum(len(v) for v in r['final'].values()))
        ctx.support('direct oracle: mutating operation leaves every other catalog unchanged (deep snapshots of '
                    'all cached values compared)', r['nsnap'])
        ctx.support('direct oracle: photometry method result == same call on a fresh catalog', r['nphot'])
        for k, (j, pos, scalar) in r['rel'].items():
            ctx.stat('children', 'scalar' if scalar else f'multi:{min(len(pos), 3)}{"+" if len(pos) > 3 else ""}')
        for sig, what, detail, found in r['viol']:
            ctx.stat('violations', sig)
            if sig not in seen_sigs:          # one replay file per signature
                seen_sigs[sig] = len(terms) - 1
                ctx.violation(sig, what, detail, found_input=found)
    ctx.sample({'case': {k: v for k, v in descs[0].items() if k != 'ops'}, 'first_ops': descs[0]['ops'][:12],
                'n_ops': len(descs[0]['ops'])})
    bad = ctx.coq_eval_cases(['C08_Model'], 'check_case', terms, case_type='case', shard_numerals=12000)
    ctx.stat('coq', 'disagreements', len(bad))
    sig = 'SourceCatalog.__getitem__:shared-_extra_properties'
    if sig in seen_sigs:
        # the faithful model of the unrepaired __getitem__ (list copied by reference) on histories whose
        # only violations are of that kind
        pure = [i for i, r in enumerate(results) if r['viol'] and all(v[0] == sig for v in r['viol'])][:8]
        if pure:
            disagree = ctx.coq_eval_cases(['C08_Model'], 'check_case_shared', [terms[i] for i in pure],
                                          case_type='case', tag='shared')
            ctx.stat('coq', 'violating histories on which the shared-list model (unrepaired code) agrees',
                     len(pure) - len(disagree))
            ctx.stat('coq', 'violating histories on which the shared-list model disagrees', len(disagree))
    for i in bad[:10]:
        detail = {'case': descs[i], 'bad_observations': ctx.coq_eval_term(['C08_Model'], f'bad_obs {terms[i]}')
                  if len(bad) < 30 else None, 'cmd': 'bin/check C08 --replay <this file>'}
        if any(v[3] for v in results[i]['viol']):
            continue    # already reported with a concrete input by the direct oracle
        ctx.violation('correspondence:C08_Model.check_case', 'model and implementation disagree on an observation '
                      '(values, container kinds, __dict__ keys, extra_properties or errors)', detail,
                      found_input=False)


def replay(obj):
    r = obj['replay']
    if r.get('kind') == 'empty-selection':
        S = get_setup(r['cls'], r['scene_seed'], r['cfg'])
        cat = S.build()
        if r['evaluated_before']:
            for p in S.public:
                getattr(cat, p)
        child = cat[{'slice': slice(0, 0), 'mask': np.zeros(S.n, bool), 'list': []}[r['form']]]
        bad = 0
        for p in S.public:
            try:
                getattr(child, p)
            except Exception as e:
                bad += 1
                print(f'cat[<{r["form"]} selecting nothing>].{p} raises {type(e).__name__}: {e}')
        print('property FAILS on this input' if bad else 'property holds on this input')
        return 1 if bad else 0
    desc = r.get('case', r)
    res = execute(desc)
    for sig, what, detail, found in res['viol']:
        print(f'[{sig}] {what}')
    if 'failing_op' in r:
        print('failing op:', r['failing_op'], '->', r.get('error'))
    bad = [v for v in res['viol'] if v[3]]
    print('property FAILS on this history' if bad else 'property holds on this history')
    return 1 if bad else 0
