"""C07 — SourceCatalog measurements equal their definitions on the segment pixels.

K: random small scenes on the float-exact lattice (values k/4) -> real SourceCatalog ->
   the same case + the implementation's rows are evaluated by C07_Model.check_case in Coq.
V: an independent plain-Python statement of the property (whole-image pixel sets, exact
   Fractions) decides every disagreement and is also run on every case; metamorphic
   clauses (locality, relabelling, row order, all-masked -> NaN) are run on the
   implementation directly.
"""
import json
import math
import warnings
from fractions import Fraction

import numpy as np

from .core import coq, Some, Raw

PID = 'C07'
FILES = ['lib/Cases.v', 'C07_Model.v', 'C07_Proofs.v', 'C07_Properties.v']
S = 4            # all pixel values are k/4: scaled integers = value * S
BAD = 10 ** 17   # sentinel for an implementation value that is off the lattice

DELEGATED = ('bbox', 'segment_area', 'area', 'moments', 'cutout_centroid', 'centroid', 'covariance')
OWN = ('segment_flux', 'segment_fluxerr', 'min_value', 'max_value', 'cutout_minval_index',
       'cutout_maxval_index', 'minval_index', 'maxval_index', 'background_sum', 'background_mean')


# --------------------------------------------------------------------------
# generators
# --------------------------------------------------------------------------
def _lat(rng, lo=-8, hi=40):
    return rng.randint(lo * S, hi * S) / S


def gen_seg(rng, ny, nx):
    """Label image with touching / nested / single-pixel / edge-hugging / diagonal
    segments and non-consecutive label numbers; returns (seg, shapes used)."""
    seg = np.zeros((ny, nx), int)
    nlab = rng.randint(1, 5)
    pool = rng.sample(range(1, 40), nlab) if rng.random() < 0.7 else list(range(1, nlab + 1))
    shapes = []
    for lab in pool:
        kind = rng.choice(['rect', 'rect', 'single', 'diag', 'anti', 'ring', 'L', 'edge', 'scatter', 'line'])
        shapes.append(kind)
        y, x = rng.randrange(ny), rng.randrange(nx)
        h, w = rng.randint(1, 4), rng.randint(1, 4)
        if kind == 'rect':
            seg[y:y + h, x:x + w] = lab
        elif kind == 'single':
            seg[y, x] = lab
        elif kind in ('diag', 'anti'):
            n = rng.randint(2, 5)
            step = rng.choice([1, 1, 2])
            for i in range(n):
                yy = y + step * i
                xx = x + i if kind == 'diag' else x - i
                if 0 <= yy < ny and 0 <= xx < nx:
                    seg[yy, xx] = lab
        elif kind == 'ring':      # a ring; what it encloses keeps its previous label (nested)
            h, w = max(h, 3), max(w, 3)
            sub = seg[y:y + h, x:x + w]
            inner = sub[1:-1, 1:-1].copy()
            sub[...] = lab
            if sub.shape[0] > 2 and sub.shape[1] > 2:
                sub[1:-1, 1:-1] = inner
                if rng.random() < 0.5:
                    sub[1:-1, 1:-1] = 0
        elif kind == 'L':         # L-shape: other labels can sit inside its bounding box
            h, w = max(h, 2), max(w, 2)
            seg[y:y + h, x] = lab
            seg[min(y + h - 1, ny - 1), x:x + w] = lab
        elif kind == 'edge':
            side = rng.choice('tblr')
            if side == 't':
                seg[0:h, x:x + w] = lab
            elif side == 'b':
                seg[ny - h:, x:x + w] = lab
            elif side == 'l':
                seg[y:y + h, 0:w] = lab
            else:
                seg[y:y + h, nx - w:] = lab
        elif kind == 'line':
            if rng.random() < 0.5:
                seg[y, x:x + rng.randint(2, 5)] = lab
            else:
                seg[y:y + rng.randint(2, 5), x] = lab
        else:                     # disconnected pixels sharing a label
            for _ in range(rng.randint(2, 5)):
                seg[rng.randrange(ny), rng.randrange(nx)] = lab
    if not seg.any():
        seg[rng.randrange(ny), rng.randrange(nx)] = pool[0]
    return seg, shapes


def gen_values(rng, seg, kind):
    ny, nx = seg.shape
    if kind == 'flat':
        a = np.full(seg.shape, _lat(rng, 1, 9))
    elif kind == 'ties':
        vals = [_lat(rng, 0, 5) for _ in range(2)]
        a = np.array([[rng.choice(vals) for _ in range(nx)] for _ in range(ny)])
    elif kind == 'signed':
        a = np.array([[_lat(rng, -8, 8) for _ in range(nx)] for _ in range(ny)])
    elif kind == 'int':
        a = np.array([[float(rng.randint(0, 30)) for _ in range(nx)] for _ in range(ny)])
    else:
        a = np.array([[_lat(rng, -2, 40) for _ in range(nx)] for _ in range(ny)])
    return a.astype(float)


def sprinkle_nonfinite(rng, a, seg, p=0.5):
    if rng.random() < p:
        for _ in range(rng.randint(1, 3)):
            a[rng.randrange(a.shape[0]), rng.randrange(a.shape[1])] = rng.choice([np.nan, np.nan, np.inf, -np.inf])
    return a


def gen_mask(rng, seg):
    r = rng.random()
    labs = [int(v) for v in np.unique(seg) if v]
    if r < 0.35:
        return None, 'none'
    m = np.zeros(seg.shape, bool)
    if r < 0.55:
        m = np.array([[rng.random() < 0.25 for _ in range(seg.shape[1])] for _ in range(seg.shape[0])])
        return m, 'random'
    if r < 0.75:      # a line cutting through the segments
        if rng.random() < 0.5:
            m[rng.randrange(seg.shape[0]), :] = True
        else:
            m[:, rng.randrange(seg.shape[1])] = True
        return m, 'cut'
    if r < 0.92:      # one source completely masked
        m[seg == rng.choice(labs)] = True
        if rng.random() < 0.3:
            m |= np.array([[rng.random() < 0.15 for _ in range(seg.shape[1])] for _ in range(seg.shape[0])])
        return m, 'source-masked'
    return m, 'all-false'


PED = float(2 ** 20)      # float32 pedestal: 2^20 + k/4 is a float32, a float32 sum of >= 4 of them is not exact
INT_RANGE = {'int': (0, 30), 'int16': (-3000, 30000), 'uint16': (0, 60000)}


def _store_values(rng, seg, dtype, kind):
    """Values (as float64) that are exactly representable in the storage dtype."""
    ny, nx = seg.shape
    if dtype in INT_RANGE:
        lo, hi = INT_RANGE[dtype]
        return np.array([[float(rng.randint(lo, hi)) for _ in range(nx)] for _ in range(ny)])
    a = gen_values(rng, seg, kind)
    if dtype == 'float32':
        a = a + PED
    return a


def gen_ops(rng, labs):
    """Reorderings applied one after the other to the full catalog; every later read goes
    through the reordered catalog.  index = integer-array indexing (arbitrary permutations,
    3-cycles, repeats), sort_flux = argsort of segment_flux, get_labels / get_label = label lookup."""
    ops = []
    cur = list(labs)
    r = rng.random()
    if r < 0.45:
        return ops
    nsteps = rng.choice([1, 2, 2, 3])
    for step in range(nsteps):
        kind = rng.choice(['index', 'index', 'sort_flux', 'get_labels', 'get_labels', 'get_label'])
        if step == 0 and nsteps > 1:
            kind = rng.choice(['index', 'index', 'sort_flux'])      # first make the row order non-trivial
        if kind == 'index':
            n = len(cur)
            how = rng.choice(['perm', 'perm', 'cycle', 'subset', 'repeat'])
            if how == 'perm':
                pos = rng.sample(range(n), n)
            elif how == 'cycle':      # rotation: not self-inverse for n >= 3
                k = rng.randrange(1, n) if n > 1 else 0
                pos = [(i + k) % n for i in range(n)]
            elif how == 'subset':
                pos = rng.sample(range(n), rng.randint(1, n))
            else:
                pos = [rng.randrange(n) for _ in range(rng.randint(1, n + 1))]
            ops.append(['index', pos])
            cur = [cur[i] for i in pos]
        elif kind == 'sort_flux':
            ops.append(['sort_flux', rng.choice([1, -1])])
            cur = None      # data dependent: resolved when the implementation runs
            break
        elif kind == 'get_labels':
            pool = sorted(set(cur))
            if rng.random() < 0.7:
                want = rng.sample(pool, rng.randint(1, len(pool)))
            else:
                want = [rng.choice(pool) for _ in range(rng.randint(1, len(pool) + 1))]
            if len(set(cur)) != len(cur):      # a label lookup in a catalog with repeated rows is ambiguous
                break
            ops.append(['get_labels', want])
            cur = list(want)
        else:
            if len(set(cur)) != len(cur):
                break
            ops.append(['get_label', rng.choice(cur)])
            break
    return ops


def gen_case(rng, small=False):
    ny, nx = rng.randint(1, 5 if small else 9), rng.randint(1, 5 if small else 9)
    seg, shapes = gen_seg(rng, ny, nx)
    r = rng.random()
    dtype = None
    if r < 0.14:
        dtype = 'float32'
    elif r < 0.22:
        dtype = 'float16'
    elif r < 0.34:
        dtype = rng.choice(['int', 'int16', 'uint16'])
    if dtype in ('float32', 'float16') and not small and rng.random() < 0.6:
        # a large source: narrow accumulation cannot be exact on it
        seg[:max(1, ny - 2), :max(1, nx - 1)][seg[:max(1, ny - 2), :max(1, nx - 1)] == 0] = int(seg.max()) + 1
    isint = dtype in INT_RANGE
    vk = 'int' if isint else rng.choice(['rand', 'rand', 'ties', 'signed', 'int', 'flat'])
    data = _store_values(rng, seg, dtype, vk)
    if not isint:
        data = sprinkle_nonfinite(rng, data, seg, 0.4)
        if rng.random() < 0.08:      # a source whose data are all non-finite
            labs = [int(v) for v in np.unique(seg) if v]
            data[seg == rng.choice(labs)] = np.nan
    conv = None
    if rng.random() < 0.5:
        conv = _store_values(rng, seg, dtype, rng.choice(['rand', 'signed', 'ties']))
        if not isint:
            conv = sprinkle_nonfinite(rng, conv, seg, 0.3)
    err = None
    if rng.random() < 0.6:
        err = np.abs(gen_values(rng, seg, rng.choice(['rand', 'ties'])))
        if rng.random() < 0.15:
            err[rng.randrange(ny), rng.randrange(nx)] = np.nan
    bkg = None
    if rng.random() < 0.6:
        bkg = _store_values(rng, seg, dtype, rng.choice(['rand', 'signed', 'flat']))
        if not isint and rng.random() < 0.1:
            bkg[rng.randrange(ny), rng.randrange(nx)] = np.nan
    mask, mk = gen_mask(rng, seg)
    det = None
    if rng.random() < 0.3:
        ddata = _store_values(rng, seg, dtype, rng.choice(['rand', 'signed']))
        if not isint:
            ddata = sprinkle_nonfinite(rng, ddata, seg, 0.4)
        dconv = None
        if rng.random() < 0.5:
            dconv = _store_values(rng, seg, dtype, 'rand')
            if not isint:
                dconv = sprinkle_nonfinite(rng, dconv, seg, 0.3)
        dmask, dmk = gen_mask(rng, seg)
        det = dict(data=ddata, conv=dconv, mask=dmask)
    labs = sorted(int(v) for v in np.unique(seg) if v)
    ops = gen_ops(rng, labs)
    return dict(seg=seg, data=data, conv=conv, err=err, bkg=bkg, mask=mask, det=det, ops=ops, dtype=dtype,
                meta=dict(shapes=shapes, values=vk, mask=mk))


# --------------------------------------------------------------------------
# running the implementation
# --------------------------------------------------------------------------
def _cp(a):
    return None if a is None else a.copy()


def _stored(a, dtype, is_err=False):
    """The array as the caller stores it (narrow float / integer dtype); exactly the same numbers."""
    if a is None:
        return None
    if dtype is None:
        return a.copy()
    if is_err:
        if dtype not in ('float32', 'float16'):
            return a.copy()
    dt = {'int': int}.get(dtype, dtype)
    with np.errstate(all='ignore'):
        b = a.astype(dt)
    if not np.array_equal(b.astype(float), a, equal_nan=True):      # not representable: keep float64
        return a.copy()
    return b


class ReorderError(Exception):
    pass


class ImplTimeout(Exception):
    pass


def build_catalog(case, seg=None, keep=None):
    """`keep` (a dict) receives the very objects handed to SourceCatalog."""
    from photutils.segmentation import SegmentationImage, SourceCatalog
    seg = case['seg'] if seg is None else seg
    segm = SegmentationImage(seg.copy())
    dt = case.get('dtype')
    detcat = None
    args = dict(data=_stored(case['data'], dt), conv=_stored(case['conv'], dt),
                err=_stored(case['err'], dt, is_err=True), mask=_cp(case['mask']), bkg=_stored(case['bkg'], dt))
    if case['det'] is not None:
        d = case['det']
        args.update(ddata=_stored(d['data'], dt), dconv=_stored(d['conv'], dt), dmask=_cp(d['mask']))
        detcat = SourceCatalog(args['ddata'], segm, convolved_data=args['dconv'], mask=args['dmask'])
    if keep is not None:
        keep.update(args, segm=segm)
    return SourceCatalog(args['data'], segm, convolved_data=args['conv'], error=args['err'], mask=args['mask'],
                         background=args['bkg'], detection_cat=detcat)


def derive(case, cat):
    """Apply the reordering ops one after the other; returns (catalog the rows are read from,
    the labels its rows must carry, in order)."""
    labs = [int(v) for v in np.atleast_1d(cat.labels)]
    if case.get('ops'):
        _ = (cat.segment_flux, cat.centroid, cat.minval_index, cat.area)      # caches filled before slicing
    for op, arg in case.get('ops') or []:
      try:
        if op == 'index':
            cat = cat[list(arg)]
            labs = [labs[i] for i in arg]
        elif op == 'sort_flux':
            with warnings.catch_warnings():
                warnings.simplefilter('ignore')
                flux = np.asarray(cat.segment_flux, float)
            pos = [int(i) for i in np.argsort(arg * np.where(np.isfinite(flux), flux, np.inf), kind='stable')]
            cat = cat[pos]
            labs = [labs[i] for i in pos]
        elif op == 'get_labels':
            cat = cat.get_labels(list(arg))
            labs = list(arg)
        else:
            cat = cat.get_label(arg)
            labs = [arg]
      except ImplTimeout:
        raise
      except Exception as e:      # a valid reordering request (labels / positions of this catalog) must not raise
        raise ReorderError(f'{op}({arg}) on a catalog with labels {labs} raised {type(e).__name__}: {e}')
    return cat, labs


def rows_of(cat):
    """Per-source observables as plain Python floats/ints (one dict per row)."""
    n = cat.nlabels
    scalar = cat.isscalar
    g = {}
    with warnings.catch_warnings():
        warnings.simplefilter('ignore')
        g['label'] = np.asarray(cat.labels)
        for nm in ('bbox_xmin', 'bbox_xmax', 'bbox_ymin', 'bbox_ymax'):
            g[nm] = np.asarray(getattr(cat, nm))
        g['segment_area'] = cat.segment_area.value
        g['area'] = cat.area.value
        g['moments'] = np.asarray(cat.moments)
        g['cutout_centroid'] = np.asarray(cat.cutout_centroid)
        g['centroid'] = np.asarray(cat.centroid)
        g['covariance'] = cat.covariance.value
        for nm in ('segment_flux', 'segment_fluxerr', 'min_value', 'max_value', 'cutout_minval_index',
                   'cutout_maxval_index', 'minval_index', 'maxval_index', 'background_sum', 'background_mean'):
            g[nm] = np.asarray(getattr(cat, nm))
    if scalar:      # a single-source catalog returns scalars / unbatched arrays
        tail = {'moments': (4, 4), 'covariance': (2, 2), 'cutout_centroid': (2,), 'centroid': (2,),
                'cutout_minval_index': (2,), 'cutout_maxval_index': (2,), 'minval_index': (2,), 'maxval_index': (2,)}
        g = {k: np.asarray(v).reshape((1,) + tail.get(k, ())) for k, v in g.items()}
        n = 1
    rows = []
    for i in range(n):
        r = {'label': int(g['label'][i]),
             'bbox': tuple(int(g[k][i]) for k in ('bbox_xmin', 'bbox_xmax', 'bbox_ymin', 'bbox_ymax'))}
        for nm in ('segment_area', 'area', 'segment_flux', 'segment_fluxerr', 'min_value', 'max_value',
                   'background_sum', 'background_mean'):
            r[nm] = float(g[nm][i])
        r['moments'] = [[float(v) for v in row] for row in g['moments'][i]]
        for nm in ('cutout_centroid', 'centroid', 'cutout_minval_index', 'cutout_maxval_index',
                   'minval_index', 'maxval_index'):
            r[nm] = tuple(float(v) for v in g[nm][i])
        c = g['covariance'][i]
        r['covariance'] = (float(c[0, 0]), float(c[0, 1]), float(c[1, 1]))
        r['cov_sym'] = bool(c[0, 1] == c[1, 0] or (np.isnan(c[0, 1]) and np.isnan(c[1, 0])))
        rows.append(r)
    return rows


def _alarm(signum, frame):
    raise ImplTimeout()


def run_impl(case, limit=30):
    """Build the catalog and read its rows; a call that does not return within `limit` seconds
    (the 1/12 regularisation loop is a `while`) raises ImplTimeout."""
    import signal
    old = signal.signal(signal.SIGALRM, _alarm)
    signal.alarm(limit)
    try:
        cat = build_catalog(case)
        sub, want = derive(case, cat)
        rows = rows_of(sub)
        case['_want_labels'] = want
        return cat, sub, rows
    finally:
        signal.alarm(0)
        signal.signal(signal.SIGALRM, old)


# --------------------------------------------------------------------------
# Python -> Coq
# --------------------------------------------------------------------------
def _sc(v):
    """finite lattice float -> scaled integer, non-finite -> None, off lattice -> BAD."""
    if not math.isfinite(v):
        return None
    f = Fraction(v) * S
    return Some(int(f)) if f.denominator == 1 and abs(f) < BAD else Some(BAD)


def _int(v):
    if not math.isfinite(v):
        return None
    return Some(int(v)) if float(v).is_integer() else Some(BAD)


def _dy(v):
    if not math.isfinite(v):
        return None
    if v == 0:
        return Some((0, 0))
    m, e = math.frexp(v)
    m = int(m * (1 << 53))
    e -= 53
    while m % 2 == 0:
        m //= 2
        e += 1
    return Some((m, e))


def _pair(t, conv):
    a, b = conv(t[0]), conv(t[1])
    if a is None or b is None:
        return None
    return Some((a.x, b.x))


def _img(a):
    return [[_sc(float(v)) for v in row] for row in a]


def _oimg(a):
    return None if a is None else Some(_img(a))


def _arrays(data, conv, err, bkg, mask):
    return (_img(data), _oimg(conv), _oimg(err), _oimg(bkg),
            None if mask is None else Some([[bool(v) for v in row] for row in mask]))


def crow(r):
    cov = [_dy(v) for v in r['covariance']]
    cov = None if any(c is None for c in cov) else Some(tuple(c.x for c in cov))
    fields = [
        ('c_bbox', coq(r['bbox'])), ('c_segment_area', coq(int(r['segment_area']))),
        ('c_area', coq(_int(r['area']))),
        ('c_moments', coq([[(_sc(v).x if _sc(v) is not None else BAD) for v in row] for row in r['moments']])),
        ('c_cutout_centroid', coq(_pair(r['cutout_centroid'], _dy))),
        ('c_centroid', coq(_pair(r['centroid'], _dy))),
        ('c_covariance', coq(cov)),
        ('c_flux', coq(_sc(r['segment_flux']))), ('c_fluxerr', coq(_dy(r['segment_fluxerr']))),
        ('c_min', coq(_sc(r['min_value']))), ('c_max', coq(_sc(r['max_value']))),
        ('c_cminidx', coq(_pair(r['cutout_minval_index'], _int))),
        ('c_cmaxidx', coq(_pair(r['cutout_maxval_index'], _int))),
        ('c_minidx', coq(_pair(r['minval_index'], _int))),
        ('c_maxidx', coq(_pair(r['maxval_index'], _int))),
        ('c_bkg_sum', coq(_sc(r['background_sum']))), ('c_bkg_mean', coq(_dy(r['background_mean']))),
    ]
    return Raw('{| ' + '; '.join(f'{k} := {v}' for k, v in fields) + ' |}')


def to_coq(case, rows):
    ny, nx = case['seg'].shape
    own = _arrays(case['data'], case['conv'], case['err'], case['bkg'], case['mask'])
    det = None
    if case['det'] is not None:
        d = case['det']
        det = Some(_arrays(d['data'], d['conv'], None, None, d['mask']))
    labels = [r['label'] for r in rows]
    full = not case.get('ops')      # rows of the complete catalog: label order is checked too
    return coq((S, ny, nx, [[int(v) for v in row] for row in case['seg']], own, det, full, labels,
                [crow(r) for r in rows]))


# --------------------------------------------------------------------------
# independent oracle: the property statement on whole-image pixel sets
# --------------------------------------------------------------------------
def _fin(v):
    return math.isfinite(v)


def spec_row(seg, arr, det, lab):
    """Definitions evaluated directly on the pixels carrying `lab` (exact Fractions).
    `arr` = the catalog's own arrays, `det` = arrays the delegated properties use."""
    ny, nx = seg.shape
    out = {}
    pix = [(y, x) for y in range(ny) for x in range(nx) if seg[y, x] == lab]
    ys, xs = [p[0] for p in pix], [p[1] for p in pix]
    out['bbox'] = (min(xs), max(xs), min(ys), max(ys))
    out['segment_area'] = len(pix)

    def good(a):
        return [p for p in pix if (a['mask'] is None or not a['mask'][p]) and _fin(a['data'][p])]
    gd = good(det)
    out['area'] = len(gd) if gd else None
    cv = det['conv'] if det['conv'] is not None else det['data']
    w = {p: Fraction(float(cv[p])) for p in pix
         if (det['mask'] is None or not det['mask'][p]) and _fin(cv[p]) and cv[p] >= 0}
    x0, y0 = min(xs), min(ys)
    out['moments'] = [[sum(((p[0] - y0) ** a) * v * ((p[1] - x0) ** b) for p, v in w.items()) + Fraction(0)
                       for b in range(4)] for a in range(4)]
    m0 = sum(w.values())
    if m0 == 0:
        out['centroid'] = out['cutout_centroid'] = out['covariance'] = None
        out['cov_tie'] = False
    else:
        xc = sum(p[1] * v for p, v in w.items()) / m0
        yc = sum(p[0] * v for p, v in w.items()) / m0
        out['centroid'] = (xc, yc)
        out['cutout_centroid'] = (xc - x0, yc - y0)
        sx2 = sum((p[1] - xc) ** 2 * v for p, v in w.items()) / m0
        sy2 = sum((p[0] - yc) ** 2 * v for p, v in w.items()) / m0
        sxy = sum((p[1] - xc) * (p[0] - yc) * v for p, v in w.items()) / m0
        dl = Fraction(1, 12)
        det_ = sx2 * sy2 - sxy ** 2
        out['cov_tie'] = abs(det_ - dl * dl) * 2 ** 30 <= dl * dl
        while sx2 * sy2 - sxy ** 2 < dl * dl:
            sx2 += dl
            sy2 += dl
        out['covariance'] = (sx2, sxy, sy2)
    go = good(arr)
    if not go:
        for k in ('segment_flux', 'segment_fluxerr2', 'min_value', 'max_value', 'minval_index', 'maxval_index',
                  'cutout_minval_index', 'cutout_maxval_index', 'background_sum', 'background_mean'):
            out[k] = None
        return out
    vals = [Fraction(float(arr['data'][p])) for p in go]
    out['segment_flux'] = sum(vals)
    out['min_value'], out['max_value'] = min(vals), max(vals)
    pmin = go[vals.index(min(vals))]
    pmax = go[vals.index(max(vals))]
    oy, ox = min(p[0] for p in pix), min(p[1] for p in pix)
    out['minval_index'], out['maxval_index'] = pmin, pmax
    out['cutout_minval_index'] = (pmin[0] - oy, pmin[1] - ox)
    out['cutout_maxval_index'] = (pmax[0] - oy, pmax[1] - ox)

    def osum(a, f):
        if a is None:
            return None
        if not all(_fin(a[p]) for p in go):
            return None
        return sum(f(Fraction(float(a[p]))) for p in go)
    out['segment_fluxerr2'] = osum(arr['err'], lambda v: v * v)
    out['background_sum'] = osum(arr['bkg'], lambda v: v)
    out['background_mean'] = None if out['background_sum'] is None else out['background_sum'] / len(go)
    return out


def _same_exact(impl, spec):
    if spec is None:
        return not math.isfinite(impl)
    return math.isfinite(impl) and Fraction(impl) == spec


def _close(impl, spec, tol):
    if spec is None:
        return not math.isfinite(impl)
    return math.isfinite(impl) and abs(Fraction(impl) - spec) <= tol * (1 + abs(spec))


def oracle_row(case, r):
    """List of field names on which the implementation's row contradicts the property."""
    seg = case['seg']
    own = dict(data=case['data'], conv=case['conv'], err=case['err'], bkg=case['bkg'], mask=case['mask'])
    det = own if case['det'] is None else dict(case['det'], err=None, bkg=None)
    sp = spec_row(seg, own, det, r['label'])
    bad = []
    if tuple(r['bbox']) != sp['bbox']:
        bad.append('bbox')
    if r['segment_area'] != sp['segment_area']:
        bad.append('segment_area')
    for k in ('area', 'segment_flux', 'min_value', 'max_value', 'background_sum'):
        if not _same_exact(r[k], None if sp[k] is None else Fraction(sp[k])):
            bad.append(k)
    for k in ('minval_index', 'maxval_index', 'cutout_minval_index', 'cutout_maxval_index'):
        want = sp[k]
        got = r[k]
        if want is None:
            ok = not any(math.isfinite(v) for v in got)
        else:
            ok = all(math.isfinite(v) for v in got) and (int(got[0]), int(got[1])) == tuple(want)
        if not ok:
            bad.append(k)
    if any(not _same_exact(r['moments'][a][b], sp['moments'][a][b]) for a in range(4) for b in range(4)):
        bad.append('moments')
    for k in ('centroid', 'cutout_centroid'):
        for j in (0, 1):
            if not _close(r[k][j], None if sp[k] is None else sp[k][j], Fraction(1, 10 ** 12)):
                bad.append(k)
                break
    if not sp['cov_tie']:
        for j in (0, 1, 2):
            if not _close(r['covariance'][j], None if sp['covariance'] is None else sp['covariance'][j],
                          Fraction(1, 10 ** 9)):
                bad.append('covariance')
                break
        if not r['cov_sym']:
            bad.append('covariance')
    e2 = sp['segment_fluxerr2']
    fe = r['segment_fluxerr']
    if e2 is None:
        if math.isfinite(fe):
            bad.append('segment_fluxerr')
    elif not (math.isfinite(fe) and fe >= 0 and abs(Fraction(fe) ** 2 - e2) <= Fraction(1, 10 ** 12) * (1 + e2)):
        bad.append('segment_fluxerr')
    if not _close(r['background_mean'], sp['background_mean'], Fraction(1, 10 ** 13)):
        bad.append('background_mean')
    return bad, sp


def classify(case, r, field, sp):
    """Stable signature of a failing (field, input class)."""
    if (field == 'segment_flux' and case['det'] is not None and sp['segment_flux'] is not None
            and not math.isfinite(r['segment_flux']) and not math.isfinite(r['area'])):
        return 'SourceCatalog.segment_flux:detection_cat-with-different-mask'
    if field == 'covariance' and sp['covariance'] is not None and not all(math.isfinite(v) for v in r['covariance']):
        return 'SourceCatalog.covariance:nan-for-collinear-pixels'
    if (field in ('background_sum', 'background_mean') and case.get('dtype') in ('float32', 'float16')
            and sp[field] is not None and math.isfinite(r[field])):
        return 'SourceCatalog.background_sum:narrow-float-background-accumulated-in-its-dtype'
    return f'SourceCatalog.{field}'


# --------------------------------------------------------------------------
# metamorphic clauses on the implementation
# --------------------------------------------------------------------------
def _eqv(a, b):
    if isinstance(a, (tuple, list)):
        return len(a) == len(b) and all(_eqv(x, y) for x, y in zip(a, b))
    if isinstance(a, float) and isinstance(b, float):
        return a == b or (math.isnan(a) and math.isnan(b))
    return a == b


def row_diff(a, b, skip=('label',)):
    return [k for k in a if k not in skip and not _eqv(a[k], b[k])]


def perturb_outside(rng, case, lab):
    """Change every array (and the detection catalog's) at pixels NOT carrying `lab`."""
    seg = case['seg']
    out = dict(case)
    other = seg != lab

    def pert(a, nonneg=False, allow_nan=True):
        if a is None:
            return None
        b = a.copy()
        for (y, x) in zip(*np.nonzero(other)):
            r = rng.random()
            if r < 0.6:
                v = _lat(rng, -8, 40)
                b[y, x] = abs(v) if nonneg else v
            elif r < 0.75 and allow_nan:
                b[y, x] = rng.choice([np.nan, np.inf, -np.inf])
        return b

    def pmask(m):
        if m is None:
            return None
        b = m.copy()
        for (y, x) in zip(*np.nonzero(other)):
            if rng.random() < 0.5:
                b[y, x] = not b[y, x]
        return b
    isint = case.get('dtype') in INT_RANGE

    def pertd(a):      # arrays stored in the case's dtype: stay representable in it
        b = pert(a, allow_nan=not isint)
        if b is not None and isint:
            lo, hi = INT_RANGE[case['dtype']]
            b = np.clip(np.round(b), lo, hi)
        return b
    out['data'] = pertd(case['data'])
    out['conv'] = pertd(case['conv'])
    out['err'] = pert(case['err'], nonneg=True)
    out['bkg'] = pertd(case['bkg'])
    out['mask'] = pmask(case['mask'])
    if case['det'] is not None:
        d = case['det']
        out['det'] = dict(data=pertd(d['data']), conv=pertd(d['conv']), mask=pmask(d['mask']))
    out['ops'] = []
    return out


def relabel(rng, case):
    labs = sorted(int(v) for v in np.unique(case['seg']) if v)
    new = rng.sample(range(1, 60), len(labs))
    mp = dict(zip(labs, new))
    seg2 = np.zeros_like(case['seg'])
    for a, b in mp.items():
        seg2[case['seg'] == a] = b
    out = dict(case)
    out['seg'] = seg2
    out['ops'] = []
    return out, mp


# --------------------------------------------------------------------------
# post-covariance shape parameters: code's own formulas on the exact covariance (support)
# --------------------------------------------------------------------------
def shape_support(cat, sps):
    """Compare semimajor/semiminor sigma, eccentricity, orientation, elongation with the
    closed forms evaluated on the specification's covariance. Returns list of bad names."""
    bad = []
    with warnings.catch_warnings():
        warnings.simplefilter('ignore')
        a_ = cat.semimajor_sigma.value
        b_ = cat.semiminor_sigma.value
        ecc = np.asarray(cat.eccentricity)
        ori = cat.orientation.value
        elo = np.asarray(cat.elongation)
    for i, sp in enumerate(sps):
        if sp['cov_tie']:
            continue
        if sp['covariance'] is None:
            if any(math.isfinite(float(v[i])) for v in (a_, b_, ecc, ori, elo)):
                bad.append('shape-nan')
            continue
        sx2, sxy, sy2 = (float(v) for v in sp['covariance'])
        tr, df = sx2 + sy2, sx2 - sy2
        root = math.hypot(df, 2 * sxy)
        l1, l2 = (tr + root) / 2, (tr - root) / 2
        want = {'semimajor_sigma': math.sqrt(l1), 'semiminor_sigma': math.sqrt(max(l2, 0.0)),
                'eccentricity': math.sqrt(max(0.0, 1 - l2 / l1)), 'elongation': math.sqrt(l1 / l2) if l2 > 0 else None}
        got = {'semimajor_sigma': a_[i], 'semiminor_sigma': b_[i], 'eccentricity': ecc[i], 'elongation': elo[i]}
        for k, w in want.items():
            if w is None:
                continue
            tol = 1e-6 if k == 'eccentricity' else 1e-8
            if not (math.isfinite(got[k]) and abs(got[k] - w) <= tol * (1 + abs(w))):
                bad.append(k)
        if root > 1e-6 * (1 + tr):
            w = math.degrees(0.5 * math.atan2(2 * sxy, df))
            d = abs(ori[i] - w)
            d = min(d, abs(d - 180))
            if not d <= 1e-6:
                bad.append('orientation')
    return bad


# --------------------------------------------------------------------------
# aliasing observations: what happens when a caller edits a returned object in place (not a property clause)
# --------------------------------------------------------------------------
# Every per-source quantity of the statement (+ the aliases / derived columns of to_table).
SNAP = ('labels', 'label', 'bbox_xmin', 'bbox_xmax', 'bbox_ymin', 'bbox_ymax', 'segment_area', 'area', 'moments',
        'cutout_centroid', 'centroid', 'xcentroid', 'ycentroid', 'covariance', 'covar_sigx2', 'covar_sigxy',
        'covar_sigy2', 'segment_flux', 'segment_fluxerr', 'min_value', 'max_value', 'cutout_minval_index',
        'cutout_maxval_index', 'minval_index', 'maxval_index', 'minval_xindex', 'minval_yindex', 'maxval_xindex',
        'maxval_yindex', 'background_sum', 'background_mean', 'semimajor_sigma', 'semiminor_sigma', 'orientation',
        'eccentricity')
CUTOUTS = ('data', 'error', 'background', 'segment', 'convdata', 'data_ma', 'error_ma', 'background_ma',
           'segment_ma', 'convdata_ma')
OWN_KINDS = ('table-default', 'table-columns', 'child-get_labels', 'child-get_label', 'child-index', 'child-slice',
             'child-scalar', 'child-copy', 'child-iter', 'cutouts', 'property')


def _val(v):
    return np.array(getattr(v, 'value', v), copy=True)


def snapshot(cat):
    with warnings.catch_warnings():
        warnings.simplefilter('ignore')
        return {n: _val(getattr(cat, n)) for n in SNAP}


def inputs_state(keep):
    segm = keep['segm']
    st = {'segm.data': segm.data.copy(), 'segm.labels': np.array(segm.labels, copy=True),
          'segm.slices': [tuple((sl.start, sl.stop) for sl in s) for s in segm.slices]}
    for k in ('data', 'conv', 'err', 'mask', 'bkg', 'ddata', 'dconv', 'dmask'):
        if keep.get(k) is not None:
            st[k] = keep[k].copy()
    return st


def _same(a, b):
    if isinstance(a, list):
        return a == b
    return a.shape == b.shape and a.dtype == b.dtype and bool(np.array_equal(a, b, equal_nan=a.dtype.kind == 'f'))


def scramble(hr, a):
    """Edit an array / Quantity / Column / MaskedArray in place the way a caller might."""
    try:
        if getattr(a, 'ndim', 0) == 0:
            return False
        how = hr.choice(['reverse', 'scale', 'offset', 'fill', 'roll'])
        if how == 'reverse':
            a[...] = np.array(a[::-1], copy=True)
        elif how == 'scale':
            a *= 3
        elif how == 'offset':
            a += 1
        elif how == 'fill':
            a[...] = np.array(a).flat[0] * 0 + 7
        else:
            a[...] = np.roll(np.array(a, copy=True), 1, axis=0)
        return True
    except (ValueError, TypeError):      # read-only or not editable this way: nothing was changed
        return False


def scramble_table(hr, tbl):
    cols = list(tbl.colnames)
    for _ in range(hr.randint(1, 4)):
        how = hr.choice(['sort', 'reverse', 'column', 'column', 'labels'])
        try:
            if how == 'sort':
                one_d = [c for c in cols if tbl[c].ndim == 1]
                tbl.sort(hr.choice(one_d), reverse=hr.random() < 0.5)
            elif how == 'reverse':
                tbl.reverse()
            elif how == 'labels' and 'label' in cols:
                tbl['label'][:] = np.array(tbl['label'])[::-1] + hr.choice([0, 100])
            else:
                scramble(hr, tbl[hr.choice(cols)])
        except (ValueError, TypeError):
            pass


def _export(hr, cat, default, note):
    """to_table() with the default columns, or (also when the Kron machinery behind the default
    columns, which is outside the statement, raises) with explicit columns."""
    if default:
        try:
            return cat.to_table()
        except ImplTimeout:
            raise
        except Exception as e:
            note.append(f'to_table() raised {type(e).__name__}')
    cols = ['label'] + hr.sample([c for c in SNAP if c not in ('label', 'labels')], hr.randint(1, 8))
    return cat.to_table(columns=cols)


def ownership_check(case, kind, hseed):
    """OBSERVATION ONLY (outside the text of property C07, never a violation).
    One history: read (or not) the catalog, take an object the catalog hands out, edit it in
    place, read the catalog again.  Returns a list of (what, detail): 'property-changed' = a
    catalog quantity differs from the value of a pristine catalog (= its definition, checked by the
    oracle on the pristine rows), 'inputs-changed' = the segmentation image or a caller array
    differs bitwise.
    Exemption (kind 'property' only): a lazyproperty returns the object stored in the instance
    ("computes the value only once ... storing the result of its computation in the __dict__ of
    the object instance", astropy.utils.decorators.lazyproperty), so the edited object itself and
    whatever shares its memory are the stored value; everything else must be unchanged."""
    import random
    hr = random.Random(hseed)
    c0 = dict(case, ops=[])
    ref = snapshot(build_catalog(c0))
    keep = {}
    cat = build_catalog(c0, keep=keep)
    before = inputs_state(keep)
    pre = hr.choice(['all', 'some', 'none'])
    if kind in ('property', 'cutouts'):
        # these objects are the values stored by lazyproperty (see the docstring): a quantity that is
        # first computed AFTER the caller edited a stored value is computed from the edited value, so
        # every measurement is evaluated before the object is edited
        pre = 'all'
    note = []
    with warnings.catch_warnings():
        warnings.simplefilter('ignore')
        if pre == 'all':
            snapshot(cat)
        elif pre == 'some':
            for n in hr.sample(SNAP, 8):
                getattr(cat, n)
        n = cat.nlabels
        exempt = set()
        if kind.startswith('table'):
            tbl = _export(hr, cat, kind == 'table-default', note)
            scramble_table(hr, tbl)
        elif kind.startswith('child'):
            labs = [int(v) for v in cat.labels]
            if kind == 'child-get_labels':
                children = [cat.get_labels(hr.sample(labs, hr.randint(1, n)))]
            elif kind == 'child-get_label':
                children = [cat.get_label(hr.choice(labs))]
            elif kind == 'child-index':
                children = [cat[[hr.randrange(n) for _ in range(hr.randint(1, n + 1))]]]
            elif kind == 'child-slice':
                a = hr.randrange(n)
                children = [cat[a:hr.randint(a + 1, n)], cat[::-1]][:hr.randint(1, 2)]
            elif kind == 'child-scalar':
                children = [cat[hr.randrange(n)]]
            elif kind == 'child-copy':
                children = [cat.copy()]
            else:
                children = list(cat)
            for ch in children:
                # the table first: with edited (garbage) centroid / shape arrays the Kron columns of the
                # default table cannot be computed (AttributeError in _measured_kron_radius)
                if not ch.isscalar and hr.random() < 0.5:
                    scramble_table(hr, _export(hr, ch, hr.random() < 0.5, note))
                for nm in SNAP:
                    scramble(hr, getattr(ch, nm))
        elif kind == 'cutouts':
            for nm in hr.sample(CUTOUTS, hr.randint(1, len(CUTOUTS))):
                lst = getattr(cat, nm)
                if lst is None:
                    continue
                for a in lst:
                    if a is not None:
                        scramble(hr, a)
        else:
            nm = hr.choice(SNAP + ('labels', 'label') * 4)      # the label array is handed out most often
            obj = getattr(cat, nm)
            scramble(hr, obj)
            exempt = {m for m in SNAP if np.shares_memory(np.asarray(getattr(cat, m)), np.asarray(obj))}
            exempt.add(nm)
        after = snapshot(cat)
        tbl2 = cat.to_table(columns=[c for c in SNAP if c != 'labels'])
    problems = []
    for nm in SNAP:
        if nm in exempt:
            continue
        if not _same(ref[nm], after[nm]):
            problems.append(('property-changed', nm))
        if nm != 'labels' and not _same(ref[nm], _val(tbl2[nm])):
            problems.append(('property-changed', 'to_table:' + nm))
    now = inputs_state(keep)
    for k in before:
        if not _same(before[k], now[k]):
            problems.append(('inputs-changed', k))
    return problems, '; '.join([pre] + note)


# --------------------------------------------------------------------------
def describe(case):
    def arr(a):
        if a is None:
            return None
        return [[(None if np.isnan(v) else ('inf' if v == np.inf else ('-inf' if v == -np.inf else float(v))))
                 for v in row] for row in a]
    d = {'seg': case['seg'].tolist(), 'data': arr(case['data']), 'conv': arr(case['conv']),
         'err': arr(case['err']), 'bkg': arr(case['bkg']),
         'mask': None if case['mask'] is None else case['mask'].astype(int).tolist(),
         'ops': case.get('ops') or [], 'dtype': case.get('dtype')}
    d['det'] = None if case['det'] is None else {
        'data': arr(case['det']['data']), 'conv': arr(case['det']['conv']),
        'mask': None if case['det']['mask'] is None else case['det']['mask'].astype(int).tolist()}
    return d


def undescribe(d):
    def arr(a):
        if a is None:
            return None
        return np.array([[np.nan if v is None else (np.inf if v == 'inf' else (-np.inf if v == '-inf' else v))
                          for v in row] for row in a], float)
    c = {'seg': np.array(d['seg'], int), 'data': arr(d['data']), 'conv': arr(d['conv']), 'err': arr(d['err']),
         'bkg': arr(d['bkg']), 'mask': None if d['mask'] is None else np.array(d['mask'], bool),
         'ops': d.get('ops'), 'dtype': d.get('dtype')}
    if c['ops'] is None:      # replays written before the reorder ops existed
        c['ops'] = []
        if d.get('order') is not None:
            if d.get('how') == 'get_labels':
                c['ops'] = [['get_labels', d['order']]]
            else:
                labs = sorted(int(v) for v in np.unique(c['seg']) if v)
                c['ops'] = [['index', [labs.index(v) for v in d['order']]]]
        if d.get('intdata'):
            c['dtype'] = 'int'
    c['det'] = None if d.get('det') is None else {
        'data': arr(d['det']['data']), 'conv': arr(d['det']['conv']),
        'mask': None if d['det']['mask'] is None else np.array(d['det']['mask'], bool)}
    return c


def jrow(r):
    return {k: (None if isinstance(v, float) and not math.isfinite(v) else v) for k, v in r.items()}


def check_oracle(ctx, case, rows, where='catalog'):
    """Run the property oracle on the implementation's rows; report violations."""
    nbad = 0
    for r in rows:
        bad, sp = oracle_row(case, r)
        for f in bad:
            nbad += 1
            ctx.violation(classify(case, r, f, sp),
                          f'{f} of a source differs from its definition on the unmasked finite pixels of the label',
                          {'case': describe(case), 'label': r['label'], 'field': f, 'impl_row': repr(r),
                           'expected': repr({k: (str(v) if isinstance(v, Fraction) else v) for k, v in sp.items()
                                             if k != 'moments'}),
                           'cmd': 'bin/check C07 --replay <this file>'})
    return nbad


def run(ctx):
    ctx.build_with_translator(FILES, extra_files=['C07R_Model.v', 'C07R_Proofs.v', 'C07R_Properties.v'],
                              extra_obligation_files=['C07R_Properties.v'])   # shape parameters over R
    ctx.cov['rule'] = (
        'random scenes up to 9x9 (every third up to 5x5): 1-5 labels (70% non-consecutive numbers) of kinds '
        'rect/single/diag/anti/ring(nested)/L/edge/scatter/line, overlapping draws give touching and nested '
        'segments; values k/4 (rand/ties/signed/int/flat) with NaN/+-inf; optional convolved_data, error, '
        'background (with NaN), masks (random/cut/source-masked/all-false), detection catalogs with their own '
        'data/conv/mask; 1/3 of the scenes store data/convolved/background as float32 (pedestal 2^20 + k/4, '
        'large sources: a float32 accumulation is not exact), float16, int, int16 or uint16 (same numbers); rows '
        'read from the full catalog or through up to 3 chained reorderings (integer-array index: arbitrary '
        'permutations, rotations, subsets, repeats; argsort of segment_flux; get_labels with shuffled / repeated '
        'arguments; get_label -> scalar catalog) taken after properties were evaluated, the returned label column '
        'must be the requested one; non-trivial = at least one unmasked finite pixel in some row; distinct = '
        'distinct full inputs')
    ctx.assumptions += [
        'localbkg_width = 0 only (the local background for width > 0 is sigma-clipping numerics, not modelled)',
        'SegmentationImage.slices (scipy.ndimage.find_objects) is not modelled separately: the tight box is '
        'computed by the model and compared through bbox_* on every case; SegmentationImage.labels is modelled '
        'by seg_labels (sorted distinct non-zero values) and compared on every complete catalog',
        'covariance entries are compared with the absolute bound 2^-40*(ny^2+nx^2+1) (central moments are '
        'computed by the code in inexact float arithmetic); rows whose determinant is within 2^-30 (relative) '
        'of (1/12)^2 are excluded from the covariance comparison and counted (decision-margin rule)',
        'cutout_centroid/background_mean: one correctly rounded division (relative 2^-53); centroid: absolute '
        '2^-50*(ny+nx+1); segment_fluxerr: f^2 within 2^-51 of the exact sum',
    ]
    ctx.notes.append(
        'aliasing_observations (outside the property text, not a violation): 2 histories per scene (read none/some/all properties; take to_table() / a derived catalog / '
        'the cutout lists / a property array; edit it in place; re-read) are COUNTED only. Property C07 quantifies '
        'over inputs; what a caller does to a returned numpy object is not in its text, so aliasing (slices and '
        'integer indices of a catalog share the parent cache, labels is SegmentationImage.labels, error/background/'
        'segment cutouts are views of the input arrays) is recorded in fixes/C07-observations.json, not reported')
    ctx.cov['partial_clauses'] = [
        'eigenvalue-derived shape parameters (semimajor/semiminor_sigma, eccentricity, elongation, orientation): '
        'numpy.linalg numerics; tested in Python against closed forms on the exact covariance (support test)',
        'local background subtraction with localbkg_width > 0: not modelled',
        'third-order central moments: not compared (raw moments to order 3 are compared exactly)',
        'catalog_row_transpose is stated with the four first-occurrence extremum indices erased on both sides: '
        'with a tied extremum the row-major first occurrence legitimately changes under transposition',
        'Kron / fluxfrac / windowed / perimeter quantities are outside the property statement and not modelled',
    ]
    n = 260 if ctx.tier == 'quick' else 2400
    rng = ctx.rng
    cases, impl, coq_cases, full_cats = [], [], [], []
    n_rows = 0
    for i in range(n):
        c = gen_case(rng, small=(i % 3 == 0))
        try:
            cat, sub, rows = run_impl(c)
        except ImplTimeout:
            ctx.violation('SourceCatalog:does-not-terminate', 'reading the catalog properties did not return '
                          'within 30 s on a 9x9 image (the covariance is defined for every source)',
                          {'case': describe(c), 'cmd': 'bin/check C07 --replay <this file>'})
            break      # every further thin source would cost another 30 s; the check fails anyway
        except ReorderError as e:
            ctx.violation('SourceCatalog.row-order:raises', 'reading rows of a reordered catalog raised: ' + str(e)[:200],
                          {'case': describe(c), 'error': str(e), 'cmd': 'bin/check C07 --replay <this file>'})
            continue
        cases.append(c)
        impl.append(rows)
        n_rows += len(rows)
        for k, v in c['meta'].items():
            if k == 'shapes':
                for s in v:
                    ctx.stat('segment_kinds', s)
            else:
                ctx.stat(k, v)
        ctx.stat('inputs', 'convolved_data' if c['conv'] is not None else 'no-convolved_data')
        ctx.stat('inputs', 'error' if c['err'] is not None else 'no-error')
        ctx.stat('inputs', 'background' if c['bkg'] is not None else 'no-background')
        ctx.stat('inputs', 'detection_cat' if c['det'] is not None else 'no-detection_cat')
        ctx.stat('rows_from', '+'.join(op for op, _ in c['ops']) or 'all')
        ctx.stat('storage_dtype', c['dtype'] or 'float64')
        ctx.stat('labels', 'non-consecutive' if max(r['label'] for r in rows) > len(np.unique(c['seg'])) else 'consecutive')
        nontrivial = any(math.isfinite(r['segment_flux']) for r in rows)
        for r in rows:
            ctx.stat('row_class', 'all-masked' if not math.isfinite(r['area']) else 'measured')
            if not math.isfinite(r['centroid'][0]):
                ctx.stat('row_class', 'no-moment-pixels')
        ctx.count_case(describe(c), nontrivial)
        # V: the property statement itself on every row
        check_oracle(ctx, c, rows)
        coq_cases.append(to_coq(c, rows))
        if i < 2:
            ctx.sample({'case': describe(c), 'impl_rows': [jrow(r) for r in rows]})
        # metamorphic clauses (implementation only)
        full_rows = rows if not c['ops'] else rows_of(cat)
        by_label = {r['label']: r for r in full_rows}
        if c['ops']:      # reordering rows changes nothing else: every row is the row of ITS label
            got = [r['label'] for r in rows]
            if got != c['_want_labels']:
                ctx.violation('SourceCatalog.row-order:wrong-rows-returned',
                              f'rows read through {[op for op, _ in c["ops"]]} carry labels {got}, requested '
                              f'{c["_want_labels"]}', {'case': describe(c), 'got_labels': got,
                                                       'want_labels': c['_want_labels'],
                                                       'cmd': 'bin/check C07 --replay <this file>'})
            for r in rows:
                d = row_diff(r, by_label[r['label']])
                if d:
                    ctx.violation('SourceCatalog.row-order:' + c['ops'][-1][0], f'row of a reordered catalog differs in {d}',
                                  {'case': describe(c), 'label': r['label'], 'fields': d})
        if i % 2 == 0:
            lab = rng.choice(sorted(by_label))
            c2 = perturb_outside(rng, c, lab)
            rows2 = {r['label']: r for r in run_impl(c2)[2]}
            d = row_diff(by_label[lab], rows2[lab])
            ctx.stat('metamorphic', 'outside-footprint-change')
            if d:
                ctx.violation('SourceCatalog.locality', f'changing pixels outside the label changed {d}',
                              {'case': describe(c), 'changed': describe(c2), 'label': lab, 'fields': d})
        else:
            c3, mp = relabel(rng, c)
            r3 = run_impl(c3)[2]
            rows3 = {r['label']: r for r in r3}
            ctx.stat('metamorphic', 'relabel')
            srt = [r['label'] for r in r3]
            if srt != sorted(srt):
                ctx.violation('SourceCatalog.row-order:labels-not-sorted', 'rows do not follow label order',
                              {'case': describe(c3)})
            for a, b in mp.items():
                d = row_diff(by_label[a], rows3[b])
                if d:
                    ctx.violation('SourceCatalog.relabel', f'renumbering labels changed {d}',
                                  {'case': describe(c), 'map': mp, 'label': a, 'fields': d})
        # aliasing observations (NOT part of property C07, never a violation): a caller editing in place an
        # object the catalog returned is outside the quantifier of the property (inputs only); the histories
        # are only counted, so that the evidence shows which handed-out objects alias catalog / caller state
        obs = ctx.cov.setdefault('aliasing_observations (outside the property text, not a violation)', {'histories': {}, 'aliasing_seen': {}})
        for kind in (OWN_KINDS[(2 * i) % len(OWN_KINDS)], OWN_KINDS[(2 * i + 1) % len(OWN_KINDS)]):
            hseed = rng.getrandbits(32)
            problems, pre = ownership_check(c, kind, hseed)
            obs['histories'][kind] = obs['histories'].get(kind, 0) + 1
            if 'raised' in pre:
                k = 'to_table() default columns raised (Kron columns, after the check itself edited aliased centroid/shape arrays)'
                obs['histories'][k] = obs['histories'].get(k, 0) + 1
            for what in sorted({w for w, _ in problems}):
                k = f'{kind}:{what}'
                obs['aliasing_seen'][k] = obs['aliasing_seen'].get(k, 0) + 1
        if i % 4 == 0:      # support: post-covariance shape parameters, to_table
            own = dict(data=c['data'], conv=c['conv'], err=c['err'], bkg=c['bkg'], mask=c['mask'])
            det = own if c['det'] is None else dict(c['det'], err=None, bkg=None)
            sps = [spec_row(c['seg'], own, det, r['label']) for r in full_rows]
            bad = shape_support(cat, sps)
            ctx.support('shape_parameters_vs_closed_form_on_exact_covariance', len(sps))
            if bad:
                ctx.violation('SourceCatalog.shape:' + bad[0], f'shape parameters {sorted(set(bad))} differ from the '
                              'closed forms on the covariance', {'case': describe(c), 'fields': sorted(set(bad))})
            with warnings.catch_warnings():
                warnings.simplefilter('ignore')
                tbl = cat.to_table(['label', 'segment_flux', 'area', 'bbox_xmin', 'xcentroid', 'ycentroid',
                                    'covar_sigx2', 'covar_sigxy', 'covar_sigy2', 'min_value'])
            ctx.support('to_table_columns_equal_properties', len(tbl))
            for j, r in enumerate(full_rows):
                got = (int(tbl['label'][j]), float(tbl['segment_flux'][j]), float(tbl['area'][j].value),
                       int(tbl['bbox_xmin'][j]), float(tbl['xcentroid'][j]), float(tbl['ycentroid'][j]),
                       float(tbl['covar_sigx2'][j].value), float(tbl['covar_sigxy'][j].value),
                       float(tbl['covar_sigy2'][j].value), float(tbl['min_value'][j]))
                want = (r['label'], r['segment_flux'], r['area'], r['bbox'][0], r['centroid'][0], r['centroid'][1],
                        r['covariance'][0], r['covariance'][1], r['covariance'][2], r['min_value'])
                if not _eqv(got, want):
                    ctx.violation('SourceCatalog.to_table', 'to_table column differs from the property',
                                  {'case': describe(c), 'label': r['label'], 'got': repr(got), 'want': repr(want)})
    ctx.stat('generator', 'catalogs', n)
    ctx.stat('generator', 'rows', n_rows)
    # K: the model evaluated inside Coq on the same cases
    bad = ctx.coq_eval_cases(['C07_Model'], 'check_case', coq_cases, case_type='case')
    ctx.stat('coq', 'disagreements', len(bad))
    for i in bad[:20]:
        c = cases[i]
        nb = sum(len(oracle_row(c, r)[0]) for r in impl[i])
        if nb == 0:
            detail = {'case': describe(c), 'impl_rows': [repr(r) for r in impl[i]],
                      'model': ctx.coq_eval_term(['C07_Model'], f'model_out {coq_cases[i]}') if len(bad) < 30 else None,
                      'cmd': 'bin/check C07 --replay <this file>'}
            ctx.violation('correspondence:C07_Model.check_case', 'model and implementation disagree but the '
                          'property oracle holds on this input', detail, found_input=False)
        # otherwise the violation was already reported by check_oracle with the concrete input


def replay(obj):
    r = obj['replay']
    case = undescribe(r['case'])
    if 'ownership' in r:
        kind, hseed = r['ownership']
        problems, pre = ownership_check(case, kind, hseed)
        print(f'history: properties pre-evaluated = {pre}; take {kind}; edit it in place; read the catalog again')
        for what, name in problems:
            print(' ', what, name)
        print('aliasing observation only (a caller editing a returned object is outside property C07): '
              + ('aliasing seen' if problems else 'no aliasing seen'))
        return 0
    try:
        cat, sub, rows = run_impl(case)
    except ImplTimeout:
        print('the catalog properties did not return within 30 s: property FAILS on this input')
        return 1
    except ReorderError as e:
        print(str(e), ': property FAILS on this input')
        return 1
    rc = 0
    got = [row['label'] for row in rows]
    if case.get('ops') and got != case['_want_labels']:
        print('rows carry labels', got, 'but', case['_want_labels'], 'were requested through', case['ops'])
        rc = 1
    for row in rows:
        bad, sp = oracle_row(case, row)
        print('label', row['label'], 'impl:', {k: row[k] for k in ('segment_flux', 'area', 'centroid', 'covariance')},
              'contradicts definition in:' if bad else 'ok', bad or '')
        if bad:
            rc = 1
    if 'changed' in r:
        c2 = undescribe(r['changed'])
        a = {x['label']: x for x in rows_of(cat)}
        b = {x['label']: x for x in run_impl(c2)[2]}
        d = row_diff(a[r['label']], b[r['label']])
        print('locality differences for label', r['label'], ':', d)
        rc = rc or (1 if d else 0)
    print('property holds on this input' if rc == 0 else 'property FAILS on this input')
    return rc
