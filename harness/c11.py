"""C11 — Background2D maps are full-size, finite, mask-blind and equivariant.

K (correspondence): exact-lattice images (quarter integers, float64 -> bottleneck path,
float32 -> numpy path), MeanBackground/MedianBackground + StdBackgroundRMS,
sigma_clip=None; the public observables npixels_mesh, background_mesh_masked (excluded
set), background_mesh / background_rms_mesh (filter_size=1 and the requested filter),
background / background_rms are handed to C11_Model.check_case as integers/rationals.
V: an independent plain-Python restatement of the property decides every disagreement.
Support (tested, not proved): relations on every estimator / interpolator class with and
without sigma clipping, and the same with bottleneck disabled in a subprocess.
"""
import json
import math
import os
import random
import subprocess
import sys
import warnings
from fractions import Fraction

if os.environ.get('C11_NO_BN'):          # worker mode: make `import bottleneck` fail
    sys.modules['bottleneck'] = None

import numpy as np

from .core import coq, Some, VERIF

PID = 'C11'
FILES = ['lib/Cases.v', 'C11_Model.v', 'C11_Proofs.v', 'C11_Properties.v']
SC = 4            # data are multiples of 1/4; everything handed to Coq is multiplied by 4
ALLEXC = 'All boxes contain'


# --------------------------------------------------------------------------
# generators
# --------------------------------------------------------------------------
def _mask(rng, ny, nx, kind):
    m = np.zeros((ny, nx), bool)
    if kind == 'random':
        dens = rng.choice([0.05, 0.1, 0.15, 0.3, 0.5])
        for y in range(ny):
            for x in range(nx):
                m[y, x] = rng.random() < dens
    elif kind == 'block':
        y0, x0 = rng.randrange(ny), rng.randrange(nx)
        m[y0:y0 + rng.randint(1, ny), x0:x0 + rng.randint(1, nx)] = True
    elif kind == 'band':
        if rng.random() < 0.5:
            m[:, :rng.randint(1, max(1, nx // 2))] = True
        else:
            m[-rng.randint(1, max(1, ny // 2)):, :] = True
    elif kind == 'one':
        m[rng.randrange(ny), rng.randrange(nx)] = True
    return m


def gen_box(rng, n):
    k = rng.choice(['div', 'nondiv', 'image', 'larger', 'one', 'any'])
    if k == 'div':
        divs = [b for b in range(1, n + 1) if n % b == 0]
        return rng.choice(divs)
    if k == 'nondiv':
        nd = [b for b in range(2, n) if n % b]
        return rng.choice(nd) if nd else n
    if k == 'image':
        return n
    if k == 'larger':
        return n + rng.randint(1, 3)
    if k == 'one':
        return rng.choice([1, 2])
    return rng.randint(1, n)


PCHOICES = [0, 10, 10, 12.5, 20, 25, 30, 50, 50, 50, 75, 75, 90, 100, 100]


def gen_case(seed):
    rng = random.Random(seed)
    f32 = rng.random() < 0.35
    ny, nx = rng.randint(1, 12), rng.randint(1, 12)
    if rng.random() < 0.15:
        ny, nx = rng.choice([(1, rng.randint(1, 12)), (rng.randint(1, 12), 1), (2, 2), (3, 3)])
    box = (gen_box(rng, ny), gen_box(rng, nx))
    amp = 16 if f32 else 64
    step = 1 if f32 else 0.25
    kind = rng.choice(['noise', 'ramp', 'const', 'twolevel', 'noise'])
    if kind == 'noise':
        data = np.array([[rng.randint(-amp, amp) * step for _ in range(nx)] for _ in range(ny)])
    elif kind == 'ramp':
        a, b = rng.randint(-3, 3), rng.randint(-3, 3)
        data = np.array([[(a * y + b * x) * step + rng.choice([0, 0, 0, step]) for x in range(nx)]
                         for y in range(ny)])
    elif kind == 'const':
        data = np.full((ny, nx), rng.randint(-amp, amp) * step)
    else:
        lo, hi = rng.randint(-amp, 0) * step, rng.randint(1, amp) * step
        data = np.array([[rng.choice([lo, lo, hi]) for _ in range(nx)] for _ in range(ny)])
    data = data.astype(np.float32 if f32 else np.float64)
    if rng.random() < 0.25:
        for _ in range(rng.randint(1, 4)):
            data[rng.randrange(ny), rng.randrange(nx)] = rng.choice([np.nan, np.inf, -np.inf])
    mk = rng.choice(['none', 'none', 'random', 'random', 'block', 'band', 'one'])
    ck = rng.choice(['none', 'none', 'none', 'random', 'block', 'band', 'one'])
    mask = None if mk == 'none' else _mask(rng, ny, nx, mk)
    cov = None if ck == 'none' else _mask(rng, ny, nx, ck)
    p = rng.choice(PCHOICES)
    fs = rng.choice([(1, 1), (1, 1), (3, 3), (3, 3), (1, 3), (3, 1), (5, 3), (5, 5)])
    fthr = None
    if fs != (1, 1) and rng.random() < 0.5:
        fthr = float(rng.randint(-amp, amp) * step) if rng.random() < 0.8 else float(-10 * amp)
    interp = rng.choice(['zoom', 'zoom', 'zoom_noclip', 'idw'])
    fill = rng.choice([0.0, 0.0, -1.5, 7.25, 1000.0])
    return dict(seed=seed, data=data, box=box, mask=mask, cov=cov, p=p, est=rng.choice(['mean', 'median']),
                fsize=fs, fthr=fthr, interp=interp, fill=fill, kind=kind, mk=mk, ck=ck, mdt=_mdt(seed))


def directed_cases():
    """Hand-written cases that sit on the boundaries named in the property's quantifier."""
    def mk(data, box, mask=None, cov=None, p=10, est='mean', fsize=(1, 1), fthr=None, interp='zoom', fill=0.0,
           kind='directed', mdt=('bool', 'bool')):
        data = np.asarray(data, float)
        return dict(seed=None, data=data, box=box, mask=None if mask is None else np.asarray(mask, bool),
                    cov=None if cov is None else np.asarray(cov, bool), p=p, est=est, fsize=fsize, fthr=fthr,
                    interp=interp, fill=fill, kind=kind, mk='none' if mask is None else 'directed',
                    ck='none' if cov is None else 'directed', mdt=mdt)
    out = []
    # masks given as 0/1 integers and uint8 (array_like (bool) in the documentation)
    cv = np.zeros((6, 6), bool)
    cv[3, 4] = cv[5, 0] = True
    mm = np.zeros((6, 6), bool)
    mm[0, 0] = mm[4, 4] = True
    out.append(mk(np.arange(36.).reshape(6, 6), (3, 3), cov=cv, p=50, fill=-99.0, mdt=('bool', 'int64')))
    out.append(mk(np.arange(36.).reshape(6, 6) * 0.5, (3, 2), mask=mm, cov=cv, p=50, fill=7.25, interp='idw',
                  mdt=('int64', 'uint8')))
    # exclude_percentile = 0 on a clean image: every box has no masked pixel and must be kept
    out.append(mk(np.full((4, 4), 3.0), (2, 2), p=0, kind='const'))
    out.append(mk(np.arange(36.).reshape(6, 6), (3, 3), p=0, est='median', interp='idw'))
    # a box with exactly the allowed fraction masked (1 of 4 = 25 %) is kept, 2 of 4 is excluded
    m = np.zeros((4, 4), bool)
    m[0, 0] = True
    m[2, 2] = m[2, 3] = True
    out.append(mk(np.arange(16.).reshape(4, 4) * 0.5, (2, 2), mask=m, p=25))
    # padded edge boxes: 3 x 3 image, box 2 -> core, extra row, extra column, single corner pixel
    out.append(mk(np.arange(9.).reshape(3, 3), (2, 2), p=75))
    out.append(mk(np.arange(35.).reshape(5, 7) * 0.25, (2, 3), p=50, fsize=(3, 3)))
    # box == image and box larger than the image: one mesh cell
    m = np.zeros((5, 4), bool)
    m[1, 1] = True
    out.append(mk(np.arange(20.).reshape(5, 4), (5, 4), mask=m, p=10))
    out.append(mk(np.arange(20.).reshape(5, 4), (9, 9), p=10, interp='idw'))
    # constant image with an excluded box: the IDW fill must not disturb the constant
    for cval, shape, box in ((-3.75, (6, 6), (2, 2)), (-11.75, (8, 6), (2, 3)), (5.5, (9, 9), (3, 3))):
        m = np.zeros(shape, bool)
        m[:box[0], :box[1]] = True
        m[-1, -1] = True
        cv = np.zeros(shape, bool)
        cv[0, -1] = True
        out.append(mk(np.full(shape, cval), box, mask=m, cov=cv, p=10, kind='const', fill=7.25))
        out.append(mk(np.full(shape, cval), box, mask=m, p=10, kind='const', interp='idw', est='median',
                      fsize=(3, 3)))
    return out


MDT = ('bool', 'int64', 'uint8', 'bool', 'int32')


def _mdt(seed):
    """dtype in which mask / coverage_mask are handed to Background2D (True/False, 0/1 integers, uint8)"""
    return (MDT[(seed // 7) % len(MDT)], MDT[(seed // 11) % len(MDT)])


def _m(c, key):
    m = c[key]
    if m is None:
        return None
    return m.astype(c.get('mdt', ('bool', 'bool'))[0 if key == 'mask' else 1])


def describe(c):
    def v(x):
        x = float(x)
        return None if math.isnan(x) else ('inf' if x == math.inf else ('-inf' if x == -math.inf else x))
    return {'data': [[v(x) for x in r] for r in c['data']], 'dtype': str(c['data'].dtype),
            'box_size': list(c['box']),
            'mask': None if c['mask'] is None else c['mask'].astype(int).tolist(),
            'coverage_mask': None if c['cov'] is None else c['cov'].astype(int).tolist(),
            'exclude_percentile': c['p'], 'bkg_estimator': c['est'], 'filter_size': list(c['fsize']),
            'filter_threshold': c['fthr'], 'interpolator': c['interp'], 'fill_value': c['fill'],
            'mask_dtypes': list(c.get('mdt', ('bool', 'bool')))}


def undescribe(d):
    def v(x):
        return np.nan if x is None else (np.inf if x == 'inf' else (-np.inf if x == '-inf' else x))
    return dict(data=np.array([[v(x) for x in r] for r in d['data']], dtype=d['dtype']),
                box=tuple(d['box_size']), mask=None if d['mask'] is None else np.array(d['mask'], bool),
                cov=None if d['coverage_mask'] is None else np.array(d['coverage_mask'], bool),
                p=d['exclude_percentile'], est=d['bkg_estimator'], fsize=tuple(d['filter_size']),
                fthr=d['filter_threshold'], interp=d['interpolator'], fill=d['fill_value'],
                mdt=tuple(d.get('mask_dtypes', ('bool', 'bool'))))


# --------------------------------------------------------------------------
# implementation
# --------------------------------------------------------------------------
def _build(c, fsize):
    from photutils.background import (Background2D, BkgIDWInterpolator, BkgZoomInterpolator, MeanBackground,
                                      MedianBackground, StdBackgroundRMS)
    est = MeanBackground() if c['est'] == 'mean' else MedianBackground()
    if c['interp'] == 'idw':
        interp = BkgIDWInterpolator()
    else:
        interp = BkgZoomInterpolator(clip=(c['interp'] == 'zoom'))
    return Background2D(c['data'].copy(), c['box'], mask=_m(c, 'mask'), coverage_mask=_m(c, 'cov'), fill_value=c['fill'],
                        exclude_percentile=c['p'], filter_size=fsize, filter_threshold=c['fthr'],
                        sigma_clip=None, bkg_estimator=est, bkgrms_estimator=StdBackgroundRMS(),
                        interpolator=interp)


def _read(b, names, key):
    """Read the public observables `names` of one Background2D object in a pseudo-random order derived from
    `key` (the order of reads is part of every generated case; expected values do not depend on it)."""
    order = list(names)
    random.Random(key).shuffle(order)
    out = {}
    for n in order:
        out[n] = np.array(getattr(b, n))
    return out


def _order_key(c, data, salt):
    import zlib
    return ((c.get('seed') or 0) * 1000003 + zlib.crc32(np.ascontiguousarray(data).tobytes()) * 31 + salt) & ((1 << 62) - 1)


def run_impl(c):
    """Public observables of the two objects (filter_size=1 and the requested one), read in a case-dependent
    pseudo-random order."""
    with warnings.catch_warnings():
        warnings.simplefilter('ignore')
        try:
            b1 = _build(c, (1, 1))
        except ValueError as e:
            if ALLEXC in str(e):
                return None
            raise
        o = {}
        r1 = _read(b1, ['background_mesh', 'background_rms_mesh', 'npixels_mesh', 'background_mesh_masked'],
                   _order_key(c, c['data'], 1))
        o['b0'], o['r0'], o['npix'] = r1['background_mesh'], r1['background_rms_mesh'], r1['npixels_mesh']
        o['excl'] = np.isnan(r1['background_mesh_masked'])
        b2 = _build(c, c['fsize'])
        r2 = _read(b2, ['background_mesh', 'background_rms_mesh', 'background', 'background_rms', 'background_median',
                        'background_rms_median', 'npixels_mesh'], _order_key(c, c['data'], 2))
        o['bF'], o['rF'] = r2['background_mesh'], r2['background_rms_mesh']
        o['bmap'], o['rmap'] = r2['background'], r2['background_rms']
        o['bmed'] = float(r2['background_median'])
        o['rmed'] = float(r2['background_rms_median'])
        if not np.array_equal(r2['npixels_mesh'], o['npix']):
            o['npix'] = np.full_like(o['npix'], -1)      # reported by the oracle as an npixels_mesh mismatch
    return o


# --------------------------------------------------------------------------
# exact helpers
# --------------------------------------------------------------------------
def pfrac(p):
    return Fraction(p).limit_denominator(1000)


def margin_ok(c):
    """The implementation evaluates (1 - p/100.0) * N in floats; the case is compared only
    if that float separates the integers 0..N exactly like the exact rational does."""
    ny, nx = c['data'].shape
    N = min(c['box'][0], ny) * min(c['box'][1], nx)
    tf = (1 - (c['p'] / 100.0)) * N
    tx = (1 - pfrac(c['p']) / 100) * N
    return all(((n < tf) == (n < tx)) and ((n <= tf) == (n <= tx)) for n in range(N + 1))


def zq(v):
    f = Fraction(float(v)) * SC
    return (f.numerator, f.denominator)


def to_coq(c, o, with_maps):
    d = c['data']
    ny, nx = d.shape
    data = [[(Some(int(round(float(x) * SC))) if np.isfinite(x) else None) for x in r] for r in d]
    mask = (c['mask'] if c['mask'] is not None else np.zeros(d.shape, bool)).tolist()
    cov = (c['cov'] if c['cov'] is not None else np.zeros(d.shape, bool)).tolist()
    pf = pfrac(c['p'])
    prec = 24 if d.dtype == np.float32 else 53
    fthr = None if c['fthr'] is None else Some(zq(c['fthr']))
    if o is None:
        impl = None
    else:
        A = ([[int(v) for v in r] for r in o['npix']], [[bool(v) for v in r] for r in o['excl']],
             [[zq(v) for v in r] for r in o['b0']], [[zq(v) for v in r] for r in o['r0']])
        B = ([[zq(v) for v in r] for r in o['bF']], [[zq(v) for v in r] for r in o['rF']])
        C = Some(([[zq(v) for v in r] for r in o['bmap']], [[zq(v) for v in r] for r in o['rmap']])) \
            if with_maps else None
        impl = Some((A, B, C))
    return coq((ny, nx, int(c['box'][0]), int(c['box'][1]), data, mask, cov, (pf.numerator, pf.denominator),
                0 if c['est'] == 'mean' else 1, prec,
                (int(c['fsize'][0]), int(c['fsize'][1]), fthr), (c['interp'] == 'zoom', zq(c['fill'])), impl))


# --------------------------------------------------------------------------
# independent oracle: the property statement in plain Python, on the implementation's output
# --------------------------------------------------------------------------
def _close(v, q, prec):
    return abs(Fraction(float(v)) - q) * 2 ** (prec - 1) <= abs(q)


def _median(vals):
    s = sorted(vals)
    n = len(s)
    return s[n // 2] if n % 2 else (s[n // 2 - 1] + s[n // 2]) / 2


def oracle(c, o):
    """Returns a list of (signature, message) — empty when the property holds on this input."""
    fails = []
    d = c['data'].astype(float)
    ny, nx = d.shape
    by, bx = min(c['box'][0], ny), min(c['box'][1], nx)
    bad = ~np.isfinite(d)
    if c['mask'] is not None:
        bad |= c['mask']
    if c['cov'] is not None:
        bad |= c['cov']
    nmy, nmx = -(-ny // by), -(-nx // bx)
    thr = (1 - pfrac(c['p']) / 100) * (by * bx)
    prec = 24 if c['data'].dtype == np.float32 else 53
    exp = {}
    for i in range(nmy):
        for j in range(nmx):
            sl = (slice(i * by, (i + 1) * by), slice(j * bx, (j + 1) * bx))
            g = [Fraction(float(v)) for v in d[sl][~bad[sl]]]
            n = len(g)
            # documented rule: excluded iff MORE than p percent of the box is masked, or all of it
            exc = (n < thr) or n == 0
            if exc:
                exp[i, j] = (n, None, None, g)
            else:
                m = sum(g) / n
                exp[i, j] = (n, m if c['est'] == 'mean' else _median(g), sum((x - m) ** 2 for x in g) / n, g)
    if all(v[1] is None for v in exp.values()):
        if o is not None:
            fails.append(('Background2D:all-excluded-not-reported', 'every box is excluded but no error was raised'))
        return fails
    if o is None:
        return [('Background2D:exclude_percentile-boundary',
                 'ValueError "All boxes contain <= N good pixels" although some box has no more than '
                 'exclude_percentile percent of its pixels masked')]
    if o['npix'].shape != (nmy, nmx) or o['b0'].shape != (nmy, nmx) or o['r0'].shape != (nmy, nmx):
        return [('Background2D:mesh-shape', f'mesh shape {o["npix"].shape} != {(nmy, nmx)}')]
    for (i, j), (n, m, var, g) in sorted(exp.items()):
        if m is not None and not (np.isfinite(o['b0'][i, j]) and np.isfinite(o['r0'][i, j])):
            fails.append(('Background2D:nonfinite-mesh', f'mesh cell [{i},{j}] of a kept box is not finite: '
                          f'{o["b0"][i, j]}, {o["r0"][i, j]}'))
            continue
        if int(o['npix'][i, j]) != n:
            fails.append(('Background2D:npixels_mesh', f'npixels_mesh[{i},{j}]={o["npix"][i, j]} but the box has {n} good pixels'))
        if bool(o['excl'][i, j]) != (m is None):
            fails.append(('Background2D:exclude_percentile-boundary',
                          f'box [{i},{j}] with {n} good pixels of {by * bx} (threshold {float(thr)}) is '
                          f'{"excluded" if o["excl"][i, j] else "kept"}'))
        elif m is not None:
            if not _close(o['b0'][i, j], m, prec):
                fails.append(('Background2D:mesh-value', f'background_mesh[{i},{j}]={o["b0"][i, j]} != {c["est"]} of the box = {float(m)}'))
            R = 1 + max(abs(x) for x in g)
            s = Fraction(float(o['r0'][i, j]))
            if abs(s * s - var) * 2 ** prec > (4 * n + 40) * R * R or (var == 0 and s != 0):
                fails.append(('Background2D:rms-mesh-value', f'background_rms_mesh[{i},{j}]={o["r0"][i, j]} but the box std is {math.sqrt(var)}'))
    if not all(np.all(np.isfinite(o[k])) for k in ('b0', 'r0', 'bF', 'rF')):
        fails.append(('Background2D:nonfinite-mesh', 'background_mesh / background_rms_mesh contain non-finite values'))
        fails += map_oracle(c, o['bF'], o['bmap'], 'background')
        fails += map_oracle(c, o['rF'], o['rmap'], 'background_rms')
        return fails
    # median filter
    fy, fx = c['fsize']
    goodb = [Fraction(float(o['b0'][k])) for k in exp if exp[k][1] is not None and not o['excl'][k]]
    for name0, nameF in (('b0', 'bF'), ('r0', 'rF')):
        m0 = o[name0]
        for i in range(nmy):
            for j in range(nmx):
                filt = (fy, fx) != (1, 1) and (c['fthr'] is None or c['fthr'] < min(goodb) or o['b0'][i, j] > c['fthr'])
                if filt:
                    win = [Fraction(float(m0[y, x])) for y in range(max(i - fy // 2, 0), min(i + fy // 2 + 1, nmy))
                           for x in range(max(j - fx // 2, 0), min(j + fx // 2 + 1, nmx))]
                    want = _median(win)
                else:
                    want = Fraction(float(m0[i, j]))
                if not _close(o[nameF][i, j], want, prec):
                    fails.append(('Background2D:median-filter', f'{nameF}[{i},{j}]={o[nameF][i, j]} != {float(want)}'))
    fails += map_oracle(c, o['bF'], o['bmap'], 'background')
    fails += map_oracle(c, o['rF'], o['rmap'], 'background_rms')
    fails += const_oracle(c, o)
    return fails


def const_oracle(c, o):
    """Property clause 'reproduce a constant image exactly (RMS 0)': if all pixels that are neither
    masked, coverage-masked nor non-finite carry one value, meshes and maps equal it exactly."""
    d = c['data']
    bad = ~np.isfinite(d)
    for m in (c['mask'], c['cov']):
        if m is not None:
            bad = bad | m
    vals = np.unique(d[~bad])
    if vals.size != 1 or o is None:
        return []
    cval = vals[0]
    cov = c['cov'] if c['cov'] is not None else np.zeros(d.shape, bool)
    ok = (np.all(o['b0'] == cval) and np.all(o['bF'] == cval) and np.all(o['bmap'][~cov] == cval)
          and np.all(o['r0'] == 0) and np.all(o['rF'] == 0) and np.all(o['rmap'][~cov] == 0))
    if ok:
        return []
    return [('Background2D:constant-image', f'constant image {float(cval)} is not reproduced exactly: '
             f'max |background - c| = {float(np.max(np.abs(o["bmap"][~cov].astype(float) - float(cval)))) if (~cov).any() else 0.0:g}, '
             f'max |mesh - c| = {float(np.max(np.abs(o["b0"].astype(float) - float(cval)))):g}')]


def idw_outside_range(o):
    ex = o['excl']
    if not ex.any() or ex.all():
        return False
    return any(np.any(m[ex] < m[~ex].min()) or np.any(m[ex] > m[~ex].max()) for m in (o['b0'], o['r0']))


def const_neighbour(c):
    """V, neighbourhood of a mismatching case: the same geometry / masks / configuration with a constant
    image.  Returns (case, impl, fails) for the first constant that violates the constant-image clause."""
    for cval in (-3.75, 5.0, 0.25, -11.75, 13.5, 0.75, -60.25):
        c2 = dict(c)
        c2['data'] = np.full(c['data'].shape, cval, dtype=c['data'].dtype)
        c2['kind'] = 'const'
        try:
            o2 = run_impl(c2)
        except Exception:  # noqa: BLE001
            continue
        f = const_oracle(c2, o2)
        if f:
            return c2, o2, f
    return None


def map_oracle(c, mesh, m, name):
    fails = []
    d = c['data']
    if m.shape != d.shape:
        return [('Background2D:map-shape', f'{name}.shape={m.shape} != data.shape={d.shape}')]
    if not np.all(np.isfinite(m)):
        fails.append(('Background2D:nonfinite-map', f'{name} contains non-finite pixels'))
    cov = c['cov'] if c['cov'] is not None else np.zeros(d.shape, bool)
    if not np.all(m[cov] == np.asarray(c['fill']).astype(m.dtype)):
        fails.append(('Background2D:coverage-fill', f'{name} != fill_value on a coverage_mask pixel'))
    off = m[~cov]
    if off.size:
        if np.ptp(mesh) == 0 and not np.all(off == mesh.flat[0]):
            fails.append(('Background2D:constant-mesh', f'{name}: constant mesh but non-constant map'))
        if c['interp'] == 'zoom' and (off.min() < mesh.min() or off.max() > mesh.max()):
            fails.append(('Background2D:map-range', f'{name} leaves the range of the mesh'))
    return fails


# --------------------------------------------------------------------------
# independent references (numpy / scipy / astropy only, no photutils code) for the numerics that the
# Coq model treats as parameters: estimators, sigma clipping, the two upscaling interpolators
# --------------------------------------------------------------------------
def ref_estimate(name, v):
    """Reference value of estimator class `name` on the 1-D float64 sample v (non-empty)."""
    from astropy.stats import biweight_location, biweight_scale, mad_std
    mean, med = float(np.mean(v)), float(np.median(v))
    if name == 'MeanBackground':
        return mean
    if name == 'MedianBackground':
        return med
    if name in ('ModeEstimatorBackground', 'MMMBackground'):
        return 3.0 * med - 2.0 * mean
    if name == 'SExtractorBackground':
        std = float(np.std(v))
        if std == 0:
            return mean
        if abs(mean - med) / std >= 0.3:
            return med
        return 2.5 * med - 1.5 * mean
    if name == 'BiweightLocationBackground':
        return float(biweight_location(v, c=6.0))
    if name == 'StdBackgroundRMS':
        return float(np.std(v))
    if name == 'MADStdBackgroundRMS':
        return float(mad_std(v))
    if name == 'BiweightScaleBackgroundRMS':
        return float(biweight_scale(v, c=9.0))
    raise KeyError(name)


def ref_sextractor_margin(v):
    """|mean-median| - 0.3 std sits within rounding of 0: the branch is decided by rounding."""
    std = float(np.std(v))
    if std == 0:
        return False
    return abs(abs(float(np.mean(v)) - float(np.median(v))) - 0.3 * std) < 1e-6 * std + 64 * 2.0 ** -52 * float(np.max(np.abs(v)))


def ref_clip(v, sclip):
    if sclip is None or v.size == 0:
        return v
    from astropy.stats import SigmaClip
    with warnings.catch_warnings():
        warnings.simplefilter('ignore')
        out = SigmaClip(sigma=sclip, maxiters=10)(v, masked=False, axis=None)
    return out[np.isfinite(out)]


def ref_zoom(mesh, shape, box, clip):
    from scipy.ndimage import zoom
    mesh = np.asarray(mesh)
    if np.ptp(mesh) == 0:
        return np.full(shape, mesh.min(), dtype=float)
    r = zoom(mesh, box, order=3, mode='reflect', cval=0.0, grid_mode=True)[:shape[0], :shape[1]]
    if clip:
        r = np.clip(r, mesh.min(), mesh.max())
    return r


def ref_idw(mesh, excl, shape, box):
    """Shepard IDW (power 1, 10 neighbours) from the centres of the kept meshes; None when more than 10 meshes
    are kept (the choice among equidistant neighbours is then not determined)."""
    mesh = np.asarray(mesh, float)
    if np.ptp(mesh) == 0:
        return np.full(shape, mesh.min(), dtype=float)
    good = np.argwhere(~excl)
    if len(good) > 10:
        return None
    cen = good * np.array(box) + (np.array(box) - 1) / 2.0
    vals = mesh[~excl]
    out = np.empty(shape)
    for y in range(shape[0]):
        for x in range(shape[1]):
            d = np.hypot(cen[:, 0] - y, cen[:, 1] - x)
            if np.any(d <= 1e-12):
                out[y, x] = vals[np.argmin(d)]
            else:
                w = 1.0 / d
                out[y, x] = np.dot(w, vals) / w.sum()
    return out


def _ulp(dtype):
    return 2.0 ** -23 if dtype == np.float32 else 2.0 ** -52


def interp_oracle(c, mesh, excl, m, name):
    """The map is the documented interpolation of the (filtered) mesh outside the coverage mask:
    (a) zoom: bit-identical to the same scipy call on the same mesh (incl. the ptp == 0 rule and the clip);
        IDW: equal to a direct Shepard sum to rounding level (when at most 10 meshes are kept);
    (b) a non-constant mesh never gives a constant map; (c) for odd box sizes the zoom map passes through the
        mesh values at the box centres (grid_mode spline nodes), the IDW map through the kept mesh values."""
    d = c['data']
    ny, nx = d.shape
    box = (min(c['box'][0], ny), min(c['box'][1], nx))
    if m.shape != d.shape or not (np.all(np.isfinite(mesh)) and np.all(np.isfinite(m))):
        return []
    sig = 'Background2D:interpolator-reference'
    cov = c['cov'] if c['cov'] is not None else np.zeros(d.shape, bool)
    mesh = np.asarray(mesh)
    amax = float(np.max(np.abs(mesh)))
    fails = []
    idw = c['interp'] == 'idw'
    ref = ref_idw(mesh, excl, d.shape, box) if idw else ref_zoom(mesh, d.shape, box, c['interp'] == 'zoom')
    if ref is not None:
        mm, rr = m[~cov].astype(float), np.asarray(ref)[~cov].astype(float)
        ok = np.all(np.abs(mm - rr) <= 1e4 * _ulp(m.dtype) * amax) if idw else np.array_equal(mm, rr)
        if not ok:
            k = int(np.argmax(np.where(cov, 0, np.abs(m.astype(float) - np.asarray(ref, float)))))
            y, x = divmod(k, nx)
            fails.append((sig, f'{name}[{y},{x}] = {m[y, x]!r} but the {c["interp"]} interpolation of the mesh gives '
                          f'{ref[y, x]!r} (mesh min {mesh.min()!r}, ptp {np.ptp(mesh)!r})'))
    spread = float(np.ptp(mesh))
    # BkgIDWInterpolator upsamples from the KEPT cells only (excluded cells, filled and median-filtered, are not
    # sources), so for IDW the map must vary only when the kept cells do
    src_spread = float(np.ptp(mesh[~excl])) if idw and (~excl).any() else spread
    if src_spread > 1e3 * _ulp(mesh.dtype) * amax and not cov.any() and (~cov).sum() > 1 and np.ptp(m) == 0:
        fails.append((sig, f'{name} is constant ({m.flat[0]!r}) although the mesh is not (ptp {src_spread!r})'))
    if box[0] % 2 and box[1] % 2 and spread != 0:
        tol = (0.0 if idw else 64 * _ulp(m.dtype) * amax)
        for (i, j) in np.argwhere(~excl if idw else np.ones(mesh.shape, bool)):
            y, x = i * box[0] + (box[0] - 1) // 2, j * box[1] + (box[1] - 1) // 2
            if y < ny and x < nx and not cov[y, x] and abs(float(m[y, x]) - float(mesh[i, j])) > tol:
                fails.append((sig, f'{name}[{y},{x}] = {m[y, x]!r} at the centre of mesh [{i},{j}] = {mesh[i, j]!r} '
                              f'({c["interp"]})'))
                break
    return fails[:2]


def mesh_reference(c, data, b1):
    """Property clause 'each mesh value equals the chosen estimator applied to the sigma-clipped unmasked pixels
    of its box' for ANY estimator class: references computed per block from slices of the image.
    b1 = observables of the same configuration with filter_size=(1,1): (bkg mesh, rms mesh, npixels, excluded)."""
    fails, stats = [], {'cells': 0, 'clip_tie_skipped': 0, 'sextractor_switch_skipped': 0}
    c['_sx_slack'] = np.inf       # min over kept cells of | |mean - median| - 0.3 std |  (data units)
    bm, rm, npx, excl = b1
    d = data.astype(float)
    ny, nx = d.shape
    by, bx = min(c['box'][0], ny), min(c['box'][1], nx)
    bad = ~np.isfinite(d)
    for m in (c['mask'], c['cov']):
        if m is not None:
            bad = bad | m
    nmy, nmx = -(-ny // by), -(-nx // bx)
    if npx.shape != (nmy, nmx):
        return [('Background2D:mesh-shape', f'mesh shape {npx.shape} != {(nmy, nmx)}')], stats
    thr = (1 - Fraction(c['p']) / 100) * (by * bx)
    exact_thr = margin_ok(c)
    f32 = data.dtype == np.float32
    for i in range(nmy):
        for j in range(nmx):
            sl = (slice(i * by, (i + 1) * by), slice(j * bx, (j + 1) * bx))
            v = ref_clip(d[sl][~bad[sl]], c['sclip'])
            n = int(v.size)
            stats['cells'] += 1
            if int(npx[i, j]) != n:
                if c['sclip'] is not None and abs(int(npx[i, j]) - n) <= 2 and int(npx[i, j]) <= int((~bad[sl]).sum()):
                    stats['clip_tie_skipped'] += 1      # a value on the clipping boundary: decided by rounding
                    continue
                fails.append(('Background2D:npixels_mesh', f'npixels_mesh[{i},{j}]={npx[i, j]} but the box has {n} '
                              f'unmasked pixels after sigma clipping'))
                continue
            if exact_thr:
                exp_ex = n == 0 or n < thr
                if bool(excl[i, j]) != exp_ex:
                    fails.append(('Background2D:exclude_percentile-boundary',
                                  f'box [{i},{j}] with {n} good pixels of {by * bx} (threshold {float(thr)}) is '
                                  f'{"excluded" if excl[i, j] else "kept"}'))
                    continue
            if excl[i, j] or n == 0:
                continue
            if c['bkg'] == 'SExtractorBackground':
                c['_sx_slack'] = min(c['_sx_slack'], abs(abs(float(np.mean(v)) - float(np.median(v))) - 0.3 * float(np.std(v))))
            if c['bkg'] == 'SExtractorBackground' and ref_sextractor_margin(v):
                stats['sextractor_switch_skipped'] += 1
            else:
                rb = ref_estimate(c['bkg'], v)
                if not abs(float(bm[i, j]) - rb) <= (2e-4 if f32 else 1e-9) * (abs(rb) + float(np.max(np.abs(v)))) + 1e-300:
                    fails.append(('Background2D:mesh-value', f'background_mesh[{i},{j}]={bm[i, j]} != {c["bkg"]} of '
                                  f'the clipped unmasked pixels of the box = {rb}'))
            rr = ref_estimate(c['rms'], v)
            if not abs(float(rm[i, j]) - rr) <= (2e-4 if f32 else 1e-9) * (abs(rr) + float(np.max(np.abs(v)))) + 1e-300:
                fails.append(('Background2D:rms-mesh-value', f'background_rms_mesh[{i},{j}]={rm[i, j]} != {c["rms"]} '
                              f'of the clipped unmasked pixels of the box = {rr}'))
    return fails[:4], stats


# --------------------------------------------------------------------------
# support relations on every estimator / interpolator class (tested, not proved)
# --------------------------------------------------------------------------
BKG = ['MeanBackground', 'MedianBackground', 'ModeEstimatorBackground', 'MMMBackground', 'SExtractorBackground',
       'BiweightLocationBackground']
RMS = ['StdBackgroundRMS', 'MADStdBackgroundRMS', 'BiweightScaleBackgroundRMS']


def gen_rel(seed, combo=None):
    """combo = index into BKG x RMS x {zoom, idw}: every class combination is visited in turn."""
    rng = random.Random(seed)
    c = gen_case(rng.randrange(1 << 30))
    c['seed'] = seed
    ny, nx = c['data'].shape
    if rng.random() < 0.5:       # larger images so that sigma clipping has something to clip
        ny, nx = rng.randint(8, 24), rng.randint(8, 24)
        c['box'] = (gen_box(rng, ny), gen_box(rng, nx))
        base = np.array([[rng.randint(-20, 20) * 0.25 for _ in range(nx)] for _ in range(ny)])
        for _ in range(rng.randint(0, 4)):
            base[rng.randrange(ny), rng.randrange(nx)] += rng.choice([64.0, 128.0, -96.0])
        c['data'] = base.astype(c['data'].dtype)
        c['mask'] = None if c['mk'] == 'none' else _mask(rng, ny, nx, c['mk'])
        c['cov'] = None if c['ck'] == 'none' else _mask(rng, ny, nx, c['ck'])
    c['data'][~np.isfinite(c['data'])] = 1.0
    # scenes over many orders of magnitude: data = L + s * lattice, s = 2^-e, L a multiple of the quantum q = s/4
    # (spread / level from 1 down to ~1e-12; everything stays exactly representable)
    f32 = c['data'].dtype == np.float32
    c['quantum'] = 1.0 if f32 else 0.25
    c['scene'] = 'lattice'
    if rng.random() < 0.45:
        e = rng.randint(0, 8 if f32 else 30) if rng.random() < 0.6 else 0
        s = 2.0 ** -e
        q = s * c['quantum']
        M = int(2.0 ** rng.uniform(0, 12 if f32 else 44)) * rng.choice([1, 1, -1]) if rng.random() < 0.8 else 0
        L = q * M
        c['data'] = (L + s * c['data'].astype(float)).astype(c['data'].dtype)
        if c['fthr'] is not None:
            c['fthr'] = float(L + s * c['fthr'])
        c['quantum'] = q
        c['scene'] = 'pedestal'
    c['bkg'] = rng.choice(BKG)
    c['rms'] = rng.choice(RMS)
    c['sclip'] = rng.choice([None, 3.0, 3.0, 2.0])
    c['p'] = rng.choice([0, 10, 25, 50, 50, 75, 90, 100, 100])
    if c['interp'] == 'zoom_noclip':
        c['interp'] = 'zoom'
    if combo is not None:
        c['bkg'] = BKG[combo % len(BKG)]
        c['rms'] = RMS[(combo // len(BKG)) % len(RMS)]
        c['interp'] = ('zoom', 'idw')[(combo // (len(BKG) * len(RMS))) % 2]
    c['combo'] = combo
    return c


def _build_rel(c, data, fthr):
    import photutils.background as pb
    from astropy.stats import SigmaClip
    interp = pb.BkgIDWInterpolator() if c['interp'] == 'idw' else pb.BkgZoomInterpolator()
    return pb.Background2D(data, c['box'], mask=_m(c, 'mask'), coverage_mask=_m(c, 'cov'), fill_value=c['fill'],
                           exclude_percentile=c['p'], filter_size=c['fsize'], filter_threshold=fthr,
                           sigma_clip=None if c['sclip'] is None else SigmaClip(sigma=c['sclip'], maxiters=10),
                           bkg_estimator=getattr(pb, c['bkg'])(), bkgrms_estimator=getattr(pb, c['rms'])(),
                           interpolator=interp)


def _obs_rel(c, data, fthr=None, fsize=None):
    if fsize is not None:
        c = dict(c, fsize=fsize)
    with warnings.catch_warnings():
        warnings.simplefilter('ignore')
        try:
            b = _build_rel(c, data, c['fthr'] if fthr is None else fthr)
        except ValueError as e:
            if ALLEXC in str(e):
                return None
            raise
        r = _read(b, ['background_mesh', 'background_rms_mesh', 'npixels_mesh', 'background', 'background_rms',
                      'mesh_nmasked', 'background_median', 'background_rms_median'],
                  _order_key(c, data, 3 + 7 * c['fsize'][0] + c['fsize'][1]))
        # (mesh_nmasked: background_mesh_masked cannot hold NaN for integer input)
        return [r['background_mesh'], r['background_rms_mesh'], r['npixels_mesh'], r['background'], r['background_rms'],
                np.isnan(r['mesh_nmasked']), r['background_median'], r['background_rms_median']]


def _same(a, b):
    return (a is None and b is None) or (a is not None and b is not None and
                                         all(np.array_equal(x, y, equal_nan=True) for x, y in zip(a, b)))


def _near(a, b, tol):
    return np.all(np.abs(a - b) <= tol)


def rel_describe(c):
    d = describe(c)
    d.update({'bkg_estimator': c['bkg'], 'bkgrms_estimator': c['rms'], 'sigma_clip': c['sclip'], 'relation': True})
    return d


def run_relations(c):
    """Returns (list of (signature, message), base observables)."""
    fails = []
    rng = random.Random(c['seed'] ^ 0x5bd1)
    data = c['data']
    base = _obs_rel(c, data.copy())
    cfgname = f"{c['bkg']}/{c['rms']}/{c['interp']}/clip={c['sclip']}"
    cov = c['cov'] if c['cov'] is not None else np.zeros(data.shape, bool)
    hidden = cov.copy()
    if c['mask'] is not None:
        hidden |= c['mask']
    # R1 mask-blindness (bit-exact)
    d2 = data.copy()
    for (y, x) in zip(*np.nonzero(hidden)):
        d2[y, x] = rng.choice([np.nan, np.inf, -np.inf, -1e6, 12345.0, 0.0, 3.0e38, -3.0e38, 2.0 ** 24, 2.0 ** 31 - 1])
    if not _same(base, _obs_rel(c, d2)):
        fails.append(('Background2D:mask-blind', f'outputs depend on values under mask/coverage_mask ({cfgname})'))
    if base is None:
        return fails, None
    bm, rm, npx, bmap, rmap, excl = base[:6]
    f32 = data.dtype == np.float32
    ulp = _ulp(data.dtype)

    scale = max(1.0, float(np.max(np.abs(data))))
    # R2 shape, finiteness, fill, range
    for name, mesh, m in (('background', bm, bmap), ('background_rms', rm, rmap)):
        cc = dict(c)
        fails += map_oracle(cc, mesh, m, name)
        fails += [(sig, msg + f' ({cfgname})') for sig, msg in interp_oracle(cc, mesh, excl, m, name)]
    # R2b every mesh value = reference estimator of the reference-clipped unmasked pixels of its block
    b1 = _obs_rel(c, data.copy(), fsize=(1, 1))
    if b1 is None:
        fails.append(('Background2D:raises', f'filter_size=(1,1) raises although filter_size={c["fsize"]} does not'))
    else:
        mf, mstats = mesh_reference(c, data, (b1[0], b1[1], b1[2], b1[5]))
        fails += [(sig, msg + f' ({cfgname})') for sig, msg in mf]
        c['_mstats'] = mstats
    if np.any(rm < 0) or np.any(rmap[~cov] < 0):
        fails.append(('Background2D:negative-rms', f'negative RMS ({cfgname})'))
    # R3 constant image reproduced exactly, RMS 0
    q = c.get('quantum', 0.25)
    cval = rng.randint(-64, 64) * q * rng.choice([1, 1, 2 ** 10, 2 ** 20 if not f32 else 2 ** 8])
    const = _obs_rel(c, np.full(data.shape, cval, dtype=data.dtype))
    if const is not None:
        if not (np.all(const[3][~cov] == cval) and np.all(const[4][~cov] == 0) and np.all(const[0] == cval)
                and np.all(const[1] == 0)):
            fails.append(('Background2D:constant-image', f'constant image {cval} not reproduced exactly ({cfgname})'))
    # R4 scaling by a power of two (2^-40 .. 2^40) is bit-exact
    k = 2.0 ** rng.randint(-40, 40)
    sc = _obs_rel(c, (data * k).astype(data.dtype), fthr=None if c['fthr'] is None else c['fthr'] * k)
    if sc is None or not (np.array_equal(sc[2], npx) and all(np.array_equal(sc[i][..., :], base[i] * k) for i in (0, 1))
                          and np.array_equal(sc[3][~cov], bmap[~cov] * k) and np.array_equal(sc[4][~cov], rmap[~cov] * k)
                          and np.all(sc[3][cov] == bmap[cov])):
        fails.append(('Background2D:scale-equivariance', f'multiplying the data by {k} does not scale the outputs ({cfgname})'))
    # The remaining transformations round the data or the statistics, so decisions that sit on a tie may flip:
    # they are run without filter_threshold, skipped (and counted) when the sigma-clip survivors change or when a
    # SExtractor cell sits within the perturbation of its mean/median switch; tolerances are a fixed multiple of
    # the rounding unit of the transformed magnitudes (never of the spread of the scene).
    cn = c if c['fthr'] is None else dict(c, fthr=None)
    bn = base if c['fthr'] is None else _obs_rel(cn, data.copy())
    rstats = c.setdefault('_rstats', {})
    scale = float(np.max(np.abs(data))) + c.get('quantum', 0.25)
    sx_slack = c.get('_sx_slack', np.inf)

    def compare(tag, out, kk, cc, delta, what):
        """out ~ kk*base + cc for the background, kk*base for the RMS, to within `delta`."""
        if bn is None or out is None:
            if (bn is None) != (out is None):
                if c['sclip'] is not None and tag != 'exact':
                    rstats['clip_tie_skipped'] = rstats.get('clip_tie_skipped', 0) + 1
                else:
                    fails.append((tag, f'{what}: one run raises "all boxes excluded", the other does not ({cfgname})'))
            return
        if not np.array_equal(out[2], bn[2]):
            if c['sclip'] is not None:
                rstats['clip_tie_skipped'] = rstats.get('clip_tie_skipped', 0) + 1
                return
            fails.append((tag, f'{what}: npixels_mesh changes ({cfgname})'))
            return
        okb = (_near(out[0], bn[0] * kk + cc, delta) and _near(out[3][~cov], bn[3][~cov] * kk + cc, delta))
        if not okb and c['bkg'] == 'SExtractorBackground' and sx_slack * kk < 8 * delta:
            rstats['sextractor_switch_skipped'] = rstats.get('sextractor_switch_skipped', 0) + 1
            okb = True
        okr = (_near(out[1], bn[1] * kk, delta) and _near(out[4][~cov], bn[4][~cov] * kk, delta))
        okc = np.all(out[3][cov] == bn[3][cov]) and np.all(out[4][cov] == bn[4][cov])
        if not (okb and okr and okc):
            dev = max(float(np.max(np.abs(out[3][~cov] - (bn[3][~cov] * kk + cc)))) if (~cov).any() else 0.0,
                      float(np.max(np.abs(out[0] - (bn[0] * kk + cc)))), float(np.max(np.abs(out[1] - bn[1] * kk))))
            fails.append((tag, f'{what}: outputs deviate by {dev:.3g} > tolerance {delta:.3g} '
                          f'(mesh spread {float(np.ptp(bn[0])):.3g}, level {scale:.3g}) ({cfgname})'))

    FAC = 4096.0
    # R4b non-dyadic scale factors 1e-12 .. 1e12
    k = rng.choice([3.0, 10.0 ** rng.uniform(-12, 12), 10.0 ** rng.randint(-12, 12)])
    if f32:
        k = float(np.float32(k))
    compare('Background2D:scale-equivariance', _obs_rel(cn, (data * k).astype(data.dtype)), k, 0.0,
            FAC * ulp * k * scale, f'multiplying the data by {k!r}')
    # R5 shift by a multiple of the data quantum (data + c is exact), |c| from q to 2^50 q, both signs
    sh = float(int(2.0 ** rng.uniform(0, 20 if f32 else 50)) * q * rng.choice([1, -1]))
    compare('Background2D:shift-equivariance', _obs_rel(cn, (data + sh).astype(data.dtype)), 1.0, sh,
            FAC * ulp * (abs(sh) + scale), f'adding {sh!r} to the data')
    # R5b shift by an arbitrary constant 1e-3 .. 1e8 (data + c is rounded)
    sh = float(rng.choice([1, -1]) * 10.0 ** rng.choice([rng.uniform(-3, 8), float(rng.randint(-3, 8))]))
    if f32:
        sh = float(np.float32(sh))
    compare('Background2D:shift-equivariance', _obs_rel(cn, (data + sh).astype(data.dtype)), 1.0, sh,
            FAC * ulp * (abs(sh) + scale), f'adding {sh!r} to the data')
    return fails, base


# --------------------------------------------------------------------------
# large boxes at high levels in float32 / integer images (the numpy nan-statistics path must not lose precision)
# --------------------------------------------------------------------------
BIG_DTYPES = ['float32', 'uint16', 'int32', 'float32', 'float64']


def gen_bigbox(seed, k):
    g = np.random.default_rng(seed)
    rng = random.Random(seed)
    dtype = BIG_DTYPES[k % len(BIG_DTYPES)]
    n0 = int(g.integers(96, 161))
    n1 = int(g.integers(96, 161))
    box = (int(g.choice([48, 64, 96, 128, n0])), int(g.choice([48, 64, 100, 128, n1])))
    level = float(rng.choice([300.0, 5000.0, 20000.0, 40000.0, 65000.0, 1.0e5]) * rng.choice([1.0, 1.0, 0.7300109]))
    if dtype == 'uint16':
        level = min(level, 65000.0)
    kind = ('const', 'near', 'ramp')[(k // len(BIG_DTYPES)) % 3]
    if kind == 'const':
        data = np.full((n0, n1), level)
    elif kind == 'near':
        data = level + g.integers(-3, 4, (n0, n1)) * (1.0 if dtype != 'float32' else 0.25)
    else:
        yy, xx = np.mgrid[0:n0, 0:n1]
        data = level + 0.02 * xx + 0.01 * yy + g.integers(-2, 3, (n0, n1))
    if dtype in ('uint16', 'int32'):
        data = np.rint(data)
    data = data.astype(dtype)
    mask = None
    if rng.random() < 0.5:
        mask = g.random((n0, n1)) < 0.05
    return dict(seed=seed, k=k, data=data, box=box, mask=mask, cov=None, fill=0.0, p=50, fsize=(1, 1), fthr=None,
                interp='zoom', bkg=BKG[k % len(BKG)], rms=RMS[k % len(RMS)], sclip=rng.choice([None, None, 3.0]),
                kind=kind, level=level)


def run_bigbox(c):
    """mesh = reference (float64) estimator of each block to float32-accumulation accuracy; constant image
    reproduced; integer shift adds the shift.  Integer input is cast to float32 by Background2D and the outputs are
    cast back to the integer dtype (documented), hence the +1 allowance."""
    fails = []
    data = c['data']
    isint = data.dtype.kind in 'iu'
    f64 = data.dtype == np.float64
    rel = 1e-11 if f64 else 1e-5
    slack = 1.0 if isint else 0.0
    cfg = f"{data.dtype}/{data.shape}/box={c['box']}/level={c['level']:g}/{c['kind']}/{c['bkg']}/{c['rms']}/clip={c['sclip']}"
    base = _obs_rel(c, data.copy())
    if base is None:
        return [('Background2D:raises', f'all boxes excluded on a 5 % masked image ({cfg})')]
    bm, rm, npx, bmap, rmap, excl = base[:6]
    d = data.astype(np.float32).astype(float) if not f64 else data.astype(float)
    ny, nx = d.shape
    by, bx = min(c['box'][0], ny), min(c['box'][1], nx)
    bad = np.zeros(d.shape, bool) if c['mask'] is None else c['mask']
    lev = float(np.max(np.abs(d)))
    for i in range(-(-ny // by)):
        for j in range(-(-nx // bx)):
            sl = (slice(i * by, (i + 1) * by), slice(j * bx, (j + 1) * bx))
            v = ref_clip(d[sl][~bad[sl]], c['sclip'])
            if int(npx[i, j]) != v.size:
                if c['sclip'] is None:
                    fails.append(('Background2D:npixels_mesh', f'npixels_mesh[{i},{j}]={npx[i, j]} != {v.size} ({cfg})'))
                continue
            if excl[i, j] or v.size == 0:
                continue
            if not (c['bkg'] == 'SExtractorBackground' and
                    abs(abs(float(np.mean(v)) - float(np.median(v))) - 0.3 * float(np.std(v))) < 4 * rel * lev):
                rb = ref_estimate(c['bkg'], v)
                if not abs(float(bm[i, j]) - rb) <= rel * lev + slack:
                    fails.append(('Background2D:mesh-value', f'background_mesh[{i},{j}]={bm[i, j]!r} but {c["bkg"]} of the '
                                  f'{v.size} unmasked pixels of the box is {rb!r} ({cfg})'))
            rr = ref_estimate(c['rms'], v)
            if not abs(float(rm[i, j]) - rr) <= rel * lev + 1e-4 * abs(rr) + slack:
                fails.append(('Background2D:rms-mesh-value', f'background_rms_mesh[{i},{j}]={rm[i, j]!r} but {c["rms"]} of '
                              f'the {v.size} unmasked pixels of the box is {rr!r} ({cfg})'))
    if c['kind'] == 'const':
        cval = float(d.flat[0])
        dev = max(float(np.max(np.abs(bmap.astype(float) - cval))), float(np.max(np.abs(bm.astype(float) - cval))))
        rdev = max(float(np.max(np.abs(rmap.astype(float)))), float(np.max(np.abs(rm.astype(float)))))
        if dev > rel * lev + slack or rdev > rel * lev + slack:
            fails.append(('Background2D:constant-image', f'constant image {cval!r}: max |background - c| = {dev:.4g}, '
                          f'max RMS = {rdev:.4g} ({cfg})'))
    # shift by an integer that keeps the data exactly representable
    sh = float(random.Random(c['seed'] ^ 77).choice([16, 250, 1000]))
    if not (data.dtype == np.uint16 and lev + sh > 65535):
        so = _obs_rel(c, (data + data.dtype.type(sh)).astype(data.dtype))
        tol = 4 * rel * (lev + sh) + 2 * slack
        if so is None or not np.array_equal(so[2], npx):
            if c['sclip'] is None:
                fails.append(('Background2D:shift-equivariance', f'adding {sh}: npixels_mesh changes ({cfg})'))
        elif not (_near(so[0].astype(float), bm.astype(float) + sh, tol) and _near(so[1].astype(float), rm.astype(float), tol)
                  and _near(so[3].astype(float), bmap.astype(float) + sh, tol) and _near(so[4].astype(float), rmap.astype(float), tol)):
            fails.append(('Background2D:shift-equivariance', f'adding {sh} does not add {sh} to the background / keep the '
                          f'RMS to within {tol:.3g} ({cfg})'))
    return fails[:4]


# --------------------------------------------------------------------------
# sequences of Background2D objects in one process that share an interpolator instance (the default argument is
# ONE instance for all objects): every read must equal the same request computed in isolation, and the returned
# maps must not be aliased to internal state
# --------------------------------------------------------------------------
def gen_sequence(seed):
    rng = random.Random(seed)
    c = gen_rel(rng.randrange(1 << 30), rng.randrange(36))
    c['seed'] = seed
    c['sclip'] = rng.choice([None, 3.0])
    ny, nx = c['data'].shape
    A = _mask(rng, ny, nx, rng.choice(['random', 'block', 'band', 'one']))
    B = _mask(rng, ny, nx, rng.choice(['random', 'one']))
    share = rng.choice(['default', 'default', 'explicit-zoom', 'explicit-idw'])
    reqs = []
    for _ in range(rng.randint(3, 6)):
        kind = rng.choice(['cov=A', 'mask=A', 'none', 'cov=A,mask=B', 'cov=B,mask=A', 'cov=A', 'mask=A'])
        reqs.append(dict(kind=kind, fill=rng.choice([0.0, 0.0, -1.5, 1000.0, float('nan')]),
                         order=rng.choice(['b', 'r', 'br', 'rb', 'bb', 'brb']), scribble=rng.random() < 0.5))
    return c, A, B, share, reqs


def _seq_build(c, A, B, req, interp):
    import photutils.background as pb
    from astropy.stats import SigmaClip
    mask = {'cov=A': None, 'mask=A': A, 'none': None, 'cov=A,mask=B': B, 'cov=B,mask=A': A}[req['kind']]
    cov = {'cov=A': A, 'mask=A': None, 'none': None, 'cov=A,mask=B': A, 'cov=B,mask=A': B}[req['kind']]
    mdt = c.get('mdt', ('bool', 'bool'))
    kw = dict(mask=None if mask is None else mask.astype(mdt[0]), coverage_mask=None if cov is None else cov.astype(mdt[1]),
              fill_value=req['fill'], exclude_percentile=c['p'], filter_size=c['fsize'],
              sigma_clip=None if c['sclip'] is None else SigmaClip(sigma=c['sclip'], maxiters=10),
              bkg_estimator=getattr(pb, c['bkg'])(), bkgrms_estimator=getattr(pb, c['rms'])())
    if interp is not None:
        kw['interpolator'] = interp
    return pb.Background2D(c['data'].copy(), c['box'], **kw)


def run_sequence(seed):
    import photutils.background as pb
    c, A, B, share, reqs = gen_sequence(seed)
    fails = []
    cfg = f"{share}/{c['bkg']}/{c['rms']}/box={c['box']}/shape={c['data'].shape}"
    fresh = (lambda: pb.BkgIDWInterpolator()) if share == 'explicit-idw' else (lambda: pb.BkgZoomInterpolator())
    with warnings.catch_warnings():
        warnings.simplefilter('ignore')
        refs = []
        for req in reqs:            # isolation: a fresh interpolator instance per request, before the sequence
            try:
                b = _seq_build(c, A, B, req, fresh())
                refs.append((np.array(b.background), np.array(b.background_rms)))
            except ValueError as e:
                if ALLEXC not in str(e):
                    raise
                refs.append(None)
        shared = None if share == 'default' else fresh()
        for n, (req, ref) in enumerate(zip(reqs, refs)):
            try:
                b = _seq_build(c, A, B, req, shared)
            except ValueError as e:
                if ALLEXC not in str(e):
                    raise
                if ref is not None:
                    fails.append(('Background2D:shared-interpolator-state', f'request {n} ({req["kind"]}) raises in the '
                                  f'sequence but not in isolation ({cfg})'))
                continue
            if ref is None:
                fails.append(('Background2D:shared-interpolator-state', f'request {n} ({req["kind"]}) raises in isolation '
                              f'but not in the sequence ({cfg})'))
                continue
            for ch in req['order']:
                got = b.background if ch == 'b' else b.background_rms
                want = ref[0] if ch == 'b' else ref[1]
                name = 'background' if ch == 'b' else 'background_rms'
                if not np.array_equal(np.asarray(got), want, equal_nan=True):
                    bad = ~((np.asarray(got) == want) | (np.isnan(np.asarray(got)) & np.isnan(want)))
                    y, x = np.argwhere(bad)[0]
                    fails.append(('Background2D:shared-interpolator-state',
                                  f'object {n} of a sequence ({req["kind"]}, fill_value={req["fill"]}): {name}[{y},{x}] = '
                                  f'{np.asarray(got)[y, x]!r} but the same request in isolation gives {want[y, x]!r}; '
                                  f'previous requests: {[q["kind"] for q in reqs[:n]]} ({cfg})'))
                    break
                if req['scribble']:
                    arr = np.asarray(got)
                    if arr.flags.writeable:
                        arr[...] = 12345.678
                    again = np.asarray(b.background if ch == 'b' else b.background_rms)
                    if not np.array_equal(again, want, equal_nan=True):
                        fails.append(('Background2D:returned-array-aliased',
                                      f'{name} of object {n} ({req["kind"]}) changes after the caller overwrote the array '
                                      f'returned by the previous read ({cfg})'))
                        break
    return fails[:3]


# --------------------------------------------------------------------------
# constant images with arbitrary (non-dyadic) constants, every estimator class
# --------------------------------------------------------------------------
def gen_constant(seed, k):
    rng = random.Random(seed)
    f32 = (k % 3) == 2
    ny, nx = rng.randint(2, 40), rng.randint(2, 40)
    box = (rng.randint(2, min(16, ny)), rng.randint(2, min(16, nx)))
    if rng.random() < 0.3:
        b = rng.choice([2, 3, 4, 8, 10, 16])
        ny, nx = b * rng.randint(1, 3), b * rng.randint(1, 3)
        box = (b, b)
    kind = rng.choice(['decimal', 'decimal', 'milli', 'pi', 'dyadic', 'big'])
    cval = {'decimal': lambda: rng.choice([0.1, 0.3, 1.1, 123.456, 1234.1, -0.7, 0.2, 9.99, 1e-7, 5.05e4]),
            'milli': lambda: 1e-3 * rng.randint(1, 9999),
            'pi': lambda: math.pi * 10.0 ** rng.randint(-6, 6) * rng.choice([1, -1]),
            'dyadic': lambda: rng.randint(-64, 64) * 0.25,
            'big': lambda: 1e6 * rng.randint(1, 50) + rng.choice([0.1, 0.3, 0.5])}[kind]()
    dt = np.float32 if f32 else np.float64
    cval = float(dt(cval))
    mk = rng.choice(['none', 'none', 'random', 'block', 'one'])
    ck = rng.choice(['none', 'none', 'one', 'band'])
    return dict(seed=seed, k=k, mdt=_mdt(seed), data=np.full((ny, nx), cval, dtype=dt), cval=cval, ckind=kind, box=box,
                mask=None if mk == 'none' else _mask(rng, ny, nx, mk), cov=None if ck == 'none' else _mask(rng, ny, nx, ck),
                p=rng.choice([10, 50, 90, 100]), fsize=rng.choice([(1, 1), (1, 1), (3, 3)]), fthr=None,
                interp=rng.choice(['zoom', 'zoom', 'idw']), fill=rng.choice([0.0, -1.5, 7.25]),
                sclip=rng.choice([None, 3.0, 3.0]), rms='StdBackgroundRMS', bkg='MeanBackground')


KNOWN_MEAN = 'Background2D:constant-image-inexact:background:MeanBackground'
KNOWN_MODE = 'Background2D:constant-image-inexact:background:ModeEstimatorBackground/MMMBackground'
KNOWN_STD = 'Background2D:constant-image-inexact:background_rms:StdBackgroundRMS'


def run_constant(c):
    """'reproduce a constant image exactly (RMS 0)' for every estimator class and arbitrary constants c.
    Demanded exactly, always: Median, BiweightLocation and SExtractor (the default) backgrounds = c; MADStd and
    BiweightScale RMS = 0; Std RMS = 0 in every box whose float mean is exactly c; Mode/MMM mesh = 3*median - 2*mean
    of the Mean run (their definition); a constant mesh gives exactly that constant map; fill_value on coverage.
    Recorded findings (the float mean of n equal values need not be that value), each with the bound it must obey
    (n = box_npixels, eps = spacing of the dtype at 1, +8 eps |c| for filter / interpolation roundings):
      KNOWN_MEAN  |background - c| <= n eps |c|         MeanBackground
      KNOWN_STD   |background_rms| <= n eps |c|         StdBackgroundRMS (the default RMS estimator)
      KNOWN_MODE  |background - c| <= (2 n + 4) eps |c| ModeEstimator / MMM (3 c - 2 mean also rounds when mean = c)
    A deviation beyond the bound, or in any other quantity, is an ordinary Background2D:constant-image violation.
    Returns (fails, stats)."""
    fails, st = [], {}
    data, cval = c['data'], c['cval']
    dt = data.dtype.type
    cov = c['cov'] if c['cov'] is not None else np.zeros(data.shape, bool)
    cfg = f"c={cval!r}/{data.dtype}/{data.shape}/box={c['box']}/{c['interp']}/filter={c['fsize']}/clip={c['sclip']}"
    nbox = min(c['box'][0], data.shape[0]) * min(c['box'][1], data.shape[1])
    u = _ulp(data.dtype) * abs(cval)
    bound = nbox * u

    def count(key, n=1):
        st[key] = st.get(key, 0) + int(n)

    def obs(bkg, rms, fsize=None):
        return _obs_rel(dict(c, bkg=bkg, rms=rms, fsize=c['fsize'] if fsize is None else fsize), data.copy())

    def check(o, name, cls, want, known=None, lim=0.0):
        """mesh and map of `name` equal `want` exactly, or (known finding) to within lim."""
        mesh, mp = (o[0], o[3]) if name == 'background' else (o[1], o[4])
        if not np.all(mp[cov] == dt(c['fill'])):
            fails.append(('Background2D:coverage-fill', f'{name} != fill_value on the coverage mask ({cls}, {cfg})'))
        if np.ptp(mesh) == 0 and not np.all(mp[~cov] == mesh.flat[0]):
            fails.append(('Background2D:constant-image', f'{name}: constant mesh {mesh.flat[0]!r} but the map is not that '
                          f'constant ({cls}, {cfg})'))
        dev = max(float(np.max(np.abs(mesh.astype(float) - want))),
                  float(np.max(np.abs(mp[~cov].astype(float) - want))) if (~cov).any() else 0.0)
        if not (dev == dev):
            dev = math.inf
        if dev == 0:
            count(f'exact:{cls}')
        elif known is not None and dev <= lim + 8 * u:
            count(f'known_inexact:{cls}')
            fails.append((known, f'constant image {cval!r} ({data.dtype}, box {c["box"]}): {name} with {cls} deviates from '
                          f'{want!r} by {dev:.3g} (bound {lim + 8 * u:.3g})'))
        else:
            fails.append(('Background2D:constant-image', f'constant image {cval!r}: {name} with {cls} deviates from {want!r} by '
                          f'{dev:.3g}' + (f' > bound {lim + 8 * u:.3g}' if known else ' (must be exact)') + f' ({cfg})'))

    ref = obs('MeanBackground', 'StdBackgroundRMS')
    if ref is None:
        return [], {'all_excluded': 1}
    ref1 = ref if c['fsize'] == (1, 1) else obs('MeanBackground', 'StdBackgroundRMS', (1, 1))
    mean1, std1, excl = ref1[0], ref1[1], ref1[5]
    kept = ~excl
    mean_exact = (mean1 == dt(cval))
    count('cases_mean_exact_in_every_box' if np.all(mean_exact[kept]) else 'cases_float_mean_of_copies_not_c')
    check(ref, 'background', 'MeanBackground', cval, KNOWN_MEAN, bound)
    check(ref, 'background_rms', 'StdBackgroundRMS', 0.0, KNOWN_STD, bound)
    if np.any(std1[kept & mean_exact] != 0):
        fails.append(('Background2D:constant-image', f'StdBackgroundRMS of a box whose mean is exactly c is not 0 ({cfg})'))
    for bkg, rms in (('MedianBackground', 'MADStdBackgroundRMS'), ('BiweightLocationBackground', 'BiweightScaleBackgroundRMS')):
        o = obs(bkg, rms)
        if o is None:
            fails.append(('Background2D:raises', f'all boxes excluded with {bkg} but not with MeanBackground ({cfg})'))
            continue
        check(o, 'background', bkg, cval)
        check(o, 'background_rms', rms, 0.0)
    # SExtractor (the default estimator): exact (std == 0 -> mean = c; std != 0 -> |mean - median| / std = 1 -> median)
    o = obs('SExtractorBackground', 'StdBackgroundRMS')
    if o is not None:
        check(o, 'background', 'SExtractorBackground', cval)
    o1 = o if c['fsize'] == (1, 1) else obs('SExtractorBackground', 'StdBackgroundRMS', (1, 1))
    if o1 is not None:
        z = kept & (std1 == 0)
        if not np.array_equal(o1[0][z], mean1[z]):
            i, j = np.argwhere(z & (o1[0] != mean1))[0]
            fails.append(('Background2D:constant-image', f'constant image: SExtractorBackground mesh[{i},{j}] = {o1[0][i, j]!r} '
                          f'but the box has std 0 and mean {mean1[i, j]!r} ({cfg})'))
    # Mode / MMM: 3 * median - 2 * mean by definition
    for bkg in ('ModeEstimatorBackground', 'MMMBackground'):
        o1 = obs(bkg, 'StdBackgroundRMS', (1, 1))
        if o1 is None:
            continue
        want = (3.0 * np.full(mean1.shape, cval, dtype=data.dtype)) - (2.0 * mean1)
        if not np.array_equal(o1[0][kept], want[kept]):
            i, j = np.argwhere(kept & (o1[0] != want))[0]
            fails.append(('Background2D:mesh-value', f'constant image: {bkg} mesh[{i},{j}] = {o1[0][i, j]!r} != 3*median - 2*mean '
                          f'= {want[i, j]!r} ({cfg})'))
        o = o1 if c['fsize'] == (1, 1) else obs(bkg, 'StdBackgroundRMS')
        if o is not None:
            check(o, 'background', bkg, cval, KNOWN_MODE, (2 * nbox + 4) * u)
    seen, out = set(), []
    for f in fails:                      # one entry per signature and class is enough
        if (f[0], f[1][:60]) not in seen:
            seen.add((f[0], f[1][:60]))
            out.append(f)
    return out[:6], st


# --------------------------------------------------------------------------
# integer images: mask- and coverage-mask-blindness must be bitwise, whatever is stored under the masks
# --------------------------------------------------------------------------
INT_DTYPES = ['int32', 'uint16', 'int64', 'int16', 'uint32', 'uint8']


def gen_intblind(seed, k):
    rng = random.Random(seed)
    g = np.random.default_rng(seed)
    dtype = np.dtype(INT_DTYPES[k % len(INT_DTYPES)])
    info = np.iinfo(dtype)
    ny, nx = rng.randint(4, 28), rng.randint(4, 28)
    box = (gen_box(rng, ny), gen_box(rng, nx))
    top = min(info.max, 2 ** 31 - 1)
    # data magnitudes from a few counts up to the top of the dtype (2**24 .. 2**31 for the wide ones)
    level = (int(2.0 ** rng.uniform(12 if top > 2 ** 16 else 2, math.log2(top))) if rng.random() < 0.8
             else rng.choice([2 ** 24 - 3, 2 ** 24, 10 ** 6, 16_000_000]))
    level = max(0, min(level, top - 1))
    amp = max(1, min(level // rng.choice([2, 16, 1024]), 2 ** 20, top - level))
    data = level + g.integers(-amp if info.min < 0 or level >= amp else 0, amp + 1, (ny, nx))
    data = np.clip(data, info.min, info.max).astype(dtype)
    mk = rng.choice(['random', 'block', 'band', 'one', 'none'])
    ck = rng.choice(['random', 'block', 'one', 'none', 'none'])
    if mk == 'none' and ck == 'none':
        mk = 'random'
    c = dict(seed=seed, k=k, mdt=_mdt(seed), data=data, box=box, mask=None if mk == 'none' else _mask(rng, ny, nx, mk),
             cov=None if ck == 'none' else _mask(rng, ny, nx, ck), p=rng.choice([10, 50, 90, 100]),
             fsize=rng.choice([(1, 1), (3, 3), (3, 1)]), fthr=None, interp=rng.choice(['zoom', 'zoom', 'idw']),
             fill=rng.choice([0.0, 7.0, -2.0 if info.min < 0 else 3.0]), sclip=rng.choice([None, 3.0]),
             bkg=BKG[k % len(BKG)], rms=RMS[(k // 2) % len(RMS)], level=level)
    if rng.random() < 0.4:
        c['fthr'] = float(level)
    return c


def run_intblind(c):
    """Two (three) runs that differ only in the values stored under mask / coverage_mask: every observable
    (meshes, maps, medians, npixels, excluded set) must be bitwise identical."""
    rng = random.Random(c['seed'] ^ 0x1b7)
    data = c['data']
    info = np.iinfo(data.dtype)
    hidden = np.zeros(data.shape, bool)
    for m in (c['mask'], c['cov']):
        if m is not None:
            hidden |= m
    cfg = f"{data.dtype}/{data.shape}/box={c['box']}/level={c['level']}/{c['bkg']}/{c['rms']}/{c['interp']}/filter={c['fsize']}/thr={c['fthr']}/clip={c['sclip']}"
    runs = []
    for junk in (['like'], [0, 'like'], [info.max], [info.min, info.max, 0, 'like', min(info.max, 2 ** 31 - 1), min(info.max, 2 ** 24)]):
        d = data.copy()
        for (y, x) in zip(*np.nonzero(hidden)):
            j = rng.choice(junk)
            d[y, x] = data[rng.randrange(data.shape[0]), rng.randrange(data.shape[1])] if j == 'like' else j
        runs.append((junk, _obs_rel(c, d)))
    fails = []
    names = ['background_mesh', 'background_rms_mesh', 'npixels_mesh', 'background', 'background_rms', 'excluded meshes',
             'background_median', 'background_rms_median']
    j0, o0 = runs[0]
    for junk, o in runs[1:]:
        if (o0 is None) != (o is None):
            fails.append(('Background2D:mask-blind', f'"all boxes excluded" is raised or not depending on the values under '
                          f'mask / coverage_mask (junk {junk}) ({cfg})'))
            continue
        if o0 is None:
            continue
        for n, a, b in zip(names, o0, o):
            if not np.array_equal(a, b, equal_nan=True):
                dev = float(np.max(np.abs(np.asarray(a, float) - np.asarray(b, float)))) if np.shape(a) == np.shape(b) else math.inf
                fails.append(('Background2D:mask-blind', f'{n} changes (by up to {dev:.4g}) when the values under mask / '
                              f'coverage_mask change from data-like to {junk} ({cfg})'))
                break
    if o0 is not None:
        cov = c['cov'] if c['cov'] is not None else np.zeros(data.shape, bool)
        for nm, mp in (('background', o0[3]), ('background_rms', o0[4])):
            if mp.shape != data.shape or not np.all(np.isfinite(mp)):
                fails.append(('Background2D:nonfinite-map', f'{nm} has the wrong shape or non-finite pixels ({cfg})'))
            elif not np.all(mp[cov] == np.asarray(c['fill']).astype(mp.dtype)):
                fails.append(('Background2D:coverage-fill', f'{nm} != fill_value on a coverage_mask pixel ({cfg})'))
    return fails[:3], o0 is not None


# --------------------------------------------------------------------------
# worker: the same cases with bottleneck disabled
# --------------------------------------------------------------------------
def worker_main():
    core_seeds, rel_seeds, const_seeds = json.load(sys.stdin)
    import photutils.utils._stats as st
    out = {'bn_disabled': not hasattr(st, 'bn_funcs'), 'k': {}, 'rel': {}, 'const': {}}
    for s, k in const_seeds:
        try:
            out['const'][str(s)] = run_constant(gen_constant(s, k))[0]
        except Exception as e:  # noqa: BLE001
            out['const'][str(s)] = [['Background2D:raises:' + type(e).__name__, repr(e)[:300]]]
    for s in core_seeds:
        c = gen_case(s)
        try:
            o = run_impl(c)
            out['k'][str(s)] = None if o is None else {k: (np.asarray(v, float).tolist()) for k, v in o.items()}
        except Exception as e:  # noqa: BLE001
            out['k'][str(s)] = {'error': repr(e)}
    for s, combo in rel_seeds:
        c = gen_rel(s, combo)
        try:
            fails, base = run_relations(c)
            out['rel'][str(s)] = {'fails': fails, 'base': None if base is None else [np.asarray(v, float).tolist() for v in base]}
        except Exception as e:  # noqa: BLE001
            out['rel'][str(s)] = {'error': repr(e)}
    json.dump(out, sys.stdout)


def run_worker(core_seeds, rel_seeds, const_seeds=()):
    env = dict(os.environ, C11_NO_BN='1')
    p = subprocess.run([sys.executable, '-W', 'ignore', '-m', 'harness.c11', '--worker'], cwd=str(VERIF), env=env,
                       input=json.dumps([core_seeds, rel_seeds, list(const_seeds)]), capture_output=True, text=True, timeout=1500)
    if p.returncode != 0:
        raise RuntimeError('bottleneck-less worker failed: ' + p.stderr[-1500:])
    return json.loads(p.stdout)


def _cmp_nested(a, b, tol):
    a, b = np.asarray(a, float), np.asarray(b, float)
    return a.shape == b.shape and bool(np.all(np.abs(a - b) <= tol * (1 + np.abs(b))))


# --------------------------------------------------------------------------
def run(ctx):
    # C11S: sigma-clip model + equivariance; C11E: the background / RMS estimator classes as instances of the
    # section variables of C11 (affine laws, constant case, hull)
    ctx.build_with_translator(FILES, after_files=['C11S_Model.v', 'C11S_Proofs.v', 'C11S_Properties.v',
                                                  'C11E_Model.v', 'C11E_Proofs.v', 'C11E_Properties.v'])
    from . import c11s, c11e
    c11s.run_sigma_clip_correspondence(ctx, 300 if ctx.tier == 'quick' else 3000)
    c11e.run_estimator_correspondence(ctx, 300 if ctx.tier == 'quick' else 3000)
    quick = ctx.tier == 'quick'
    ctx.cov['rule'] = (
        'K: random images 1..12 x 1..12 on the quarter-integer lattice (float64 -> bottleneck dispatch, float32 -> '
        'numpy dispatch; noise / ramp / constant / two-level; NaN and inf pixels), box sizes dividing the image, '
        'not dividing it (extra row / column / corner paths), equal to or larger than the image, 1 or 2; mask and '
        'coverage mask none / random / block / band / single pixel; exclude_percentile in {0,10,12.5,20,25,30,50,'
        '75,90,100}; filter sizes 1,3,(1,3),(3,1),(5,3),5 with and without filter_threshold; Zoom(clip) / '
        'Zoom(no clip) / IDW interpolators; Mean/Median + Std estimators, sigma_clip=None. A case is non-trivial '
        'when at least one box is kept and one pixel is masked, non-finite, padded or excluded; distinct = '
        'distinct full description. Relations (support): the 6 x 3 x 2 combinations of background estimator x RMS '
        'estimator x interpolator class are visited in turn (relation_combos), with and without sigma clipping, '
        'exclude_percentile in {0,10,25,50,90,100}, images up to 24x24; cases repeated in a subprocess with '
        'bottleneck disabled. The model mirrors the REPAIRED code (fixes/C11-1, C11-2).')
    ctx.assumptions += [
        'edge_method="crop" (deprecated) and astropy units are not modelled',
        'sigma clipping, the estimators other than mean/median/std, Shepard IDW and scipy.ndimage.zoom are section '
        'variables of the model; clauses that depend on them are proved under explicit hypotheses (partial) and '
        'tested numerically (support_tests)',
        'integer input images are excluded (documented integer-output rounding, see C15)',
        'float threshold (1 - p/100.0) * box_npixels: cases are compared only when the float separates the integers '
        'like the exact rational does (decision-margin rule); skipped cases are counted',
        'background_mesh is always read before background_rms_mesh (the opposite order with filter_threshold set '
        'raises TypeError: DESIGN.md section-6 defect 8, owned by C09, fixes/C09-1)',
        'the IDW values of excluded meshes and the zoom / IDW upscaling are taken from the implementation (oracle '
        'inputs of the model); the model checks them only through the clip to the range of the kept meshes, the '
        'ptp == 0 branch, the clip to the mesh range and the coverage fill',
    ]
    ctx.cov['partial_clauses'] = [
        'shift_scale_equivariant_partial: proved for the whole pipeline (incl. filter_threshold) under the premises '
        'that sigma clip commutes with v -> k*v+c, the background estimator is equivariant, the RMS estimator scales '
        'by k and ignores c (on non-empty samples), and the Shepard fill, the window median and the upscaling '
        '(zoom / IDW) are equivariant under v -> a*v+b, a>0; premises shown satisfiable (mean, exact median); '
        'tested on every estimator x RMS x interpolator class',
        'constant_image_exact: premises est(const sample)=const, rms(const sample)=0, clip only removes values, '
        'median(const window)=const; discharged in Coq for Mean/Median/Std/sigma_clip=None/window median '
        '(constant_image_exact_mean_median_std), tested for the other estimator classes',
        'finite_everywhere_partial: the model proves the preconditions (a kept box exists whenever maps are '
        'returned; estimators only see non-empty samples of finite unmasked pixels; every cell/pixel defined); that '
        'the estimators, Shepard IDW, nanmedian and scipy zoom return finite floats on such input is tested only',
        'mesh value = estimator(sigma-clipped unmasked box pixels): proved for any estimator/clip as parameters of '
        'the model; numerically tied for mean, median, std with sigma_clip=None only (sigma clipping itself and the '
        'other estimators are exercised through the relations)',
        'within_mesh_range is full in the model (the clip of BkgZoomInterpolator is modelled); that numpy.clip '
        'implements it is tied by stage C of the correspondence',
    ]
    n = 420 if quick else 4000
    nrel = 288 if quick else 1512
    seeds = [ctx.rng.randrange(1 << 40) for _ in range(n)]
    cases, impl, terms, idx = [], [], [], []
    for c in directed_cases() + [gen_case(s) for s in seeds]:
        ctx.stat('generator', 'directed' if c['seed'] is None else 'random')
        if not margin_ok(c):
            ctx.stat('generator', 'skipped_float_threshold_margin')
            continue
        ny, nx = c['data'].shape
        by, bx = min(c['box'][0], ny), min(c['box'][1], nx)
        try:
            o = run_impl(c)
        except Exception as e:  # noqa: BLE001
            ctx.violation('Background2D:raises:' + type(e).__name__, f'Background2D raised {e!r}'[:300],
                          {'case': describe(c)})
            ctx.count_case(describe(c))
            continue
        ctx.stat('dtype', str(c['data'].dtype))
        ctx.stat('data', c['kind'])
        ctx.stat('geometry', ('box>=image' if by == ny and bx == nx else
                              ('divides' if ny % by == 0 and nx % bx == 0 else
                               ('corner' if ny % by and nx % bx else ('extra_row' if ny % by else 'extra_col')))))
        ctx.stat('mask', c['mk'])
        ctx.stat('coverage', c['ck'])
        ctx.stat('exclude_percentile', str(c['p']))
        ctx.stat('filter', f"{c['fsize']}{'' if c['fthr'] is None else '+thr'}")
        ctx.stat('interpolator', c['interp'])
        ctx.stat('estimator', c['est'])
        ctx.stat('result', 'all_excluded_error' if o is None else
                 ('some_excluded' if o['excl'].any() else 'all_kept'))
        nontrivial = o is not None and (o['excl'].any() or c['mask'] is not None or c['cov'] is not None
                                        or (ny % by or nx % bx) or not np.all(np.isfinite(c['data'])))
        ctx.count_case(describe(c), bool(nontrivial))
        if o is not None:
            thr = (1 - pfrac(c['p']) / 100) * by * bx
            if np.any((o['npix'] == thr) & (o['npix'] > 0)):
                ctx.stat('generator', 'cases_with_box_exactly_on_threshold')
            if not all(np.all(np.isfinite(o[k])) for k in ('b0', 'r0', 'bF', 'rF', 'bmap', 'rmap')):
                for sig, msg in oracle(c, o) or [('Background2D:nonfinite-map', 'non-finite output')]:
                    ctx.violation(sig, msg, {'case': describe(c)})
                continue
        with_maps = ny * nx <= 80 or (len(cases) % 3 == 0)
        cases.append(c)
        impl.append(o)
        terms.append(to_coq(c, o, with_maps))
        # clauses that need no model, on every case
        if o is not None:
            for sig, msg in map_oracle(c, o['bF'], o['bmap'], 'background') + map_oracle(c, o['rF'], o['rmap'], 'background_rms'):
                ctx.violation(sig, msg, {'case': describe(c)})
            for sig, msg in (interp_oracle(c, o['bF'], o['excl'], o['bmap'], 'background') +
                             interp_oracle(c, o['rF'], o['excl'], o['rmap'], 'background_rms')):
                ctx.violation(sig, msg, {'case': describe(c)}, found_input=False)
            if o['bmed'] != float(np.median(o['bF'])) or o['rmed'] != float(np.median(o['rF'])):
                ctx.violation('Background2D:background_median', 'background_median / background_rms_median != median of '
                              'the corresponding mesh', {'case': describe(c)})
    ctx.sample({'case': describe(cases[0]),
                'impl': None if impl[0] is None else {k: np.asarray(v).tolist() for k, v in impl[0].items()}})
    bad = ctx.coq_eval_cases(['C11_Model'], 'check_case', terms, case_type='case', shard_numerals=12000)
    ctx.stat('coq', 'disagreements', len(bad))
    for i in bad[:25]:
        c, o = cases[i], impl[i]
        fails = oracle(c, o)
        detail = {'case': describe(c), 'impl': None if o is None else {k: np.asarray(v).tolist() for k, v in o.items()},
                  'cmd': 'bin/check C11 --replay <this file>'}
        if len(bad) < 40:
            try:
                detail['model_stage_A'] = ctx.coq_eval_term(['C11_Model'], f'model_out {terms[i]}')[:4000]
            except Exception as e:  # noqa: BLE001
                detail['model_stage_A'] = 'n/a: ' + str(e)[:200]
        nb = None if fails else const_neighbour(c)
        if fails:
            for sig, msg in fails[:3]:
                ctx.violation(sig, msg, detail)
        elif nb is not None:
            c2, o2, f2 = nb
            ctx.violation(f2[0][0], f2[0][1] + ' (found in the neighbourhood of a model/implementation mismatch: same '
                          'geometry, masks and configuration, constant data)',
                          {'case': describe(c2), 'impl': {k: np.asarray(v).tolist() for k, v in o2.items()},
                           'mismatching_case': describe(c)})
        elif o is not None and idw_outside_range(o):
            ctx.violation('Background2D:idw-fill-outside-range',
                          'the IDW value of an excluded mesh lies outside the range of the kept meshes by round-off '
                          '(repaired by fixes/C11-2; root cause of Background2D:constant-image, the property itself '
                          'holds on this input)', detail, found_input=False)
        else:
            ctx.violation('correspondence:C11_Model.check_case', 'model and implementation disagree but the '
                          'independent oracle accepts the output', detail, found_input=False)

    # ---- support relations, in process (bottleneck enabled) ----
    rel_seeds = [(ctx.rng.randrange(1 << 40), k) for k in range(nrel)]
    rel_base = {}
    for s, combo in rel_seeds:
        c = gen_rel(s, combo)
        try:
            fails, base = run_relations(c)
        except Exception as e:  # noqa: BLE001
            fails, base = [('Background2D:raises:' + type(e).__name__, f'Background2D raised {e!r}'[:300])], None
        rel_base[s] = base
        ctx.stat('relations', f"{c['bkg']}")
        ctx.stat('relations', f"{c['rms']}")
        ctx.stat('relations', 'interp=' + c['interp'])
        ctx.stat('relations', 'sigma_clip=' + str(c['sclip']))
        ctx.stat('relation_combos', f"{c['bkg']}/{c['rms']}/{c['interp']}")
        rny, rnx = c['data'].shape
        rby, rbx = min(c['box'][0], rny), min(c['box'][1], rnx)
        ctx.stat('relations', 'geometry=' + ('box>=image' if rby == rny and rbx == rnx else
                                             ('divides' if rny % rby == 0 and rnx % rbx == 0 else 'padded')))
        ctx.stat('relations', 'result=' + ('all_excluded_error' if base is None else 'maps'))
        ctx.count_case(rel_describe(c), base is not None)
        for sig, msg in fails:
            ctx.violation(sig, msg, {'case': rel_describe(c), 'seed': s, 'combo': combo},
                          found_input=(sig != 'Background2D:interpolator-reference'))
        for k, v in c.get('_mstats', {}).items():
            ctx.stat('mesh_reference', k, v)
        for k, v in c.get('_rstats', {}).items():
            ctx.stat('relations', k, v)
        ctx.stat('relations', 'scene=' + c.get('scene', 'lattice'))
        if base is not None and float(np.max(np.abs(base[0]))) > 0:
            ratio = float(np.ptp(base[0])) / float(np.max(np.abs(base[0])))
            ctx.stat('relations', 'mesh_spread/level=' + ('0' if ratio == 0 else f'1e{int(np.floor(np.log10(ratio)))}'))
    for name in ('mesh_equals_reference_estimator_of_reference_clipped_block', 'map_equals_reference_interpolation',
                 'map_not_constant_and_through_mesh_values_at_box_centres', 'mask_blind_bitexact', 'shape_finite_fill_range', 'constant_image_exact', 'scale_pow2_bitexact',
                 'scale_nondyadic_1e-12..1e12_rounding_tolerance', 'shift_exact_quantum_multiple_up_to_2^50', 'shift_arbitrary_1e-3..1e8_rounding_tolerance'):
        ctx.support(name, nrel)

    # ---- large boxes, high levels, float32 / integer images ----
    nbig = 15 if quick else 60
    for k in range(nbig):
        sd = ctx.rng.randrange(1 << 40)
        c = gen_bigbox(sd, k)
        try:
            bf = run_bigbox(c)
        except Exception as e:  # noqa: BLE001
            bf = [('Background2D:raises:' + type(e).__name__, f'Background2D raised {e!r}'[:300])]
        ctx.stat('bigbox', f"{c['data'].dtype}/{c['kind']}")
        ctx.stat('bigbox', 'box_npixels*level>2^24' if min(c['box'][0], c['data'].shape[0]) * min(c['box'][1], c['data'].shape[1]) * c['level'] > 2 ** 24 else 'box_npixels*level<=2^24')
        ctx.count_case({'bigbox': sd, 'k': k}, True)
        for sig, msg in bf:
            ctx.violation(sig, msg, {'bigbox': sd, 'k': k})
    ctx.support('large_box_high_level_float32_integer_mesh_reference_constant_shift', nbig)
    # ---- sequences of objects sharing the default / one explicit interpolator instance ----
    nseq = 40 if quick else 300
    for _ in range(nseq):
        sd = ctx.rng.randrange(1 << 40)
        try:
            sf = run_sequence(sd)
        except Exception as e:  # noqa: BLE001
            sf = [('Background2D:raises:' + type(e).__name__, f'Background2D raised {e!r}'[:300])]
        ctx.stat('sequences', gen_sequence(sd)[3])
        ctx.count_case({'sequence': sd}, True)
        for sig, msg in sf:
            ctx.violation(sig, msg, {'sequence': sd})
    ctx.support('object_sequences_sharing_interpolator_equal_isolated_runs_and_no_aliasing', nseq)

    # ---- constant images with arbitrary constants, every estimator class ----
    ncon = 150 if quick else 1200
    const_seeds = []
    for k in range(ncon):
        sd = ctx.rng.randrange(1 << 40)
        const_seeds.append((sd, k))
        c = gen_constant(sd, k)
        try:
            cf, cst = run_constant(c)
        except Exception as e:  # noqa: BLE001
            cf, cst = [('Background2D:raises:' + type(e).__name__, f'Background2D raised {e!r}'[:300])], {}
        ctx.stat('constants', f"{c['data'].dtype}/{c['ckind']}")
        for kk, v in cst.items():
            ctx.stat('constants', kk, v)
        ctx.count_case({'constant': sd, 'k': k}, True)
        for sig, msg in cf:
            ctx.violation(sig, msg, {'constant': sd, 'k': k})
    ctx.support('constant_image_arbitrary_constants_every_estimator_class', ncon)

    # ---- integer images: bitwise mask / coverage-mask blindness ----
    nint = 90 if quick else 900
    for k in range(nint):
        sd = ctx.rng.randrange(1 << 40)
        c = gen_intblind(sd, k)
        try:
            jf, okmaps = run_intblind(c)
        except Exception as e:  # noqa: BLE001
            jf, okmaps = [('Background2D:raises:' + type(e).__name__, f'Background2D raised {e!r}'[:300])], False
        ctx.stat('integer_mask_blind', str(c['data'].dtype))
        ctx.stat('integer_mask_blind', 'level>=2^24' if c['level'] >= 2 ** 24 else ('level>=2^16' if c['level'] >= 2 ** 16 else 'level<2^16'))
        ctx.stat('integer_mask_blind', 'maps' if okmaps else 'all_excluded_error')
        ctx.count_case({'intblind': sd, 'k': k}, okmaps)
        for sig, msg in jf:
            ctx.violation(sig, msg, {'intblind': sd, 'k': k})
    ctx.support('integer_dtype_mask_and_coverage_blind_bitwise', nint)

    # ---- everything again with bottleneck disabled ----
    kseeds = [c['seed'] for c in cases if c['seed'] is not None][: (150 if quick else 1200)]
    rsub = rel_seeds[: (108 if quick else 612)]
    csub = const_seeds[: (60 if quick else 400)]
    w = run_worker(kseeds, rsub, csub)
    for sd, k in csub:
        for sig, msg in w['const'][str(sd)]:
            ctx.violation(sig, msg + ' [bottleneck disabled]', {'constant': sd, 'k': k, 'bottleneck': False})
    ctx.support('constant_image_arbitrary_constants_without_bottleneck', len(csub))
    if not w['bn_disabled']:
        ctx.violation('harness-error:bottleneck-still-enabled', 'worker could not disable bottleneck', {}, found_input=False)
    by_seed = {c['seed']: (c, o) for c, o in zip(cases, impl)}
    for s in kseeds:
        c, o = by_seed[s]
        wo = w['k'][str(s)]
        ok = (o is None and wo is None) or (o is not None and wo is not None and 'error' not in wo and
                                            np.array_equal(o['npix'], np.asarray(wo['npix'])) and
                                            np.array_equal(o['excl'], np.asarray(wo['excl']).astype(bool)) and
                                            all(_cmp_nested(wo[k], o[k], 1e-5 if c['data'].dtype == np.float32 else 1e-11)
                                                for k in ('b0', 'r0', 'bF', 'rF', 'bmap', 'rmap')))
        if not ok:
            ctx.violation('Background2D:bottleneck-dispatch', 'results differ with and without bottleneck',
                          {'case': describe(c), 'without_bottleneck': wo})
    ctx.support('without_bottleneck_same_observables', len(kseeds))
    for s, combo in rsub:
        r = w['rel'][str(s)]
        c = gen_rel(s, combo)
        if 'error' in r:
            ctx.violation('Background2D:raises-without-bottleneck', r['error'][:300],
                          {'case': rel_describe(c), 'seed': s, 'combo': combo})
            continue
        for sig, msg in r['fails']:
            ctx.violation(sig, msg + ' [bottleneck disabled]', {'case': rel_describe(c), 'seed': s, 'combo': combo,
                                                                'bottleneck': False})
        b = rel_base[s]
        if (b is None) != (r['base'] is None) or (b is not None and not (
                np.array_equal(b[2], np.asarray(r['base'][2])) and
                all(_cmp_nested(r['base'][k], b[k], 1e-4 if c['data'].dtype == np.float32 else 1e-9) for k in (0, 1, 3, 4)))):
            # sigma clipping decisions are discontinuous: only report when no clipping is involved
            if c['sclip'] is None and c['bkg'] != 'SExtractorBackground':
                ctx.violation('Background2D:bottleneck-dispatch', 'results differ with and without bottleneck',
                              {'case': rel_describe(c), 'seed': s, 'combo': combo})
            else:
                ctx.stat('relations', 'bn_vs_numpy_differs_with_discontinuous_estimator')
    ctx.support('relations_without_bottleneck', len(rsub))


def replay(obj):
    r = obj['replay']
    d = r.get('case', r)
    if 'bigbox' in r:
        fails = run_bigbox(gen_bigbox(r['bigbox'], r['k']))
    elif 'sequence' in r:
        fails = run_sequence(r['sequence'])
    elif 'intblind' in r:
        fails, _ = run_intblind(gen_intblind(r['intblind'], r['k']))
    elif 'constant' in r:
        fails, _ = run_constant(gen_constant(r['constant'], r['k']))
    elif d.get('relation'):
        c = gen_rel(r['seed'], r.get('combo'))
        if r.get('bottleneck') is False:
            print('(this relation failed with bottleneck disabled; replaying with the default dispatch)')
        fails, _ = run_relations(c)
    else:
        c = undescribe(d)
        try:
            o = run_impl(c)
        except Exception as e:  # noqa: BLE001
            print('Background2D raised', repr(e))
            return 1
        print('impl:', None if o is None else {k: np.asarray(v).tolist() for k, v in o.items() if k in ('npix', 'excl', 'b0', 'bF')})
        fails = oracle(c, o)
    for sig, msg in fails:
        print('FAILS', sig, msg)
    print('property holds on this input' if not fails else 'property FAILS on this input')
    return 1 if fails else 0


if __name__ == '__main__':
    if '--worker' in sys.argv:
        from .core import setup_repo_path
        setup_repo_path()
        worker_main()
