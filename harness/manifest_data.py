"""Per-property metadata for MANIFEST.json (bin/mkmanifest)."""
HOOK_COMMITS = []
NOT_APPLICABLE = {}
CHECKS = {
 'C04': {
  'technique': 'Coq proof (connected-component labelling model, induction/fixpoint invariant) + correspondence by vm_compute',
  'text': 'Machine-checked theorems (detect_total, detect_spec, detect_none_iff, component sizes, strict/unmasked/finite foreground) '
          'about a Gallina model of _detect_sources for every image size, data, threshold, mask, connectivity and npixels; the model is '
          'tied to /repo on every run by evaluating it in Coq on the cases the real detect_sources ran (whole label array, labels, '
          'areas, slices compared exactly). A proof is the right level because the property is a statement about all images including '
          'ties, plateaus and diagonal contacts.',
  'note': 'Trusted: Coq kernel + vm_compute; the correspondence harness; scipy.ndimage.label/find_objects are covered only through the '
          'end-to-end comparison; detect_threshold with sigma clipping is compared numerically (background + nsigma*error form only). '
          'Axioms: none.',
 },
}

# per-property entries delivered by the property workers: harness/manifest/CNN.json = {"technique", "text", "note"}
import glob as _glob, json as _json, os as _os
for _f in sorted(_glob.glob(_os.path.join(_os.path.dirname(__file__), 'manifest', 'C*.json'))):
    CHECKS[_os.path.basename(_f)[:-5]] = _json.load(open(_f))
