"""Per-property metadata for MANIFEST.json (bin/mkmanifest)."""
HOOK_COMMITS = []
NOT_APPLICABLE = {}
CHECKS = {}

# per-property entries delivered by the property workers: harness/manifest/CNN.json = {"technique", "text", "note"}
import glob as _glob, json as _json, os as _os
for _f in sorted(_glob.glob(_os.path.join(_os.path.dirname(__file__), 'manifest', 'C*.json'))):
    CHECKS[_os.path.basename(_f)[:-5]] = _json.load(open(_f))
