"""C05 — SegmentationImage attributes always describe the current label array.

K: every history (initial object + list of public mutators / attribute reads) is run on the
   real API; after each step the outcome class, the value read, the label array, the set of
   cached lazyproperty keys in ``__dict__`` and ``_deblend_label_map`` are written into a Coq
   case and compared with the history machine of coq/C05_Model.v inside Coq.
V: property oracles in plain Python, independent of the model, after every step:
   documented set-theoretic effect of the mutator (computed from the previous array with
   dictionaries of Python ints), dtype preserved, state unchanged on an exception, no
   exception on documented arguments, and -- on deep copies of the object, one copy per
   attribute so that the object under test is not disturbed -- every public derived attribute
   equals that of ``SegmentationImage(data.copy())``; deblend bookkeeping names only labels
   that are present; one polygon / segment per label.
"""
import itertools
import json
import multiprocessing
import random
import warnings

import numpy as np

from .core import NCPU, coq

PID = 'C05'
FILES = ['lib/Cases.v', 'lib/Conn.v', 'C05_Model.v', 'C05_Proofs.v', 'C05_Properties.v']

ATTR_KEY = {
    'labels': 'KLabels', 'nlabels': 'KNLabels', 'max_label': 'KMaxLabel', '_raw_slices': 'KRaw',
    'slices': 'KSlices', '_ndim': 'KNdim', 'shape': 'KShape', 'bbox': 'KBbox', 'areas': 'KAreas',
    'background_area': 'KBgArea', 'is_consecutive': 'KIsConsec', 'missing_labels': 'KMissing',
    'data_ma': 'KDataMa', '_geo_polygons': 'KGeo', 'polygons': 'KPolygons', 'segments': 'KSegments',
    'deblended_labels': 'KDebLabels', 'deblended_labels_map': 'KDebMap',
    'deblended_labels_inverse_map': 'KDebInv', 'cmap': 'KCmap'}
ATTRS = list(ATTR_KEY)
DEB_ATTRS = ('deblended_labels', 'deblended_labels_map', 'deblended_labels_inverse_map')
POLY_ATTRS = ('_geo_polygons', 'polygons', 'segments')
DTYPES = ['int8', 'int16', 'int32', 'int64', 'uint8', 'uint16', 'uint32', 'uint64']
CODES = {'ValueError': 2, 'OverflowError': 3, 'TypeError': 4}
BIG = 1000

DOC = [[1, 1, 0, 0, 4, 4], [0, 0, 0, 0, 0, 4], [0, 0, 3, 3, 0, 0],
       [7, 0, 0, 0, 0, 5], [7, 7, 0, 5, 5, 5], [7, 7, 0, 0, 5, 5]]
DISC = [[1, 0, 1, 0, 2], [0, 0, 0, 0, 2], [3, 0, 0, 4, 0], [0, 3, 0, 0, 4], [1, 0, 0, 6, 6]]
RING = [[2, 2, 2, 0], [2, 6, 2, 0], [2, 2, 2, 9], [0, 0, 9, 9]]
NOBG = [[1, 1, 2], [3, 1, 2], [3, 3, 2]]
NOBG2 = [[5, 5], [9, 5]]
ZERO = [[0, 0, 0, 0], [0, 0, 0, 0], [0, 0, 0, 0]]
ONE = [[0, 0, 0], [0, 4, 0], [0, 0, 0]]
ROW = [[1, 0, 2, 2, 0, 1]]
COL = [[3], [3], [0], [1], [0]]
CONSEC = [[1, 1, 0, 2], [0, 3, 3, 2], [4, 0, 0, 0], [4, 4, 0, 5]]
FIXED = {'doc': DOC, 'disc': DISC, 'ring': RING, 'nobg': NOBG, 'nobg2': NOBG2, 'zero': ZERO,
         'one': ONE, 'row': ROW, 'col': COL, 'consec': CONSEC}


# --------------------------------------------------------------------------
# small helpers (Python ints only, so that nothing can overflow in the oracle)
# --------------------------------------------------------------------------
def ilist(a):
    return [[int(v) for v in row] for row in np.asarray(a)]


def labels_of(d):
    return sorted({v for row in d for v in row} - {0})


def dmap_list(obj):
    return [(int(k), [int(c) for c in v]) for k, v in obj._deblend_label_map.items()]


def sl4(s):
    return (int(s[0].start), int(s[0].stop), int(s[1].start), int(s[1].stop))


def bb4(b):
    return (int(b.iymin), int(b.iymax), int(b.ixmin), int(b.ixmax))


def poly_obs(p):
    """(number of parts, area, bounds as a half-open pixel slice) of a shapely geometry
    whose vertices are shifted by -0.5."""
    parts = list(getattr(p, 'geoms', [p]))
    minx, miny, maxx, maxy = p.bounds
    return (len(parts), int(round(p.area)),
            (int(round(miny + 0.5)), int(round(maxy + 0.5)), int(round(minx + 0.5)), int(round(maxx + 0.5))))


def geo_root(g, nx):
    """raster index of the first pixel of a rasterio shape = its top-most, then left-most
    exterior vertex."""
    ring = g['coordinates'][0]
    ymin = min(y for _, y in ring)
    xmin = min(x for x, y in ring if y == ymin)
    return int(ymin) * nx + int(xmin)


def n_parts(d, lab):
    """number of 8-connected parts of label lab in the list-of-lists d."""
    ny, nx = len(d), len(d[0])
    seen, n = set(), 0
    for y in range(ny):
        for x in range(nx):
            if d[y][x] == lab and (y, x) not in seen:
                n += 1
                st = [(y, x)]
                seen.add((y, x))
                while st:
                    cy, cx = st.pop()
                    for dy in (-1, 0, 1):
                        for dx in (-1, 0, 1):
                            yy, xx = cy + dy, cx + dx
                            if 0 <= yy < ny and 0 <= xx < nx and d[yy][xx] == lab and (yy, xx) not in seen:
                                seen.add((yy, xx))
                                st.append((yy, xx))
    return n


# --------------------------------------------------------------------------
# values -> Coq terms
# --------------------------------------------------------------------------
def zl(l):
    return '[' + '; '.join(coq(int(v)) for v in l) + ']'


def t4(t):
    return '(' + ', '.join(coq(int(v)) for v in t) + ')'


def poly_coq(p):
    n, a, b = p
    return f'({n}, {a}, {t4(b)})'


def val_coq(name, v, nx):
    if name in ('labels', 'areas', 'missing_labels', 'deblended_labels'):
        return f'(VL {zl(v)})'
    if name in ('nlabels', 'max_label', '_ndim', 'background_area'):
        return f'(VZ {coq(int(v))})'
    if name == 'is_consecutive':
        return f'(VB {coq(bool(v))})'
    if name == 'shape':
        return f'(VL {zl(v)})'
    if name == '_raw_slices':
        return '(VRaw [' + '; '.join('None' if s is None else f'Some {t4(sl4(s))}' for s in v) + '])'
    if name == 'slices':
        return '(VSl [' + '; '.join(t4(sl4(s)) for s in v) + '])'
    if name == 'bbox':
        return '(VSl [' + '; '.join(t4(bb4(b)) for b in v) + '])'
    if name == 'data_ma':
        return f'(VL {zl(np.ma.getmaskarray(v).astype(int).ravel())})'
    if name == '_geo_polygons':
        pairs = sorted((int(val), geo_root(g, nx)) for g, val in v)
        return '(VGeo [' + '; '.join(f'({r}%nat, {coq(val)})' for val, r in pairs) + '])'
    if name == 'polygons':
        return '(VPoly [' + '; '.join(poly_coq(poly_obs(p)) for p in v) + '])'
    if name == 'segments':
        return '(VSeg [' + '; '.join(
            f'({coq(int(s.label))}, {t4(sl4(s.slices))}, {t4(bb4(s.bbox))}, {coq(int(s.area))}, '
            f'{poly_coq(poly_obs(s.polygon))})' for s in v) + '])'
    if name == 'deblended_labels_map':
        return '(VPairs [' + '; '.join(f'({coq(int(c))}, {coq(int(p))})' for c, p in sorted(
            (int(c), int(p)) for c, p in v.items())) + '])'
    if name == 'deblended_labels_inverse_map':
        return f'(VMap {dm_coq([(int(k), [int(c) for c in cs]) for k, cs in v.items()])})'
    if name == 'cmap':
        return f'(VZ {coq(-1 if v is None else len(v.colors))})'
    raise KeyError(name)


def dm_coq(dm):
    return '[' + '; '.join(f'({coq(p)}, {zl(cs)})' for p, cs in dm) + ']'


def b(x):
    return 'true' if x else 'false'


def op_coq(op, assigned=None):
    k = op[0]
    if k in ('on', 'alias'):
        # an operation on ANOTHER image (or the creation of one) is the identity for the tracked image
        return 'Copy'
    if k == 'setdata_inplace':
        # in-place edit by the caller followed by an assignment = assignment of the edited contents
        d, dt = assigned
        ii = np.iinfo(dt)
        return (f'SetData true {len(d)}%nat {len(d[0])}%nat {zl([v for row in d for v in row])} '
                f'{coq(int(ii.min))} {coq(int(ii.max))}')
    if k == 'read':
        return f'Read {ATTR_KEY[op[1]]}'
    if k == 'reassign':
        return f'Reassign {zl(op[1])} {coq(op[2])} {b(op[3])}'
    if k == 'relabel_consecutive':
        return f'RelabelConsecutive {coq(op[1])}'
    if k == 'keep':
        return f'Keep {zl(op[1])} {b(op[2])}'
    if k == 'remove':
        return f'Remove {zl(op[1])} {b(op[2])}'
    if k == 'border':
        return f'RemoveBorder {coq(op[1])} {b(op[2])} {b(op[3])}'
    if k == 'masked':
        m = op[1]
        ny, nx = len(m), (len(m[0]) if m else 0)
        return (f'RemoveMasked {ny}%nat {nx}%nat [' + '; '.join(b(v) for row in m for v in row) +
                f'] {b(op[2])} {b(op[3])}')
    if k == 'setdata':
        d, dt = op[1], op[2]
        if dt.startswith('float'):
            return 'SetData false 0%nat 0%nat [] 0 0'
        ii = np.iinfo(dt)
        return (f'SetData true {len(d)}%nat {len(d[0])}%nat {zl([v for row in d for v in row])} '
                f'{coq(int(ii.min))} {coq(int(ii.max))}')
    if k == 'copy':
        return 'Copy'
    raise KeyError(k)


# --------------------------------------------------------------------------
# running the real API
# --------------------------------------------------------------------------
def make_obj(init):
    from photutils.segmentation import SegmentationImage, deblend_sources, detect_sources
    kind = init['kind']
    if kind == 'array':
        arr = np.array(init['data'], dtype=init['dtype'])
        obj = SegmentationImage(arr)
        obj._c05_ctor = arr          # the array the caller constructed the image from
        return obj
    img = np.array(init['image'], dtype=float)
    with warnings.catch_warnings():
        warnings.simplefilter('ignore')
        seg = detect_sources(img, init['threshold'], init['npixels'], connectivity=init['connectivity'])
        if seg is None or kind == 'detect':
            return seg
        return deblend_sources(img, seg, init['npixels'], nlevels=init['nlevels'], contrast=init['contrast'],
                               mode=init['mode'], connectivity=init['connectivity'], progress_bar=False)


def inplace_value(obj, op):
    """('setdata_inplace', source, edits, how): fetch the array object the image holds (through
    .data, ._data or the array the caller constructed it from), change its contents in place
    (labels removed / painted / swapped) and return (edited array, value to assign)."""
    _, source, edits, how = op
    arr = obj.data
    if source == '_data':
        arr = obj._data
    elif source == 'ctor' and getattr(obj, '_c05_ctor', None) is obj._data:
        arr = obj._c05_ctor
    hi = int(np.iinfo(arr.dtype).max)
    ny, nx = arr.shape
    for e in edits:
        if e[0] == 'zero':
            arr[arr == e[1]] = 0
        elif e[0] == 'paint' and 0 <= e[1] <= hi:
            for y, x in e[2]:
                if 0 <= y < ny and 0 <= x < nx:
                    arr[y, x] = e[1]
        elif e[0] == 'swap' and 0 < e[1] <= hi and 0 < e[2] <= hi:
            ma, mb = arr == e[1], arr == e[2]
            arr[ma], arr[mb] = e[2], e[1]
    if how == 'same':
        value = arr
    elif how == 'view':
        value = arr[:]
    elif how == 'view2':
        value = arr.view()
    elif how == 'copy':
        value = arr.copy()
    else:
        value = arr.astype(how.split(':')[1])
    return arr, value


def apply_op(obj, op, extra=None):
    """Run one op on the real object.  Returns (object to continue with, outcome code,
    exception name or None, value read or None).  extra (dict) receives the array handed to
    the data setter ('assigned') and the array edited in place ('edited')."""
    k = op[0]
    val = None
    newobj = obj
    extra = {} if extra is None else extra
    with warnings.catch_warnings(record=True) as w:
        warnings.simplefilter('always')
        try:
            if k == 'read':
                val = getattr(obj, op[1])
            elif k == 'reassign':
                ls = op[1]
                if len(ls) == 1 and op[4]:
                    obj.reassign_label(ls[0], op[2], relabel=op[3])
                else:
                    obj.reassign_labels(list(ls), op[2], relabel=op[3])
            elif k == 'relabel_consecutive':
                if op[1] == 1 and op[2]:
                    obj.relabel_consecutive()
                else:
                    obj.relabel_consecutive(start_label=op[1])
            elif k == 'keep':
                if len(op[1]) == 1 and op[3]:
                    obj.keep_label(op[1][0], relabel=op[2])
                else:
                    obj.keep_labels(list(op[1]), relabel=op[2])
            elif k == 'remove':
                if len(op[1]) == 1 and op[3]:
                    obj.remove_label(op[1][0], relabel=op[2])
                else:
                    obj.remove_labels(list(op[1]), relabel=op[2])
            elif k == 'border':
                obj.remove_border_labels(op[1], partial_overlap=op[2], relabel=op[3])
            elif k == 'masked':
                m = np.array(op[1], dtype=bool)
                if m.ndim != 2:
                    m = m.reshape(len(op[1]), 0)
                obj.remove_masked_labels(m, partial_overlap=op[2], relabel=op[3])
            elif k == 'setdata':
                extra['assigned'] = np.array(op[1], dtype=op[2])
                obj.data = extra['assigned']
            elif k == 'setdata_inplace':
                extra['edited'], extra['assigned'] = inplace_value(obj, op)
                obj.data = extra['assigned']
            elif k == 'copy':
                newobj = obj.copy()
            else:
                raise KeyError(k)
        except Exception as e:  # noqa: BLE001
            name = type(e).__name__
            return obj, CODES.get(name, 9), name, None
    warned = any('Cannot relabel' in str(x.message) for x in w)
    return newobj, (1 if warned else 0), None, val


# --------------------------------------------------------------------------
# V: the property, stated directly
# --------------------------------------------------------------------------
def site(op):
    k = op[0]
    if k == 'on':
        return site(tuple(op[2]))
    if k == 'setdata_inplace':
        return f'data.setter[{"same-array-object" if op[3] == "same" else op[3].split(":")[0] + "-of-held-array"}]'
    return {'read': 'read', 'reassign': 'reassign_labels', 'relabel_consecutive': 'relabel_consecutive',
            'keep': 'keep_labels', 'remove': 'remove_labels', 'border': 'remove_border_labels',
            'masked': 'remove_masked_labels', 'setdata': 'data.setter', 'setdata_inplace': 'data.setter',
            'copy': 'copy', 'alias': 'second-image-on-same-buffer'}[k]


def expected_effect(prev, op, hi, assigned=None):
    """Documented effect of op on the list-of-lists prev (labels are Python ints).
    Returns (documented_arguments, label function as dict or None, relabel flag / start).
    assigned = (contents, dtype) of the array handed to the data setter."""
    labs = labels_of(prev)
    ny, nx = len(prev), len(prev[0])
    k = op[0]

    def okl(ls):
        return all(l > 0 and l in labs for l in ls)

    def consec(g, start=1):
        rest = sorted(set(g.values()) - {0})
        rank = {l: start + i for i, l in enumerate(rest)}
        rank[0] = 0
        return {l: rank[g[l]] for l in g}

    ident = {l: l for l in labs}
    if k in ('read', 'copy'):
        return True, ident
    if k == 'reassign':
        ls, new, rel = op[1], op[2], op[3]
        g = {l: (new if l in ls else l) for l in labs}
        return okl(ls) and 0 <= new <= hi, (consec(g) if rel else g)
    if k == 'remove':
        g = {l: (0 if l in op[1] else l) for l in labs}
        return okl(op[1]), (consec(g) if op[2] else g)
    if k == 'keep':
        g = {l: (l if l in op[1] else 0) for l in labs}
        return okl(op[1]), (consec(g) if op[2] else g)
    if k == 'relabel_consecutive':
        start = op[1]
        return start >= 1 and start + len(labs) - 1 <= hi, consec(ident, start)
    if k in ('border', 'masked'):
        if k == 'border':
            w = op[1]
            ok = 0 <= w and 2 * w < min(ny, nx)
            inm = [[(y < w or y >= ny - w or x < w or x >= nx - w) for x in range(nx)] for y in range(ny)]
        else:
            m = op[1]
            ok = len(m) == ny and all(len(r) == nx for r in m) and (len(m) > 0)
            inm = m
        if not ok:
            return False, None
        inside = {prev[y][x] for y in range(ny) for x in range(nx) if inm[y][x]} - {0}
        outside = {prev[y][x] for y in range(ny) for x in range(nx) if not inm[y][x]} - {0}
        rem = inside if op[2] else inside - outside
        g = {l: (0 if l in rem else l) for l in labs}
        return True, (consec(g) if op[3] else g)
    if k == 'setdata':
        d, dt = op[1], op[2]
        ok = not dt.startswith('float') and all(v >= 0 for row in d for v in row)
        return ok, None
    if k == 'setdata_inplace':
        return all(v >= 0 for row in assigned[0] for v in row), None
    raise KeyError(k)


def poly_class(d):
    if all(v != 0 for row in d for v in row):
        return 'polygons:no-background-pixel'
    if any(n_parts(d, l) > 1 for l in labels_of(d)):
        return 'polygons:disconnected-label'
    return None


def canon(name, v):
    if name in ('labels',):
        return (str(v.dtype), [int(x) for x in v])
    if name in ('areas', 'missing_labels'):
        return [int(x) for x in v]
    if name in ('nlabels', 'max_label', '_ndim', 'background_area'):
        return int(v)
    if name == 'is_consecutive':
        return bool(v)
    if name == 'shape':
        return tuple(int(x) for x in v)
    if name == '_raw_slices':
        return [None if s is None else sl4(s) for s in v]
    if name == 'slices':
        return [sl4(s) for s in v]
    if name == 'bbox':
        return [bb4(x) for x in v]
    if name == 'data_ma':
        return (str(v.dtype), ilist(v.data), ilist(np.ma.getmaskarray(v)))
    if name == '_geo_polygons':
        return [(int(val), json.dumps(g, sort_keys=True)) for g, val in v]
    if name == 'polygons':
        return [p.wkt for p in v]
    if name == 'segments':
        return [(int(s.label), sl4(s.slices), bb4(s.bbox), int(s.area),
                 None if s.polygon is None else s.polygon.wkt, ilist(s.data)) for s in v]
    if name == 'cmap':
        return None if v is None else np.asarray(v.colors).round(12).tolist()
    if name == 'methods':
        return v
    raise KeyError(name)


def read_canon(o, name):
    try:
        if name == 'methods':
            labs = [int(x) for x in o.labels]
            v = (str(o).splitlines()[1:], [int(i) for i in o.get_indices(labs)] if labs else [],
                 [int(a) for a in o.get_areas(labs)] if labs else [],
                 ilist(o.make_source_mask()), ilist(np.asarray(o)))
            return v
        return canon(name, getattr(o, name))
    except Exception as e:  # noqa: BLE001
        return ('EXC', type(e).__name__, str(e)[:80])


FRESH_ATTRS = [a for a in ATTRS if a not in DEB_ATTRS] + ['methods']


def definitions(d):
    """what the attributes are documented to be, computed from the list-of-lists d alone"""
    ny, nx = len(d), len(d[0])
    labs = labels_of(d)
    px = {l: [(y, x) for y in range(ny) for x in range(nx) if d[y][x] == l] for l in labs}
    box = [(min(y for y, _ in px[l]), max(y for y, _ in px[l]) + 1,
            min(x for _, x in px[l]), max(x for _, x in px[l]) + 1) for l in labs]
    mx = max(labs) if labs else 0
    return {'labels': labs, 'nlabels': len(labs), 'max_label': mx, 'slices': box, 'bbox': box,
            'areas': [len(px[l]) for l in labs], 'background_area': sum(v == 0 for r in d for v in r),
            'is_consecutive': bool(labs) and labs == list(range(1, len(labs) + 1)),
            'missing_labels': [i for i in range(1, mx + 1) if i not in labs], 'shape': (ny, nx), '_ndim': 2,
            '_raw_slices': [box[labs.index(i)] if i in labs else None for i in range(1, mx + 1)]}


def fresh_violations(obj):
    """every derived attribute (read on a private deep copy, so with exactly the cache the
    object has now) equals that of a freshly constructed SegmentationImage; bookkeeping
    names only present labels; one polygon/segment per label."""
    from photutils.segmentation import SegmentationImage
    out = []
    d = ilist(obj.data)
    try:
        fresh = SegmentationImage(np.array(obj.data, copy=True))
    except Exception as e:  # noqa: BLE001
        return [('fresh-construct', None,
                 f'SegmentationImage(data.copy()) raises {type(e).__name__}: {e}', {})]
    if fresh.data.dtype != obj.data.dtype:
        out.append(('dtype', None, 'dtype differs from a fresh object', {}))
    for name, want in definitions(d).items():   # the fresh object itself must describe the array
        got = read_canon(SegmentationImage(np.array(obj.data, copy=True)), name)
        if name == 'labels' and isinstance(got, tuple) and got[0] != 'EXC':
            got = got[1]
        if not (isinstance(got, tuple) and got and got[0] == 'EXC') and got != want:
            out.append(('definition', name, f'{name} of a fresh SegmentationImage is not its documented value',
                        {'got': got, 'documented': want}))
    for name in FRESH_ATTRS:
        want = read_canon(fresh, name)
        got = read_canon(obj.copy(), name)
        if isinstance(got, tuple) and got and got[0] == 'EXC':
            out.append(('read-raises', name, f'reading {name} raises {got[1]}: {got[2]}', {}))
        elif got != want:
            out.append(('stale', name, f'{name} differs from a fresh SegmentationImage on the same array',
                        {'got': got if name not in ('cmap', 'data_ma') else '...',
                         'fresh': want if name not in ('cmap', 'data_ma') else '...'}))
    # deblend bookkeeping
    c = obj.copy()
    labs = labels_of(d)
    dm = dmap_list(c)
    try:
        dl = [int(x) for x in c.deblended_labels]
        dmp = {int(k): int(v) for k, v in c.deblended_labels_map.items()}
        inv = [(int(k), [int(x) for x in v]) for k, v in c.deblended_labels_inverse_map.items()]
        children = [x for _, cs in dm for x in cs]
        absent = sorted(set(dl + list(dmp) + children) - set(labs))
        if absent:
            out.append(('deblend-absent', None, f'deblend bookkeeping names labels {absent} absent from the array',
                        {'deblend_label_map': dm, 'labels': labs}))
        elif dl != sorted(children) or inv != dm or dmp != {x: p for p, cs in dm for x in cs}:
            out.append(('deblend-stale', None, 'deblended_labels* differ from _deblend_label_map',
                        {'deblend_label_map': dm, 'deblended_labels': dl, 'map': sorted(dmp.items()), 'inverse': inv}))
        if any(len(cs) == 0 for _, cs in dm):
            out.append(('deblend-absent', None, 'deblend map keeps a parent with no remaining child',
                        {'deblend_label_map': dm}))
    except Exception as e:  # noqa: BLE001
        out.append(('read-raises', 'deblended_labels', f'deblended label attributes raise {type(e).__name__}: {e}', {}))
    # one polygon / segment entry per label
    c = obj.copy()
    try:
        cl = [int(x) for x in c.labels]
        polys = c.polygons
        segs = c.segments
        areas = [int(a) for a in c.areas]
        bbs = [bb4(x) for x in c.bbox]
        if len(polys) != len(cl) or len(segs) != len(cl):
            out.append(('per-label-count', 'polygons', f'{len(polys)} polygons / {len(segs)} segments for {len(cl)} labels', {}))
        else:
            for i, l in enumerate(cl):
                n, a, bnd = poly_obs(polys[i])
                if a != areas[i] or bnd != bbs[i] or n != n_parts(d, l) or int(segs[i].label) != l \
                        or segs[i].polygon is None or segs[i].polygon.wkt != polys[i].wkt:
                    out.append(('per-label', 'polygons', f'polygon/segment {i} does not describe label {l}',
                                {'parts': n, 'area': a, 'bounds': bnd, 'want_area': areas[i], 'want_bbox': bbs[i],
                                 'want_parts': n_parts(d, l)}))
                    break
    except Exception as e:  # noqa: BLE001
        out.append(('read-raises', 'segments', f'polygons/segments raise {type(e).__name__}: {e}', {}))
    return out


def rel_flag(op):
    return {'reassign': 3, 'remove': 2, 'keep': 2, 'border': 3, 'masked': 3}.get(op[0]) is not None and \
        bool(op[{'reassign': 3, 'remove': 2, 'keep': 2, 'border': 3, 'masked': 3}[op[0]]])


def signature(vk, attr, op, prev, cur, hi, hi_cur=None):
    """stable name of call site + input class"""
    labs = labels_of(prev)
    hi_cur = hi if hi_cur is None else hi_cur
    k = op[0]
    s = site(op)
    if vk == 'definition':
        cl = labels_of(cur)
        if attr == 'missing_labels' and cl and max(cl) >= hi_cur:
            return 'max_label+1:label=dtype-max'
        return f'attribute-definition:{attr}'
    if attr in POLY_ATTRS:
        return (poly_class(cur) if vk in ('read-raises', 'per-label-count', 'per-label',
                                          'raises-on-documented-arguments') else None) or f'polygons:{vk}'
    if vk in ('deblend-absent', 'deblend-map-effect'):
        return 'deblend_label_map:names-absent-label'
    if vk == 'deblend-stale':
        return 'deblend_label_map:stale-attributes'
    if k == 'border' and op[1] == 0 and vk == 'effect':
        return 'remove_border_labels:border_width=0'
    if k == 'reassign' and op[2] < 0:
        return 'reassign_labels:negative-new_label'
    if k == 'relabel_consecutive' and op[1] >= 1 and op[1] + len(labs) - 1 > hi:
        return 'relabel_consecutive:start_label-overflow'
    big = labs + ([op[2]] if k == 'reassign' else [])
    curl = labels_of(cur)
    if ((big and max(big) >= hi) or (curl and max(curl) >= hi_cur)) and vk in ('raises-on-documented-arguments', 'read-raises'):
        return 'max_label+1:label=dtype-max'
    if vk == 'effect' and rel_flag(op):
        op2 = list(op)
        op2[{'reassign': 3, 'remove': 2, 'keep': 2, 'border': 3, 'masked': 3}[k]] = False
        _, g = expected_effect(prev, tuple(op2), hi)
        if g is not None and all(g[l] == l for l in g):
            return 'reassign_labels:relabel=True:empty-label-set'
        return f'{s}:relabel=True'
    return f'{s}:{vk}' + (f':{attr}' if attr else '')


def step_violations(prev, prev_dm, prev_dt, op, obj, code, exc, assigned=None):
    """All property violations visible after this step: list of (signature, what, detail).
    For the data setter the comparison array is the ASSIGNED one (for an in-place edit followed by
    an assignment: the edited contents), so prev is replaced by it when the call fails."""
    hi = int(np.iinfo(prev_dt).max)
    cur = ilist(obj.data)
    cur_dm = dmap_list(obj)
    cur_dt = str(obj.data.dtype)
    k = op[0]
    res = []

    def add(vk, attr, what, detail):
        res.append((signature(vk, attr, op, prev, cur, hi, int(np.iinfo(cur_dt).max)), what, detail))

    documented, g = expected_effect(prev, op, hi, assigned)
    if exc is not None:
        if k == 'setdata_inplace':
            prev = ilist(obj.data)    # the caller edited the held array before the (failed) assignment
        if cur != prev or cur_dm != prev_dm or cur_dt != prev_dt:
            add('state-changed-by-failed-call', None, f'{site(op)} raised {exc} but changed the object', {})
        if documented:
            add('raises-on-documented-arguments', op[1] if k == 'read' else None,
                f'{site(op)} raises {exc} on documented arguments', {})
    else:
        if k not in ('setdata', 'setdata_inplace') and cur_dt != prev_dt:
            add('dtype', None, f'dtype changed from {prev_dt} to {cur_dt}', {})
        if k == 'setdata_inplace' and cur_dt != assigned[1]:
            add('dtype', None, f'dtype {cur_dt} is not that of the assigned array ({assigned[1]})', {})
        if documented:
            if k == 'setdata':
                want, want_dm = [list(r) for r in op[1]], []
            elif k == 'setdata_inplace':
                want, want_dm = assigned[0], []
            else:
                want = [[(g[v] if v else 0) for v in row] for row in prev]
                want_dm = [(p, [g[c] for c in cs if g.get(c, 0) != 0]) for p, cs in prev_dm]
                want_dm = [(p, cs) for p, cs in want_dm if cs]
            if cur != want:
                add('effect', None, f'label array after {site(op)} is not the documented effect',
                    {'expected': want, 'got': cur})
            elif cur_dm != want_dm:
                add('deblend-map-effect', None, f'_deblend_label_map after {site(op)} is not the image of the old map',
                    {'expected': want_dm, 'got': cur_dm})
    for vk, attr, what, detail in fresh_violations(obj):
        add(vk, attr, what, detail)
    return res


# --------------------------------------------------------------------------
# one history
# --------------------------------------------------------------------------
def cached_keys(obj):
    return [a for a in ATTRS if a in obj.__dict__]


SETDATA_KINDS = ('setdata', 'setdata_inplace')


def make_alias(img, how):
    """another SegmentationImage on the SAME buffer: a second constructor call on the array the
    image holds, or a slice segm[ys, xs] (documented to be a view of the parent's data)"""
    from photutils.segmentation import SegmentationImage
    if how[0] == 'ctor':
        arr = img.data
        new = SegmentationImage(arr)
        new._c05_ctor = arr
        return new
    _, y0, y1, x0, x1 = how
    new = img[y0:y1, x0:x1]
    new._c05_ctor = new._data
    return new


def run_history(job):
    """job: {'init':..., 'ops': [...]} or {'init':..., 'seed': s, 'length': n}.  Returns the
    realised ops, the Coq case, the violations [(step, signature, what, detail)] and stats.

    The history acts on a POOL of images: image 0 is the one the Coq case follows; ('alias', t, how)
    adds an image on the buffer of image t, ('on', t, op) applies op to image t, 'copy' replaces the
    image by its deep copy and keeps the original in the pool.  After every step: the image acted on
    is checked against the documented effect and a fresh image; every other image must be untouched
    (array, cached keys, deblend map); every array the caller handed in (constructor / data setter)
    must be bit-for-bit what it was, unless the caller edited it himself ('setdata_inplace'): then
    the other images on that buffer are out of date by the caller's doing and are left out of the
    oracle until data is assigned to them."""
    init = job['init']
    obj = make_obj(init)
    if obj is None:
        return None
    unknown = sorted(set(obj._lazyproperties) ^ set(ATTRS))
    rng = random.Random(job['seed']) if 'ops' not in job else None
    ops_in = job.get('ops')
    n = len(ops_in) if ops_in is not None else job['length']
    check = job.get('check', True)
    d0 = ilist(obj.data)
    dt0 = str(obj.data.dtype)
    dm0 = dmap_list(obj)
    viol, steps, ops, stats = [], [], [], []
    if unknown:
        viol.append((-1, 'lazyproperties:unknown', f'lazyproperty set differs from the model: {unknown}', {}))
    if check:
        for vk, attr, what, detail in fresh_violations(obj):
            viol.append((-1, signature(vk, attr, ('read', attr or 'labels'), d0, d0, int(np.iinfo(dt0).max)), what, detail))
    first_bad = None if not viol else -1
    pool = [{'img': obj, 'dirty': False}]
    held = []                      # arrays the caller handed to the API, with their bytes
    if getattr(obj, '_c05_ctor', None) is not None:
        held.append([obj._c05_ctor, obj._c05_ctor.tobytes()])
    kstop = False                  # image 0 went out of date by the caller's doing: stop the Coq case
    mutated = 0
    for i in range(n):
        if ops_in is not None:
            op = tuple(ops_in[i])
        else:
            live = [t for t, e in enumerate(pool) if t > 0]
            r = rng.random()
            if r < 0.06 and len(pool) < 4:
                t = rng.randrange(len(pool))
                sh = pool[t]['img'].data.shape
                if rng.random() < 0.5:
                    how = ['ctor']
                else:
                    y0, x0 = rng.randrange(sh[0]), rng.randrange(sh[1])
                    how = ['slice', y0, rng.randint(y0 + 1, sh[0]), x0, rng.randint(x0 + 1, sh[1])]
                    if rng.random() < 0.4:
                        how = ['slice', 0, sh[0], 0, sh[1]]
                op = ('alias', t, how)
            else:
                t = rng.choice(live) if (live and r < 0.45) else 0
                e = pool[t]
                inner = gen_op(rng, ilist(e['img'].data), str(e['img'].data.dtype), dmap_list(e['img']),
                               only_setdata=e['dirty'])
                op = inner if t == 0 else ('on', t, inner)
        ops.append(op)
        if op[0] == 'alias':
            t, inner = op[1], op
        elif op[0] == 'on':
            t, inner = op[1], tuple(op[2])
        else:
            t, inner = 0, op
        if t >= len(pool) or (pool[t]['dirty'] and inner[0] not in SETDATA_KINDS):
            stats.append(('skipped', 0))       # (only when ops are replayed in another context)
            continue
        ent = pool[t]
        img = ent['img']
        before = [(ilist(e['img'].data), cached_keys(e['img']), dmap_list(e['img'])) for e in pool]
        prev, prev_dm, prev_dt = before[t][0], before[t][2], str(img.data.dtype)
        extra = {}
        newimg = None
        if inner[0] == 'alias':
            try:
                newimg, code, exc, val = make_alias(img, inner[2]), 0, None, None
            except Exception as e:  # noqa: BLE001
                code, exc, val = CODES.get(type(e).__name__, 9), type(e).__name__, None
        else:
            res_img, code, exc, val = apply_op(img, inner, extra)
            if inner[0] == 'copy' and code == 0:
                pool.append({'img': img, 'dirty': ent['dirty']})     # the original stays around
                ent['img'] = res_img
        img = ent['img']
        assigned = None
        if 'assigned' in extra:
            assigned = (ilist(extra['assigned']), str(extra['assigned'].dtype)) \
                if np.issubdtype(extra['assigned'].dtype, np.integer) else None
        if 'edited' in extra:       # the caller changed this buffer himself
            for h in held:
                if np.shares_memory(h[0], extra['edited']):
                    h[1] = h[0].tobytes()
            for u, e in enumerate(pool):
                if u != t and u < len(before) and np.shares_memory(e['img'].data, extra['edited']):
                    e['dirty'] = True
                    before[u] = (ilist(e['img'].data), before[u][1], before[u][2])
                    if u == 0:
                        kstop = True
        if 'edited' in extra and code != 0:
            ent['dirty'] = True      # the caller edited the held array and the assignment was refused
            kstop = kstop or t == 0
        if inner[0] in SETDATA_KINDS and code == 0:
            ent['dirty'] = False
            held.append([extra['assigned'], extra['assigned'].tobytes()])
        cur = ilist(img.data)
        stats.append((inner[0] if op[0] != 'on' else 'other-image:' + inner[0], code))
        if max(max(r) for r in cur) > BIG:
            # lookup tables / find_objects have max_label + 1 entries: do not follow such arrays
            # (only reachable when ops are replayed in another context, e.g. while shrinking)
            stats.append(('label>%d:history-stopped' % BIG, code))
            break
        if code in (0, 1) and cur != prev:
            mutated += 1
        vs = []
        if check:
            if inner[0] == 'alias':
                if newimg is not None:
                    hi = int(np.iinfo(newimg.data.dtype).max)
                    dn = ilist(newimg.data)
                    for vk, attr, what, detail in fresh_violations(newimg):
                        vs.append((signature(vk, attr, ('read', attr or 'labels'), dn, dn, hi), what, detail))
            elif ent['dirty']:
                pass        # a failed assignment to an image that is out of date by the caller's doing
            else:
                vs = step_violations(prev, prev_dm, prev_dt, inner, img, code, exc, assigned)
            st = site(inner)
            for u, e in enumerate(pool):
                if u >= len(before) or e['dirty'] or (u == t and inner[0] != 'alias'):
                    continue
                now = (ilist(e['img'].data), cached_keys(e['img']), dmap_list(e['img']))
                if now != before[u]:
                    what = ('label array' if now[0] != before[u][0] else 'cached keys' if now[1] != before[u][1]
                            else 'deblend map')
                    vs.append((f'shared-buffer:other-image-changed:{st}',
                               f'{st} on one image changed the {what} of another image (no cache reset there)',
                               {'image': u, 'acted_on': t, 'before': before[u][0], 'after': now[0]}))
                    hi = int(np.iinfo(e['img'].data.dtype).max)
                    for vk, attr, what2, detail in fresh_violations(e['img']):
                        vs.append((f'shared-buffer:other-image-changed:{st}', what2 + f' (image {u})', detail))
            for h in held:
                if h[0].tobytes() != h[1]:
                    vs.append((f'shared-buffer:caller-array-modified:{st}',
                               f'{st} wrote into an array the caller passed to the constructor / data setter', {}))
                    h[1] = h[0].tobytes()
        if newimg is not None:
            pool.append({'img': newimg, 'dirty': False})
        if vs and first_bad is None:
            # only the first violating step of a history is reported: later ones may be consequences
            first_bad = i
            seen = set()
            for sig, what, detail in vs:
                if sig not in seen:
                    seen.add(sig)
                    viol.append((i, sig, what, detail))
        if any(what.startswith('SegmentationImage(data.copy()) raises') for _, what, _ in vs):
            break       # the array itself is no longer a valid segmentation array
        if first_bad is None and not kstop:
            o0 = pool[0]['img']
            c0 = ilist(o0.data)
            p0 = before[0][0]
            nx = len(c0[0]) if c0 else 0
            try:
                vterm = f'Some {val_coq(op[1], val, nx)}' if (op[0] == 'read' and code == 0) else 'None'
            except Exception as e:  # noqa: BLE001
                vterm = 'None'
                viol.append((i, f'read:unrepresentable:{op[1]}', f'value of {op[1]} cannot be rendered: {e}', {}))
                first_bad = i
                continue
            kcode = code if t == 0 and op[0] != 'alias' else 0
            dterm = 'None' if c0 == p0 else 'Some ' + zl([v for r in c0 for v in r])
            cdm = dmap_list(o0)
            mterm = 'None' if cdm == before[0][2] else 'Some ' + dm_coq(cdm)
            keys = '[' + '; '.join(ATTR_KEY[a] for a in cached_keys(o0)) + ']'
            steps.append(f'({op_coq(op, assigned)}, ({kcode}, {vterm}, {dterm}, {keys}, {mterm}))')
    ii = np.iinfo(dt0)
    kind = {'array': 0, 'detect': 1, 'deblend': 2}[init['kind']]
    term = (f'({kind}, ({len(d0)}, {len(d0[0])}), {zl([v for r in d0 for v in r])}, '
            f'({coq(int(ii.min))}, {coq(int(ii.max))}), {dm_coq(dm0)}, [' + ';\n   '.join(steps) + '])')
    return {'init': init, 'ops': [list(o) for o in ops], 'coq': term, 'viol': viol, 'stats': stats,
            'mutated': mutated, 'dtype': dt0, 'nsteps_in_coq': len(steps),
            'features': features(d0, dt0, dm0) + (['several-images'] if len(pool) > 1 else [])}


class _Timeout(Exception):
    pass


def _alarm(*_a):
    raise _Timeout()


def run_history_safe(job):
    """run_history under a 60 s alarm (a history never takes more than a fraction of a second)"""
    import signal
    old = signal.signal(signal.SIGALRM, _alarm)
    signal.alarm(60)
    try:
        return run_history(job)
    except _Timeout:
        init = job['init']
        return {'init': init, 'ops': [list(o) for o in job.get('ops', [])], 'coq': '', 'stats': [], 'mutated': 0,
                'viol': [(0, 'harness:history-timeout', 'a history did not finish within 60 s', {'job': job})],
                'dtype': init.get('dtype', 'int32'), 'nsteps_in_coq': 0, 'features': ['timeout']}
    finally:
        signal.alarm(0)
        signal.signal(signal.SIGALRM, old)


def features(d, dt, dm):
    labs = labels_of(d)
    f = []
    if not labs:
        f.append('all-zero')
    else:
        if labs != list(range(1, len(labs) + 1)):
            f.append('gaps')
        if any(n_parts(d, l) > 1 for l in labs):
            f.append('disconnected-label')
        if max(labs) == int(np.iinfo(dt).max):
            f.append('max-label=dtype-max')
    if all(v != 0 for r in d for v in r):
        f.append('no-background')
    if dm:
        f.append('deblended')
    return f or ['plain']


# --------------------------------------------------------------------------
# generators
# --------------------------------------------------------------------------
def rand_array(rng):
    ny, nx = rng.randint(1, 6), rng.randint(1, 6)
    m = rng.randint(0, 5)
    if rng.random() < 0.3:
        alphabet = list(range(1, m + 1))
    else:
        alphabet = sorted(rng.sample(range(1, 13), m))
    if rng.random() < 0.1 and alphabet:
        alphabet[-1] = rng.choice([40, 100, 127])
    bg = rng.choice([0.0, 0.3, 0.5, 0.7])
    if not alphabet:
        return [[0] * nx for _ in range(ny)]
    if rng.random() < 0.5:
        return [[(0 if rng.random() < bg else rng.choice(alphabet)) for _ in range(nx)] for _ in range(ny)]
    d = [[0] * nx for _ in range(ny)]
    for _ in range(rng.randint(1, 2 * len(alphabet))):
        l = rng.choice(alphabet)
        y, x, h, w = rng.randrange(ny), rng.randrange(nx), rng.randint(1, 3), rng.randint(1, 3)
        for yy in range(y, min(ny, y + h)):
            for xx in range(x, min(nx, x + w)):
                d[yy][xx] = l
    return d


def rand_init(rng):
    r = rng.random()
    if r < 0.35:
        name = rng.choice(sorted(FIXED))
        return {'kind': 'array', 'data': FIXED[name], 'dtype': rng.choice(DTYPES)}
    if r < 0.45:
        dt = rng.choice(['int8', 'uint8'])
        m = int(np.iinfo(dt).max)
        d = rng.choice([[[1, 0, m], [0, 2, 2]], [[m, m, 0], [0, 0, m - 1]], [[m]], [[0, m, 0, 3], [3, 3, 0, m]]])
        return {'kind': 'array', 'data': d, 'dtype': dt}
    d = rand_array(rng)
    mx = max(max(r_) for r_ in d)
    return {'kind': 'array', 'data': d, 'dtype': rng.choice([t for t in DTYPES if np.iinfo(t).max >= mx])}


def scene_init(rng, deblend):
    ny, nx = rng.randint(8, 11), rng.randint(9, 13)
    yy, xx = np.mgrid[0:ny, 0:nx]
    img = np.zeros((ny, nx))
    for _ in range(rng.randint(1, 3)):
        cy, cx = rng.uniform(1, ny - 2), rng.uniform(1, nx - 2)
        amp, sig = rng.choice([20, 40, 60]), rng.choice([0.8, 1.2, 1.6])
        img += amp * np.exp(-((yy - cy) ** 2 + (xx - cx) ** 2) / (2 * sig ** 2))
        if rng.random() < 0.7:   # a close companion, to be deblended
            cy2, cx2 = cy + rng.choice([-3, 0, 3]), cx + rng.choice([-3.5, 3, 3.5])
            img += rng.choice([20, 40]) * np.exp(-((yy - cy2) ** 2 + (xx - cx2) ** 2) / (2 * sig ** 2))
    img = np.rint(img)
    init = {'kind': 'deblend' if deblend else 'detect', 'image': ilist(img), 'threshold': rng.choice([1.5, 2.5, 4.5]),
            'npixels': rng.choice([1, 2, 4]), 'connectivity': rng.choice([4, 8])}
    if deblend:
        init.update(nlevels=rng.choice([4, 8, 16]), contrast=rng.choice([0.0, 0.001, 0.05]),
                    mode=rng.choice(['exponential', 'linear', 'sinh']))
    return init


def pick_labels(rng, labs, dm):
    r = rng.random()
    children = [c for _, cs in dm for c in cs if c in labs]
    if not labs:
        return rng.choice([[], [], [1], [0]])
    if r < 0.30:
        return [rng.choice(labs)]
    if r < 0.50:
        return sorted(rng.sample(labs, rng.randint(1, len(labs))))
    if r < 0.58 and children:
        return sorted(set(rng.sample(children, rng.randint(1, len(children)))))
    if r < 0.66:
        return list(labs)
    if r < 0.76:
        return []
    if r < 0.82:
        l = rng.choice(labs)
        return [l, l] + ([rng.choice(labs)] if rng.random() < 0.5 else [])
    if r < 0.88:
        return [max(labs) + rng.randint(1, 3)] + ([rng.choice(labs)] if rng.random() < 0.5 else [])
    if r < 0.94:
        return [0] if rng.random() < 0.5 else [rng.choice(labs), 0]
    return [-rng.choice(labs)]


def rand_mask(rng, prev):
    ny, nx = len(prev), len(prev[0])
    r = rng.random()
    if r < 0.08:
        return [[False] * nx for _ in range(ny + 1)]
    if r < 0.12:
        return [[False] * (nx + 1) for _ in range(ny)]
    if r < 0.22:
        return [[False] * nx for _ in range(ny)]
    if r < 0.30:
        return [[True] * nx for _ in range(ny)]
    labs = labels_of(prev)
    if r < 0.50 and labs:
        l = rng.choice(labs)   # exactly the pixels of one label (plus some background)
        return [[(prev[y][x] == l or (prev[y][x] == 0 and rng.random() < 0.3)) for x in range(nx)] for y in range(ny)]
    p = rng.choice([0.15, 0.4, 0.7])
    return [[rng.random() < p for _ in range(nx)] for _ in range(ny)]


def gen_inplace(rng, prev, dt):
    """the caller fetches the array the image holds, edits it in place and assigns it back"""
    labs = labels_of(prev)
    hi = int(np.iinfo(dt).max)
    ny, nx = len(prev), len(prev[0])
    edits = []
    for _ in range(rng.choice([0, 1, 1, 1, 2, 3])):
        c = rng.random()
        if c < 0.4 and labs:
            edits.append(['zero', rng.choice(labs)])                      # a label disappears
        elif c < 0.8:
            new = rng.choice(labs) if (labs and rng.random() < 0.4) else min(hi, (max(labs) if labs else 0) + rng.randint(1, 3))
            edits.append(['paint', int(new), [[rng.randrange(ny), rng.randrange(nx)] for _ in range(rng.randint(1, 3))]])
        elif len(labs) >= 2:
            a, b2 = rng.sample(labs, 2)
            edits.append(['swap', a, b2])                                  # renumbering
    how = rng.choice(['same', 'same', 'same', 'same', 'view', 'view2', 'copy',
                      'astype:' + rng.choice([t for t in DTYPES if t != dt])])
    return ('setdata_inplace', rng.choice(['data', '_data', 'ctor']), edits, how)


def gen_op(rng, prev, dt, dm, only_setdata=False):
    labs = labels_of(prev)
    hi = int(np.iinfo(dt).max)
    ny, nx = len(prev), len(prev[0])
    r = rng.random()
    if only_setdata:
        r = 0.94 + 0.03 * r
    rel = rng.random() < 0.4
    single = rng.random() < 0.5
    if r < 0.36:
        return ('read', rng.choice(ATTRS))
    if r < 0.48:
        return ('remove', pick_labels(rng, labs, dm), rel, single)
    if r < 0.56:
        return ('keep', pick_labels(rng, labs, dm), rel, single)
    if r < 0.69:
        ls = pick_labels(rng, labs, dm)
        c = rng.random()
        if c < 0.30 and labs:
            new = rng.choice(labs)              # merge
        elif c < 0.55:
            new = (max(labs) if labs else 0) + rng.randint(1, 4)
        elif c < 0.65:
            new = 0
        elif c < 0.72:
            new = hi
        elif c < 0.80:
            new = hi + 1
        elif c < 0.88:
            new = -rng.randint(1, 3)
        else:
            new = rng.randint(1, 12)
        if new > hi + 1 or 300 < new <= hi:
            new = rng.randint(1, 12)
        return ('reassign', ls, int(new), rel, single)
    if r < 0.77:
        c = rng.random()
        n = len(labs)
        start = (1 if c < 0.35 else rng.randint(2, 5) if c < 0.6 else 0 if c < 0.66 else -2 if c < 0.70
                 else hi - n + 1 if c < 0.80 else hi - n + 2 if c < 0.92 else hi)
        if start > 300 and start <= hi - n + 1:   # the lookup tables have max_label + 1 entries
            start = rng.randint(2, 5)
        return ('relabel_consecutive', int(start), rng.random() < 0.5)
    if r < 0.85:
        w = rng.choice([0, 0, 1, 1, 1, 2, 3, -1, max(ny, nx)])
        return ('border', w, rng.random() < 0.6, rel)
    if r < 0.915:
        return ('masked', rand_mask(rng, prev), rng.random() < 0.6, rel)
    if r < 0.97:
        c = rng.random()
        if c < 0.10:
            return ('setdata', [[0.5, 1.0], [2.0, 0.0]], 'float64')
        if c > 0.55:
            return gen_inplace(rng, prev, dt)
        if c < 0.2:
            d = rand_array(rng)
            d[0][0] = -1
            return ('setdata', d, rng.choice(['int8', 'int16', 'int32', 'int64']))
        ini = rand_init(rng)
        return ('setdata', ini['data'], ini['dtype'])
    return ('copy',)


def alphabet(d, dt):
    """fixed operation alphabet for the exhaustive short histories on array d"""
    labs = labels_of(d)
    ny, nx = len(d), len(d[0])
    a, b2 = labs[0], labs[len(labs) // 2]
    absent = max(labs) + 2
    m1 = [[(y < 2 and x < 3) for x in range(nx)] for y in range(ny)]
    m2 = [[d[y][x] == b2 for x in range(nx)] for y in range(ny)]
    ops = [('read', n) for n in ATTRS]
    ops += [('remove', [a], False, True), ('remove', [a], True, False), ('remove', [], False, False),
            ('remove', [], True, False), ('remove', list(labs), False, False), ('remove', [absent], False, True),
            ('remove', [a, b2], True, False),
            ('keep', [b2], False, True), ('keep', [b2], True, False), ('keep', list(labs), True, False),
            ('keep', [], False, False), ('keep', [a, labs[-1]], False, False),
            ('reassign', [a], b2, False, True), ('reassign', [a], absent, True, False),
            ('reassign', [a, b2], labs[-1], False, False), ('reassign', [a], 0, False, True),
            ('reassign', [labs[-1]], absent + 3, False, False), ('reassign', [a], -1, False, True),
            ('relabel_consecutive', 1, True), ('relabel_consecutive', 5, False), ('relabel_consecutive', 0, False),
            ('border', 0, True, False), ('border', 0, True, True), ('border', 1, True, False),
            ('border', 1, False, False), ('border', 2, True, True),
            ('masked', m1, True, False), ('masked', m1, False, True), ('masked', m2, False, False),
            ('setdata', NOBG, dt), ('setdata', ZERO, 'int16'), ('copy',),
            ('setdata_inplace', 'data', [['zero', b2]], 'same'),
            ('setdata_inplace', 'ctor', [['paint', absent, [[0, 0], [ny - 1, nx - 1]]], ['zero', a]], 'same'),
            ('setdata_inplace', '_data', [['swap', a, labs[-1]], ['paint', b2, [[ny - 1, 0]]]], 'view')]
    return ops


# --------------------------------------------------------------------------
# driver
# --------------------------------------------------------------------------
def jobs_for(ctx):
    rng = ctx.rng
    quick = ctx.tier == 'quick'
    jobs = []
    # exhaustive pairs (all ordered pairs of the alphabet) on fixed arrays
    ex_arrays = [('doc', 'int64'), ('disc', 'uint8')] if quick else \
        [('doc', 'int64'), ('disc', 'uint8'), ('ring', 'int16'), ('nobg', 'uint32'), ('consec', 'int8'), ('row', 'uint64')]
    for name, dt in ex_arrays:
        al = alphabet(FIXED[name], dt)
        init = {'kind': 'array', 'data': FIXED[name], 'dtype': dt}
        for o in al:
            jobs.append({'init': init, 'ops': [o], 'group': 'exhaustive-1'})
        for j, (o1, o2) in enumerate(itertools.product(al, al)):
            if quick and o1[0] == 'read' and o2[0] == 'read':
                continue        # covered by the thorough tier and by the random histories
            if quick and name != 'doc' and j % 3:
                continue
            jobs.append({'init': init, 'ops': [o1, o2, ('read', ATTRS[(len(jobs)) % len(ATTRS)])], 'group': 'exhaustive-2'})
    if not quick:   # all triples over a reduced alphabet
        al = alphabet(DOC, 'int32')
        reads = [o for o in al if o[0] == 'read' and o[1] in ('labels', 'slices', '_raw_slices', 'areas', 'max_label',
                                                               'segments', 'missing_labels', 'bbox')]
        muts = [o for o in al if o[0] != 'read'][::2]
        red = reads + muts
        init = {'kind': 'array', 'data': DOC, 'dtype': 'int32'}
        for t in itertools.product(red, red, red):
            if all(o[0] == 'read' for o in t):
                continue
            jobs.append({'init': init, 'ops': list(t), 'group': 'exhaustive-3'})
    # several images on one buffer: read on the image that is NOT acted on, create a second image on
    # the same buffer (second constructor call on the same array / slice = view), act on one of them
    sb_arrays = [('doc', 'int64')] if quick else [('doc', 'int64'), ('disc', 'uint8'), ('nobg', 'int32'), ('consec', 'int16')]
    for name, dt in sb_arrays:
        d = FIXED[name]
        ny, nx = len(d), len(d[0])
        init = {'kind': 'array', 'data': d, 'dtype': dt}
        hows = [['ctor'], ['slice', 0, ny, 0, nx], ['slice', 0, (ny + 1) // 2, 0, nx]]
        for how in hows:
            sub = d if how[0] == 'ctor' else [row[how[3]:how[4]] for row in d[how[1]:how[2]]]
            for pre in ([None, 'segments'] if quick else [None, 'segments', '_raw_slices', 'areas', 'labels']):
                for side in (0, 1):
                    for m in [o for o in alphabet(sub if side == 1 else d, dt) if o[0] != 'read']:
                        ops = []
                        if pre and side == 1:
                            ops.append(('read', pre))
                        ops.append(('alias', 0, how))
                        if pre and side == 0:
                            ops.append(('on', 1, ('read', pre)))
                        ops.append(m if side == 0 else ('on', 1, m))
                        ops.append(('read', 'areas') if side == 1 else ('on', 1, ('read', 'areas')))
                        jobs.append({'init': init, 'ops': ops, 'group': 'shared-buffer'})
    # random histories
    nrand = 600 if quick else 8000
    for _ in range(nrand):
        jobs.append({'init': rand_init(rng), 'seed': rng.getrandbits(48), 'length': rng.randint(2, 10), 'group': 'random'})
    nscene = 120 if quick else 1200
    for i in range(nscene):
        jobs.append({'init': scene_init(rng, deblend=(i % 3 != 0)), 'seed': rng.getrandbits(48),
                     'length': rng.randint(2, 9), 'group': 'detect/deblend'})
    return jobs


def shrink(res, sig):
    """drop ops while the same signature is still reported"""
    ops = [tuple(o) for o in res['ops']]
    step = max(i for i, s, _, _ in res['viol'] if s == sig)
    ops = ops[:step + 1]
    best = res
    changed = True
    while changed and len(ops) > 1:
        changed = False
        for j in range(len(ops) - 1):
            cand = ops[:j] + ops[j + 1:]
            try:
                r = run_history_safe({'init': res['init'], 'ops': cand})
            except Exception:  # noqa: BLE001
                continue
            if r and any(s == sig for _, s, _, _ in r['viol']):
                ops, best, changed = cand, r, True
                break
    if best is res:
        r = run_history({'init': res['init'], 'ops': ops})
        if r and any(s == sig for _, s, _, _ in r['viol']):
            best = r
    return best


def run(ctx):
    ctx.build_with_translator(FILES)
    import photutils.segmentation  # noqa: F401  (import before forking)
    ctx.cov['rule'] = (
        'histories = initial object (hand-made arrays with gaps / disconnected labels / holes / no background / all '
        'zero / label = dtype max, random 1x1..6x6 arrays, detect_sources and deblend_sources results; dtypes int8..uint64) '
        '+ list of ops (20 attribute reads, reassign/keep/remove label(s), relabel_consecutive, remove_border_labels, '
        'remove_masked_labels, data setter, copy; valid, empty, duplicate, absent, zero, negative label sets, merging and '
        'out-of-range new labels, border widths 0,1,2,3,-1,too large, masks incl. wrong shape); all ordered pairs of a '
        '55-op alphabet on fixed arrays (thorough: 6 arrays and all triples of a reduced alphabet) + random histories of '
        'length 2..10; data assignments of a fresh array, of the very array object the image holds (fetched through .data, '
        '._data or the constructor argument) after the caller changed its contents in place, of a view / copy / other dtype of '
        'it; several images on one buffer (second constructor call on the same array, slices segm[ys, xs], copies) with '
        'operations interleaved across them, every image compared with a fresh image after each step and every array the '
        'caller handed in compared bit for bit; non-trivial = at least one step changed the label array; distinct = distinct (initial object, ops)')
    ctx.assumptions += [
        'rasterio.features.shapes is modelled as "one shape per 8-connected region of equal non-zero value" (lib/Conn); '
        'the model is compared with it on every read of _geo_polygons (first pixel + value of each shape) and of '
        'polygons/segments (number of parts, area, bounds per label); vertex lists are only compared with a fresh object (wkt)',
        'scipy.ndimage.find_objects is modelled as the tight bounding slice per label value 1..max (compared on every read)',
        'numpy raises OverflowError when a Python int new_label does not fit the dtype (observed behaviour, modelled)']
    ctx.cov['partial_clauses'] = ['polygon geometry (vertices) is only compared with a fresh object, not modelled']
    import time
    t0 = time.time()
    jobs = jobs_for(ctx)
    with multiprocessing.get_context('fork').Pool(min(NCPU, 16)) as pool:
        results = pool.map(run_history_safe, jobs, chunksize=16)
    ctx.stat('timing_s', 'python_histories', round(time.time() - t0, 1))
    t0 = time.time()
    terms, owners = [], []
    by_sig = {}
    for job, res in zip(jobs, results):
        if res is None:
            ctx.stat('init', 'no-detection')
            continue
        ctx.stat('group', job['group'])
        ctx.stat('init', res['init']['kind'])
        ctx.stat('dtype', res['dtype'])
        ctx.stat('history_length', str(len(res['ops'])))
        for f in res['features']:
            ctx.stat('array_features', f)
        for k, code in res['stats']:
            ctx.stat('ops', k)
            ctx.stat('outcome', {0: 'ok', 1: 'warning', 2: 'ValueError', 3: 'OverflowError', 4: 'TypeError'}.get(code, 'other'))
        ctx.count_case([res['init'], res['ops']], res['mutated'] > 0)
        ctx.support('attribute-vs-fresh comparisons (steps x 22 attribute groups)', len(res['ops']) * (len(FRESH_ATTRS) + 2))
        for i, sig, what, detail in res['viol']:
            ctx.stat('violating_steps', sig)
            cur = by_sig.get(sig)
            if cur is None or len(res['ops']) < len(cur['ops']):
                by_sig[sig] = res
        if res['nsteps_in_coq'] > 0:
            terms.append(res['coq'])
            owners.append(res)
    ctx.stat('violations', 'distinct_signatures', len(by_sig))
    # one shrunk replay per signature; at most 12 signatures are written out (a single defect in
    # a cache reset shows up under many attribute names), the rest stay counted in 'violating_steps'
    for sig in sorted(by_sig, key=lambda g: (len(by_sig[g]['ops']), g))[:12]:
        res = shrink(by_sig[sig], sig)
        i, _, what, detail = [v for v in res['viol'] if v[1] == sig][-1]
        ctx.violation(sig, what, {'init': res['init'], 'ops': res['ops'][:i + 1], 'failing_step': i,
                                  'signature': sig, 'detail': detail,
                                  'cmd': 'bin/check C05 --replay <this file>'})
    for o in owners[:1] + [o for o in owners if len(o['ops']) > 4][:2]:
        ctx.sample({'init': o['init'], 'ops': o['ops']})
    bad = ctx.coq_eval_cases(['C05_Model'], 'check_case', terms, case_type='case')
    ctx.stat('coq', 'disagreements', len(bad))
    ctx.stat('timing_s', 'coq_eval', round(time.time() - t0, 1))
    for i in bad[:5]:
        res = owners[i]
        detail = {'init': res['init'], 'ops': res['ops'], 'case': res['coq'],
                  'model': ctx.coq_eval_term(['C05_Model'], f'model_out {res["coq"]}') if len(res['coq']) < 20000 else None,
                  'cmd': 'bin/check C05 --replay <this file>'}
        # V ran on every step of this history and found nothing: the property holds on it
        ctx.violation('correspondence:C05_Model.check_case',
                      'model and implementation disagree (outcome / value read / array / cached keys / deblend map)',
                      detail, found_input=False)


def replay(obj):
    r = obj['replay']
    res = run_history({'init': r['init'], 'ops': r['ops']})
    if res is None:
        print('initial object could not be built (no detection)')
        return 0
    print('init:', json.dumps(r['init']))
    for i, o in enumerate(res['ops']):
        print(f'step {i}:', o)
    for i, sig, what, detail in res['viol']:
        print(f'  VIOLATION at step {i} [{sig}] {what} {json.dumps(detail, default=str)[:600]}')
    print('property FAILS on this history' if res['viol'] else 'property holds on this history')
    return 1 if res['viol'] else 0
