"""C02 — aperture sums are mask-weighted sums over unmasked in-image pixels.

K: the Coq model (coq/C02_Model.v, proved in C02_Proofs/Properties) is run on the same cases as
   aperture_photometry / do_photometry / area_overlap / ApertureMask.{to_image,cutout,multiply,
   get_values} on the exact lattice (dyadic pixel values, 'center' / power-of-two 'subpixel'
   weights, rectangle 'exact' = subpixel 32) and must agree exactly (integers; sqrt by the
   correctly-rounded test).
V: the property text itself is evaluated in plain Python (exact Fraction arithmetic over the
   explicitly enumerated pixel set; rigorous rounding bound for arbitrary doubles) on every case,
   together with the metamorphic clauses (batch = single, linear in data, blind to masked /
   zero-weight pixels, sky = to_pixel(wcs), NDData / Quantity call forms).
"""
import math
import warnings
from fractions import Fraction

import numpy as np

from .core import coq, Some, Raw

PID = 'C02'
FILES = ['lib/Cases.v', 'C02_Model.v', 'C02_Proofs.v', 'C02_Properties.v']

KD = 8            # data / error / position lattice: multiples of 1/8
U = Fraction(1, 2 ** 53)

PIXEL_CLASSES = ['CircularAperture', 'CircularAnnulus', 'EllipticalAperture', 'EllipticalAnnulus',
                 'RectangularAperture', 'RectangularAnnulus']


def gamma(n):
    return Fraction(n) * U / (1 - n * U)


# --------------------------------------------------------------------------
# case specs (JSON-able) -> numpy / photutils objects
# --------------------------------------------------------------------------
def _arr(a):
    return None if a is None else np.array(a, dtype=float)


def make_aperture(cls, params, positions):
    import photutils.aperture as pa
    return getattr(pa, cls)(positions, **params)


def build(spec):
    data = _arr(spec['data'])
    err = _arr(spec.get('err'))
    mask = None if spec.get('mask') is None else np.array(spec['mask'], dtype=bool)
    dt = spec.get('dtype')
    if dt:      # same numbers stored as integers / single precision
        ddt, edt = {'int16': ('int16', 'int16'), 'uint8err': ('int16', 'uint8'), 'int32': ('int32', 'int32'),
                    'float32': ('float32', 'float32'), 'float16': ('float16', 'float16')}[dt]
        data = data.astype(ddt)
        err = None if err is None else err.astype(edt)
    apers = []
    for a in spec['apers']:
        pos = a['positions'][0] if a.get('scalar') else a['positions']
        apers.append(make_aperture(a['cls'], a['params'], pos))
    return data, err, mask, apers


def gen_params(rng, cls, lattice, big=False):
    hi = 9.0 if big else 4.5

    def size(lo=0.3, hi_=None):
        v = rng.uniform(lo, hi_ or hi)
        return round(v * KD) / KD if lattice and rng.random() < 0.7 else v

    def theta():
        k = rng.random()
        if k < 0.3:
            return 0.0
        if k < 0.5:
            return rng.choice([1, 2, 3, 5]) * math.pi / 4
        return rng.uniform(-3.2, 3.2)
    if cls == 'CircularAperture':
        return {'r': max(size(), 0.125)}
    if cls == 'CircularAnnulus':
        r_in = max(size(0.2), 0.125)
        return {'r_in': r_in, 'r_out': r_in + max(size(0.2, 3.0), 0.125)}
    if cls == 'EllipticalAperture':
        return {'a': max(size(), 0.125), 'b': max(size(0.2), 0.125), 'theta': theta()}
    if cls == 'EllipticalAnnulus':
        a_in = max(size(0.3), 0.125)
        a_out = a_in + max(size(0.2, 3.0), 0.125)
        p = {'a_in': a_in, 'a_out': a_out, 'b_out': max(size(0.3), 0.125), 'theta': theta()}
        if rng.random() < 0.3:
            p['b_in'] = p['b_out'] * rng.uniform(0.2, 0.95)
        return p
    if cls == 'RectangularAperture':
        return {'w': max(size(), 0.125), 'h': max(size(), 0.125), 'theta': theta()}
    if cls == 'RectangularAnnulus':
        w_in = max(size(0.3), 0.125)
        w_out = w_in + max(size(0.2, 3.0), 0.125)
        p = {'w_in': w_in, 'w_out': w_out, 'h_out': max(size(0.3), 0.125), 'theta': theta()}
        if rng.random() < 0.3:
            p['h_in'] = p['h_out'] * rng.uniform(0.2, 0.95)
        return p
    raise ValueError(cls)


def extent_of(cls, params):
    import photutils.aperture as pa
    ap = getattr(pa, cls)((0.0, 0.0), **params)
    bb = ap.bbox
    return max(abs(bb.ixmin), abs(bb.ixmax), abs(bb.iymin), abs(bb.iymax))


def gen_position(rng, ny, nx, ext, lattice):
    """returns ((x, y), kind)"""
    kind = rng.choice(['inside', 'inside', 'inside', 'edge', 'edge', 'edge', 'corner', 'corner', 'outside', 'touch'])

    def q(v):
        return round(v * KD) / KD if lattice else v
    if kind == 'inside':
        x, y = rng.uniform(0, nx - 1), rng.uniform(0, ny - 1)
        if rng.random() < 0.25:
            x, y = float(rng.randrange(nx)), float(rng.randrange(ny))        # pixel centre
        elif rng.random() < 0.2:
            x, y = rng.randrange(nx) + 0.5, rng.randrange(ny) - 0.5          # pixel corner
    elif kind == 'edge':
        side = rng.choice(['l', 'r', 'b', 't'])
        d = rng.uniform(-ext, 1.0)
        x, y = rng.uniform(-1, nx), rng.uniform(-1, ny)
        if side == 'l':
            x = d
        elif side == 'r':
            x = nx - 1 - d
        elif side == 'b':
            y = d
        else:
            y = ny - 1 - d
    elif kind == 'corner':
        dx, dy = rng.uniform(-ext, 1.0), rng.uniform(-ext, 1.0)
        x = dx if rng.random() < 0.5 else nx - 1 - dx
        y = dy if rng.random() < 0.5 else ny - 1 - dy
    elif kind == 'outside':
        far = rng.choice([ext + 1.5, ext + 30, 1e4])
        x, y = rng.uniform(-1, nx), rng.uniform(-1, ny)
        side = rng.choice(['l', 'r', 'b', 't', 'lb', 'rt'])
        if 'l' in side:
            x = -far
        if 'r' in side:
            x = nx - 1 + far
        if 'b' in side:
            y = -far
        if 't' in side:
            y = ny - 1 + far
    else:   # touch: the box ends within one pixel of the frame
        x, y = rng.uniform(0, nx - 1), rng.uniform(0, ny - 1)
        off = ext + rng.choice([-1.0, -0.5, -0.125, 0.0, 0.125, 0.5])
        side = rng.choice(['l', 'r', 'b', 't'])
        if side == 'l':
            x = -off
        elif side == 'r':
            x = nx - 1 + off
        elif side == 'b':
            y = -off
        else:
            y = ny - 1 + off
    return (q(x), q(y)), kind


def gen_image(rng, ny, nx, lattice, nonfinite):
    if lattice:
        kind = rng.choice(['int', 'dyadic', 'ramp', 'sparse'])
        if kind == 'int':
            d = [[float(rng.randint(-50, 50)) for _ in range(nx)] for _ in range(ny)]
        elif kind == 'dyadic':
            d = [[rng.randint(-4000, 4000) / KD for _ in range(nx)] for _ in range(ny)]
        elif kind == 'ramp':       # every pixel distinct and asymmetric: registers shifts / flips
            d = [[float(1 + x + 17 * y) for x in range(nx)] for y in range(ny)]
        else:
            d = [[(rng.randint(1, 99) / KD if rng.random() < 0.3 else 0.0) for _ in range(nx)] for _ in range(ny)]
        e = [[rng.randint(0, 80) / KD for _ in range(nx)] for _ in range(ny)]
    else:
        sc = rng.choice([1e-3, 1.0, 1.0, 1e3, 1e6])
        d = [[rng.gauss(rng.choice([0, 0, 5]), 1) * sc for _ in range(nx)] for _ in range(ny)]
        e = [[abs(rng.gauss(0, 1)) * sc for _ in range(nx)] for _ in range(ny)]
    if nonfinite:
        for arr in (d, e):
            for _ in range(rng.randint(0, 3)):
                arr[rng.randrange(ny)][rng.randrange(nx)] = rng.choice([math.nan, math.inf, -math.inf])
    return d, e


def gen_mask(rng, ny, nx):
    k = rng.random()
    if k < 0.35:
        return None
    if k < 0.45:
        return [[True] * nx for _ in range(ny)]
    if k < 0.5:
        return [[False] * nx for _ in range(ny)]
    dens = rng.choice([0.1, 0.3, 0.6])
    return [[rng.random() < dens for _ in range(nx)] for _ in range(ny)]


def gen_spec(rng, lattice):
    big = (not lattice) and rng.random() < 0.3
    ny = rng.choice([1, 2, 3, rng.randint(1, 12)]) if rng.random() < 0.2 else rng.randint(3, 12)
    nx = rng.choice([1, 2, 3, rng.randint(1, 12)]) if rng.random() < 0.2 else rng.randint(3, 12)
    if big:
        ny, nx = rng.randint(10, 30), rng.randint(10, 30)
    nonfinite = rng.random() < 0.3
    dtype = rng.choice([None] * 6 + ['int16', 'uint8err', 'int32', 'float32']) if lattice else None
    if dtype:
        nonfinite = False
    d, e = gen_image(rng, ny, nx, lattice, nonfinite)
    if dtype:     # integer-valued images whose squares overflow the narrow integer types
        d = [[float(rng.randint(-300, 300)) for _ in range(nx)] for _ in range(ny)]
        e = [[float(rng.randint(0, 250)) for _ in range(nx)] for _ in range(ny)]
    if not lattice:   # generic values stored in single / half precision (sums must still be float64 sums)
        dtype = rng.choice([None] * 4 + ['float32', 'float32', 'float16'])
        if dtype == 'float16':
            top = max([abs(v) for row in d + e for v in row if math.isfinite(v)] + [1.0])
            if top > 500.0:
                d = [[v * 500.0 / top if math.isfinite(v) else v for v in row] for row in d]
                e = [[v * 500.0 / top if math.isfinite(v) else v for v in row] for row in e]
    if lattice:
        method = rng.choice(['center', 'subpixel', 'subpixel', 'exactrect'])
        subpixels = rng.choice([1, 2, 4, 8, 16, 32]) if method == 'subpixel' else 5
    else:
        method = rng.choice(['exact', 'exact', 'exact', 'subpixel', 'center'])
        subpixels = rng.choice([1, 3, 5, 7, 10])
    napers = 1 if rng.random() < 0.6 else rng.randint(2, 3)
    single = napers == 1 and rng.random() < 0.7          # bare aperture (not in a list)
    classes = PIXEL_CLASSES if method != 'exactrect' else ['RectangularAperture', 'RectangularAnnulus']
    if method == 'exactrect':
        method = 'exact'
    apers = []
    scalar = rng.random() < 0.2
    npos = 1 if scalar else rng.randint(1, 4)
    ext = 0
    for _ in range(napers):
        cls = rng.choice(classes)
        params = gen_params(rng, cls, lattice, big)
        ext = max(ext, extent_of(cls, params))
        apers.append({'cls': cls, 'params': params})
    positions, kinds = [], []
    for _ in range(npos):
        p, k = gen_position(rng, ny, nx, ext, lattice)
        positions.append(list(p))
        kinds.append(k)
    for a in apers:
        a['positions'] = [list(p) for p in positions]
        a['scalar'] = scalar
    spec = {'lattice': lattice, 'data': d, 'err': e if rng.random() < 0.7 else None,
            'mask': gen_mask(rng, ny, nx), 'method': method, 'subpixels': subpixels,
            'apers': apers, 'single': single, 'kinds': kinds,
            'form': rng.choice(['array', 'array', 'nddata', 'quantity']),
            'fill': rng.choice([0.0, 0.0, 2.5, -1.0, math.nan])}
    if dtype:
        spec['dtype'] = dtype
        if dtype not in ('float32', 'float16') and spec['fill'] == 2.5:
            spec['fill'] = -1.0          # an integer cutout cannot hold 2.5
    if spec['form'] == 'nddata':
        spec['nd_unc'] = rng.choice(['std', 'std', 'var', 'none'])
        spec['nd_kw'] = rng.random() < 0.3      # also pass (ignored / surviving) error & mask keywords
        spec['nd_unit'] = rng.random() < 0.3
    # invalid inputs the code must reject
    r = rng.random()
    if r < 0.02 and napers > 1:
        spec['apers'][1]['positions'] = [[p[0] + 1.0, p[1]] for p in positions]
        spec['invalid'] = 'positions'
    elif r < 0.035 and spec['err'] is not None and spec['form'] == 'array':
        spec['err'] = [row + [1.0] for row in spec['err']]
        spec['invalid'] = 'err-shape'
    elif r < 0.05 and spec['mask'] is not None and spec['form'] == 'array':
        spec['mask'] = [row + [False] for row in spec['mask']]
        spec['invalid'] = 'mask-shape'
    return spec


# --------------------------------------------------------------------------
# running the implementation
# --------------------------------------------------------------------------
def call_photometry(spec, data=None, err=None, mask=None, apers=None, form=None):
    """aperture_photometry through the call form of the spec. Returns (table, effective err,
    effective mask) ; raises what the implementation raises."""
    import astropy.units as u
    from astropy.nddata import NDData, StdDevUncertainty, VarianceUncertainty
    from photutils.aperture import aperture_photometry
    d0, e0, m0, a0 = build(spec)
    data = d0 if data is None else data
    err = e0 if err is None else err
    mask = m0 if mask is None else mask
    apers = a0 if apers is None else apers
    form = form or spec['form']
    arg = apers[0] if spec['single'] else apers
    kw = dict(method=spec['method'], subpixels=spec['subpixels'])
    if form == 'array':
        return aperture_photometry(data, arg, error=err, mask=mask, **kw), err, mask
    if form == 'quantity':
        t = aperture_photometry(data * u.Jy, arg, error=None if err is None else err * u.Jy, mask=mask, **kw)
        return t, err, mask
    unc = None
    eff_err = None
    if err is not None and spec['nd_unc'] == 'std':
        unc = StdDevUncertainty(err)
        eff_err = err
    elif err is not None and spec['nd_unc'] == 'var':
        unc = VarianceUncertainty(err)
    nd = NDData(data, uncertainty=unc, mask=mask, unit=u.Jy if spec.get('nd_unit') else None)
    if spec.get('nd_kw'):
        kw_err = None if err is None else err * 3.0
        kw_mask = np.zeros(data.shape, bool)
        if eff_err is None:
            eff_err = kw_err     # the keyword survives when the object has no StdDevUncertainty
        if spec.get('nd_unit') and eff_err is kw_err and kw_err is not None:
            kw_err = kw_err * u.Jy
        t = aperture_photometry(nd, arg, error=kw_err, mask=kw_mask, **kw)
    else:
        t = aperture_photometry(nd, arg, **kw)
    return t, eff_err, mask


def colvals(t, name):
    c = t[name]
    return np.asarray(getattr(c, 'value', c), dtype=float)


def table_columns(t, spec, has_err):
    """[(sum array, err array | None)] per aperture, or raises KeyError"""
    out = []
    for i in range(len(spec['apers'])):
        suf = '' if spec['single'] else f'_{i}'
        s = colvals(t, 'aperture_sum' + suf)
        e = colvals(t, 'aperture_sum_err' + suf) if has_err else None
        out.append((s, e))
    return out


# --------------------------------------------------------------------------
# the property, in plain Python (exact arithmetic on the doubles)
# --------------------------------------------------------------------------
def pixel_set(W, bbox, ny, nx, mask):
    """(box meets image?, [(y, x, w)] of in-image pixels with positive weight, not masked)"""
    meets = False
    P = []
    for y in range(ny):
        for x in range(nx):
            if bbox.iymin <= y < bbox.iymax and bbox.ixmin <= x < bbox.ixmax:
                meets = True
                w = W[y - bbox.iymin][x - bbox.ixmin]
                if w > 0 and not (mask is not None and mask[y][x]):
                    P.append((y, x, w))
    return meets, P


def ieee_sum_class(vals):
    """class of an IEEE sum of doubles that contain a non-finite value"""
    if any(math.isnan(v) for v in vals):
        return 'nan'
    pos = any(v == math.inf for v in vals)
    neg = any(v == -math.inf for v in vals)
    if pos and neg:
        return 'nan'
    return 'inf' if pos else ('-inf' if neg else 'finite')


def fclass(v):
    return 'nan' if math.isnan(v) else ('inf' if v == math.inf else ('-inf' if v == -math.inf else 'finite'))


def check_sum(impl, P, arr, lattice, square=False):
    """impl ?= sum_{p in P} w * arr[p] (or w * arr[p]^2).  Returns None or a message."""
    vals = [float(arr[y][x]) for (y, x, w) in P]
    if square:
        vals = [v * v if math.isfinite(v) else (math.nan if math.isnan(v) else math.inf) for v in vals]
    cls = ieee_sum_class(vals)
    if cls != 'finite':
        return None if fclass(impl) == cls else f'expected {cls}, got {impl!r}'
    if not math.isfinite(impl):
        return f'expected a finite value, got {impl!r}'
    src = [Fraction(float(arr[y][x])) for (y, x, w) in P]
    terms = [Fraction(float(w)) * (v * v if square else v) for (y, x, w), v in zip(P, src)]
    exact = sum(terms, Fraction(0))
    if lattice:
        return None if Fraction(impl) == exact else f'expected exactly {float(exact)!r}, got {impl!r}'
    bound = gamma(len(terms) + 3) * sum((abs(t) for t in terms), Fraction(0))
    if abs(Fraction(impl) - exact) <= bound:
        return None
    return f'expected {float(exact)!r} +- {float(bound):.3g}, got {impl!r}'


def check_sqrt(impl, P, arr, lattice):
    """impl ?= sqrt(sum w * arr^2)"""
    vals = [float(arr[y][x]) for (y, x, w) in P]
    cls = ieee_sum_class([v * v if math.isfinite(v) else (math.nan if math.isnan(v) else math.inf) for v in vals])
    if cls != 'finite':
        return None if fclass(impl) == cls else f'expected {cls}, got {impl!r}'
    if not math.isfinite(impl) or impl < 0:
        return f'expected a finite non-negative value, got {impl!r}'
    terms = [Fraction(float(w)) * Fraction(float(arr[y][x])) ** 2 for (y, x, w) in P]
    V = sum(terms, Fraction(0))
    g = Fraction(0) if lattice else gamma(len(terms) + 3)
    lo, hi = V * (1 - g) * (1 - U) ** 2, V * (1 + g) * (1 + U) ** 2
    e2 = Fraction(impl) ** 2
    if lo <= e2 <= hi:
        return None
    return f'expected sqrt({float(V)!r}) = {math.sqrt(float(V))!r}, got {impl!r}'


def mask_methods_oracle(m, data, fill, meets):
    """ApertureMask.to_image / cutout / multiply against their pixel-wise definitions."""
    ny, nx = data.shape
    bb, W = m.bbox, m.data
    h, w = W.shape
    ti = m.to_image((ny, nx))
    cu = m.cutout(data, fill_value=fill)
    with warnings.catch_warnings():
        warnings.simplefilter('ignore')
        mu = m.multiply(data, fill_value=fill)
    if not meets:
        if ti is not None or cu is not None or mu is not None:
            return ('mask_methods:no-overlap-not-none', 'box misses the image but to_image/cutout/multiply is not None')
        return None
    if ti is None or cu is None or mu is None:
        return ('mask_methods:none', 'box meets the image but to_image/cutout/multiply returned None')
    exp_ti = np.zeros((ny, nx))
    exp_cu = np.full((h, w), float(fill))
    for i in range(h):
        for j in range(w):
            y, x = bb.iymin + i, bb.ixmin + j
            if 0 <= y < ny and 0 <= x < nx:
                exp_ti[y, x] = W[i, j]
                exp_cu[i, j] = data[y, x]
    with np.errstate(all='ignore'):
        exp_mu = np.array([[float(fill) if W[i, j] == 0 else float(exp_cu[i, j]) * float(W[i, j]) for j in range(w)]
                           for i in range(h)]).reshape(h, w)
    if not same(ti, exp_ti):
        return ('to_image:pixels', 'to_image is not the weight map placed at the box position')
    if not same(cu, exp_cu):
        return ('cutout:pixels', 'cutout is not the image seen through the box (fill_value outside the image)')
    if not same(mu, exp_mu):
        return ('multiply:pixels', 'multiply is not cutout * weights (fill_value where the weight is 0)')
    return None


def same(a, b):
    a, b = np.asarray(a, float), np.asarray(b, float)
    return a.shape == b.shape and bool(np.all((a == b) | (np.isnan(a) & np.isnan(b))))


def oracles(spec, rng=None, extra=True):
    """Evaluate the property on the implementation for this spec.
    Returns (violations [(signature, what, detail)], info dict)."""
    import astropy.units as u
    viol = []
    info = {}
    data, err, mask, apers = build(spec)
    ny, nx = data.shape
    lattice = spec['lattice']
    method, subpixels = spec['method'], spec['subpixels']
    inv = spec.get('invalid')
    with warnings.catch_warnings():
        warnings.simplefilter('ignore')
        try:
            t, eff_err, eff_mask = call_photometry(spec)
        except Exception as ex:  # noqa: BLE001
            info['exception'] = type(ex).__name__
            if inv and isinstance(ex, ValueError):
                return viol, info
            viol.append((f'aperture_photometry:exception:{spec["form"]}',
                         f'valid input raised {type(ex).__name__}: {str(ex)[:120]}', {}))
            return viol, info
        if inv:
            viol.append((f'aperture_photometry:accepts-{inv}', f'invalid input ({inv}) was accepted', {}))
            return viol, info
        info['table'] = t
        info['eff_err'], info['eff_mask'] = eff_err, eff_mask
        n = len(np.atleast_2d(apers[0].positions))
        # ---- table bookkeeping
        if list(np.asarray(t['id'])) != list(range(1, n + 1)):
            viol.append(('aperture_photometry:id', 'id column is not 1..N', {}))
        pos = np.atleast_2d(apers[0].positions)
        if not (same(colvals(t, 'xcenter'), pos[:, 0]) and same(colvals(t, 'ycenter'), pos[:, 1])):
            viol.append(('aperture_photometry:centers', 'xcenter/ycenter differ from the input positions', {}))
        has_err = eff_err is not None
        try:
            cols = table_columns(t, spec, has_err)
        except KeyError as ex:
            viol.append(('aperture_photometry:columns', f'missing column {ex}', {'colnames': t.colnames}))
            return viol, info
        if (not has_err) and any(c.startswith('aperture_sum_err') for c in t.colnames):
            viol.append(('aperture_photometry:columns', 'error column without error input', {}))
        unit_expected = spec['form'] == 'quantity' or (spec['form'] == 'nddata' and spec.get('nd_unit'))
        for c in t.colnames:
            if c.startswith('aperture_sum'):
                un = getattr(t[c], 'unit', None)
                if (un == u.Jy) != bool(unit_expected):
                    viol.append((f'aperture_photometry:unit:{spec["form"]}', f'column {c} has unit {un}', {}))
        info['cols'] = cols
        # ---- the defining sums, per aperture and position
        masks_all = []
        for ai, aper in enumerate(apers):
            ms = aper.to_mask(method=method, subpixels=subpixels)
            ms = [ms] if aper.isscalar else list(ms)
            masks_all.append(ms)
            sums_d, errs_d = aper.do_photometry(data, error=eff_err, mask=eff_mask, method=method,
                                                subpixels=subpixels)
            if not same(sums_d, cols[ai][0]) or (has_err and not same(errs_d, cols[ai][1])):
                viol.append(('do_photometry:ne-table', 'do_photometry differs from the aperture_photometry columns',
                             {'aperture': ai}))
            areas = np.atleast_1d(aper.area_overlap(data, mask=eff_mask, method=method, subpixels=subpixels))
            info.setdefault('areas', []).append(areas)
            for k, m in enumerate(ms):
                Wk = m.data.tolist()
                meets, P = pixel_set(Wk, m.bbox, ny, nx, None if eff_mask is None else eff_mask.tolist())
                info.setdefault('npix', []).append(len(P))
                info.setdefault('meets', []).append(meets)
                info['negw'] = info.get('negw', 0) + int((m.data < 0).sum())
                where = {'aperture': ai, 'position': k, 'bbox': [m.bbox.ixmin, m.bbox.ixmax, m.bbox.iymin, m.bbox.iymax],
                         'pixels_in_set': len(P)}
                s_impl = float(cols[ai][0][k])
                a_impl = float(areas[k])
                msg = mask_methods_oracle(m, data, spec['fill'], meets)
                if msg:
                    viol.append((msg[0], msg[1], where))
                if not meets:
                    if not math.isnan(s_impl) or (has_err and not math.isnan(float(cols[ai][1][k]))):
                        viol.append(('do_photometry:no-overlap-not-nan', 'box misses the image but result is not NaN', where))
                    if not math.isnan(a_impl):
                        viol.append(('area_overlap:no-overlap-not-nan', 'box misses the image but area is not NaN', where))
                    continue
                msg = check_sum(s_impl, P, data, lattice)
                if msg:
                    viol.append(('do_photometry:sum', 'aperture_sum is not the weighted sum over the pixel set: ' + msg, where))
                if has_err:
                    msg = check_sqrt(float(cols[ai][1][k]), P, eff_err, lattice)
                    if msg:
                        viol.append(('do_photometry:sum_err', 'aperture_sum_err is not sqrt(sum w*err^2) over the pixel set: ' + msg, where))
                ones = [[1.0] * nx for _ in range(ny)]
                msg = check_sum(a_impl, P, ones, lattice)
                if msg:
                    viol.append(('area_overlap:sum', 'area_overlap is not sum(w) over the pixel set: ' + msg, where))
                # ApertureMask.get_values: exactly the weighted values of the set, raster order
                gv = m.get_values(data, mask=eff_mask)
                want = [float(data[y][x]) * w for (y, x, w) in P]
                with np.errstate(all='ignore'):
                    if not same(gv, np.array(want, float)):
                        viol.append(('get_values:set', 'get_values is not [w*data] over the pixel set in raster order', where))
        info['masks'] = masks_all
        if not extra:
            return viol, info
        # ---- batch = one at a time (positions, list of apertures): bit-identical
        for ai, a in enumerate(spec['apers']):
            if not a.get('scalar'):
                for k, p in enumerate(a['positions']):
                    one = make_aperture(a['cls'], a['params'], p)
                    s1, e1 = one.do_photometry(data, error=eff_err, mask=eff_mask, method=method, subpixels=subpixels)
                    a1 = one.area_overlap(data, mask=eff_mask, method=method, subpixels=subpixels)
                    ok = same(s1, cols[ai][0][k:k + 1]) and (not has_err or same(e1, cols[ai][1][k:k + 1])) \
                        and same(a1, info['areas'][ai][k])
                    if not ok:
                        viol.append(('batch:positions', 'result for a position list differs from the single-position result',
                                     {'aperture': ai, 'position': k}))
            if len(apers) > 1 or not spec['single']:
                sub = dict(spec, apers=[a], single=True, form='array')
                t1, _, _ = call_photometry(sub, err=eff_err, mask=eff_mask) if has_err else call_photometry(dict(sub, err=None), mask=eff_mask)
                ok = same(colvals(t1, 'aperture_sum'), cols[ai][0]) and \
                    (not has_err or same(colvals(t1, 'aperture_sum_err'), cols[ai][1]))
                if not ok:
                    viol.append(('batch:apertures', 'column of an aperture list differs from the single-aperture table',
                                 {'aperture': ai}))
        # ---- call forms agree with the bare-array form on the effective inputs
        if spec['form'] != 'array':
            sub = dict(spec, form='array')
            tb, _, _ = call_photometry(sub, err=eff_err, mask=eff_mask) if has_err else call_photometry(dict(sub, err=None), mask=eff_mask)
            for (s, e), (s2, e2) in zip(cols, table_columns(tb, spec, has_err)):
                if not same(s, s2) or (has_err and not same(e, e2)):
                    viol.append((f'callform:{spec["form"]}', 'NDData/Quantity call form differs from the bare-array form', {}))
        if rng is None:
            return viol, info
        # ---- blind to the values stored in masked / zero-weight / out-of-box pixels
        d2, e2_ = data.astype(float), (None if eff_err is None else eff_err.astype(float))
        inset = np.zeros((ny, nx), bool)
        for ai, ms in enumerate(masks_all):
            for m in ms:
                _, P = pixel_set(m.data.tolist(), m.bbox, ny, nx, None if eff_mask is None else eff_mask.tolist())
                for (y, x, w) in P:
                    inset[y, x] = True
        junk = [math.nan, math.inf, -math.inf, 1e300, -7.0, 12345.678]
        for y in range(ny):
            for x in range(nx):
                if not inset[y, x]:
                    d2[y, x] = rng.choice(junk)
                    if e2_ is not None:
                        e2_[y, x] = rng.choice(junk)
        for ai, aper in enumerate(apers):
            s2, ee2 = aper.do_photometry(d2, error=e2_, mask=eff_mask, method=method, subpixels=subpixels)
            if not same(s2, cols[ai][0]) or (has_err and not same(ee2, cols[ai][1])):
                viol.append(('blind:outside-set', 'result depends on values stored in masked / zero-weight / out-of-box pixels',
                             {'aperture': ai}))
        # ---- linear in data
        fin = np.where(np.isfinite(data), data, 0.0).astype(float)   # float64 copy: a*d1 + b*d2 is formed in double
        if lattice:
            d_b = np.array([[rng.randint(-40, 40) / KD for _ in range(nx)] for _ in range(ny)])
            ca, cb = rng.choice([-2.0, 0.5, 3.0]), rng.choice([-1.0, 0.25, 2.0])
        else:
            d_b = np.array([[rng.gauss(0, 1) for _ in range(nx)] for _ in range(ny)]) * float(np.max(np.abs(fin)) or 1.0)
            ca, cb = rng.uniform(-3, 3), rng.uniform(-3, 3)
        comb = ca * fin + cb * d_b
        for ai, aper in enumerate(apers):
            sa, _ = aper.do_photometry(fin, mask=eff_mask, method=method, subpixels=subpixels)
            sb, _ = aper.do_photometry(d_b, mask=eff_mask, method=method, subpixels=subpixels)
            sc, _ = aper.do_photometry(comb, mask=eff_mask, method=method, subpixels=subpixels)
            for k, m in enumerate(masks_all[ai]):
                if not info['meets'][sum(len(x) for x in masks_all[:ai]) + k]:
                    continue
                lhs, rhs = Fraction(float(sc[k])), Fraction(ca) * Fraction(float(sa[k])) + Fraction(cb) * Fraction(float(sb[k]))
                if lattice:
                    ok = lhs == rhs
                else:
                    _, P = pixel_set(m.data.tolist(), m.bbox, ny, nx, None if eff_mask is None else eff_mask.tolist())
                    mag = sum((Fraction(float(w)) * (abs(Fraction(ca) * Fraction(float(fin[y][x]))) +
                                                     abs(Fraction(cb) * Fraction(float(d_b[y][x])))) for (y, x, w) in P), Fraction(0))
                    ok = abs(lhs - rhs) <= 4 * gamma(len(P) + 6) * mag
                if not ok:
                    viol.append(('linear:data', 'photometry(a*d1 + b*d2) != a*photometry(d1) + b*photometry(d2)',
                                 {'aperture': ai, 'position': k, 'a': ca, 'b': cb}))
    return viol, info


# --------------------------------------------------------------------------
# sky apertures through a simple linear (TAN) WCS
# --------------------------------------------------------------------------
def make_wcs(spec_w):
    from astropy.wcs import WCS
    w = WCS(naxis=2)
    w.wcs.crpix = spec_w['crpix']
    w.wcs.cdelt = spec_w['cdelt']
    w.wcs.crval = spec_w['crval']
    w.wcs.ctype = ['RA---TAN', 'DEC--TAN']
    th = spec_w['rot']
    w.wcs.pc = [[math.cos(th), -math.sin(th)], [math.sin(th), math.cos(th)]]
    return w


def sky_oracle(spec):
    """sky aperture photometry == photometry of its to_pixel(wcs) image (bit-identical), for the
    array, NDData(wcs=) and list-of-apertures forms; plus the set-sum oracle on the pixel image."""
    from astropy.nddata import NDData, StdDevUncertainty
    from photutils.aperture import aperture_photometry, SkyAperture
    viol = []
    data, err, mask, apers = build(spec)
    wcs = make_wcs(spec['wcs'])
    kw = dict(method=spec['method'], subpixels=spec['subpixels'])
    with warnings.catch_warnings():
        warnings.simplefilter('ignore')
        skies = [a.to_sky(wcs) for a in apers]
        assert all(isinstance(s, SkyAperture) for s in skies)
        pix = [s.to_pixel(wcs) for s in skies]
        arg_s = skies[0] if spec['single'] else skies
        arg_p = pix[0] if spec['single'] else pix
        t_s = aperture_photometry(data, arg_s, error=err, mask=mask, wcs=wcs, **kw)
        t_p = aperture_photometry(data, arg_p, error=err, mask=mask, **kw)
        nd = NDData(data, uncertainty=None if err is None else StdDevUncertainty(err), mask=mask, wcs=wcs)
        t_n = aperture_photometry(nd, arg_s, **kw)
        names = [c for c in t_p.colnames if c != 'sky_center']
        for c in names:
            if c not in t_s.colnames or not same(colvals(t_s, c), colvals(t_p, c)):
                viol.append(('sky:ne-to_pixel', f'column {c}: sky aperture differs from its to_pixel(wcs) image', {}))
            if c not in t_n.colnames or not same(colvals(t_n, c), colvals(t_p, c)):
                viol.append(('sky:nddata-wcs', f'column {c}: NDData(wcs) + sky aperture differs from to_pixel(wcs)', {}))
        if 'sky_center' not in t_s.colnames:
            viol.append(('sky:sky_center', 'sky_center column missing', {}))
    # the pixel image itself obeys the defining sums
    pspec = dict(spec, form='array', apers=[
        {'cls': type(p).__name__, 'positions': np.atleast_2d(p.positions).tolist(), 'scalar': p.isscalar,
         'params': {k: float(getattr(getattr(p, k), 'value', getattr(p, k)) if k != 'theta' else
                             (getattr(p, k).to_value('rad') if hasattr(getattr(p, k), 'to_value') else getattr(p, k)))
                    for k in p._params if k != 'positions'}} for p in pix])
    v2, _ = oracles(pspec, extra=False)
    return viol + v2, pspec


def gen_sky_spec(rng):
    spec = gen_spec(rng, lattice=False)
    spec.pop('invalid', None)
    ny, nx = len(spec['data']), len(spec['data'][0])
    spec['data'], e = gen_image(rng, ny, nx, False, False)
    if spec['err'] is not None:
        spec['err'] = e
    if spec['mask'] is not None and (len(spec['mask']) != ny or len(spec['mask'][0]) != nx):
        spec['mask'] = None
    spec['form'] = 'array'
    sc = rng.choice([0.05, 0.2, 1.0]) / 3600
    spec['wcs'] = {'crpix': [nx / 2 + rng.uniform(-2, 2), ny / 2 + rng.uniform(-2, 2)],
                   'cdelt': [-sc, sc], 'crval': [rng.uniform(0, 359), rng.uniform(-70, 70)],
                   'rot': rng.choice([0.0, 0.0, rng.uniform(-3, 3)])}
    # keep positions near the frame (far-off positions are fine for TAN at these scales)
    for a in spec['apers']:
        a['positions'] = [[min(max(p[0], -60.0), nx + 60.0), min(max(p[1], -60.0), ny + 60.0)] for p in a['positions']]
    pos = spec['apers'][0]['positions']
    for a in spec['apers']:
        a['positions'] = [list(p) for p in pos]
    return spec


# --------------------------------------------------------------------------
# negative annulus weights: an in-image pixel inside the hole of an 'exact' elliptical annulus
# --------------------------------------------------------------------------
def gen_hole_spec(rng):
    """Image = a few pixels lying in the hole of an elliptical annulus (method 'exact').  The
    pixel set {w > 0} may then be empty while the box still meets the image: sum = 0, area = 0."""
    import photutils.aperture as pa
    for _ in range(60):
        a_in = rng.uniform(1.5, 5.0)
        q = rng.uniform(0.5, 1.0)
        f = rng.uniform(1.1, 1.9)
        params = {'a_in': a_in, 'a_out': a_in * f, 'b_out': a_in * f * q, 'theta': rng.uniform(0, 3.1)}
        pos = [rng.randint(0, 40) / KD, rng.randint(0, 40) / KD]
        ap = pa.EllipticalAnnulus(pos, **params)
        m = ap.to_mask('exact')
        ys, xs = np.nonzero(m.data < 0) if rng.random() < 0.8 else np.nonzero(m.data == 0)
        if len(ys) == 0:
            continue
        i = rng.randrange(len(ys))
        gy, gx = int(ys[i]) + m.bbox.iymin, int(xs[i]) + m.bbox.ixmin
        ny, nx = rng.choice([1, 1, 2]), rng.choice([1, 1, 2])
        pos = [pos[0] - gx, pos[1] - gy]
        d, e = gen_image(rng, ny, nx, True, False)
        return {'lattice': False, 'data': d, 'err': e, 'mask': None, 'method': 'exact', 'subpixels': 5,
                'apers': [{'cls': 'EllipticalAnnulus', 'params': params, 'positions': [pos], 'scalar': True}],
                'single': True, 'kinds': ['hole'], 'form': 'array', 'fill': 0.0}
    return None


# --------------------------------------------------------------------------
# history oracle: the same aperture object re-used after the caller changed its position buffer
# --------------------------------------------------------------------------
def gen_history(rng):
    cls = rng.choice(PIXEL_CLASSES)
    ny, nx = rng.randint(8, 20), rng.randint(8, 20)
    d, e = gen_image(rng, ny, nx, False, False)
    form = rng.choice(['f64', 'f64', 'f64', 'int', 'list', 'tuple', 'f64scalar'])
    npos = 1 if form == 'f64scalar' else rng.randint(1, 4)

    def pos():
        p = [rng.uniform(-2, nx + 1), rng.uniform(-2, ny + 1)]
        return [float(round(v)) for v in p] if form == 'int' else p
    return {'cls': cls, 'params': gen_params(rng, cls, False), 'data': d, 'err': e,
            'mask': gen_mask(rng, ny, nx), 'method': rng.choice(['exact', 'center', 'subpixel']), 'subpixels': 3,
            'form': form, 'pos0': [pos() for _ in range(npos)], 'pos1': [pos() for _ in range(npos)],
            'pos2': [pos() for _ in range(npos)], 'op': rng.choice(['iadd', 'assign']),
            'pchange': [[rng.random(), rng.choice([0.5, 0.7, 1.6, 2.5, 2.5])] for _ in range(rng.randint(1, 3))]}


def param_assignment(aper, pick, factor):
    """(name, new value) of a valid assignment to a shape parameter of `aper`: inner sizes only shrink and
    outer sizes only grow (the constructors' ordering constraints), other sizes go either way, theta turns"""
    names = [k for k in aper._params if k != 'positions']
    name = names[int(pick * len(names)) % len(names)]
    cur = getattr(aper, name)
    if name == 'theta':
        return name, float(getattr(cur, 'value', cur)) + factor
    if name.endswith('_in'):
        factor = min(factor, 1.0 / factor)
    elif name.endswith('_out'):
        factor = max(factor, 1.0 / factor)
    return name, float(cur) * factor


def history_oracle(h):
    """build an aperture from a caller-owned position container, do photometry (caches filled), change the
    container in place, do photometry again with the SAME object, then assign aper.positions: at every stage
    the reported centres, the sums/errors/areas, the one-at-a-time results aper[k] and a fresh aperture at
    aper.positions must agree."""
    import photutils.aperture as pa
    from photutils.aperture import aperture_photometry
    data, err = _arr(h['data']), _arr(h['err'])
    mask = None if h['mask'] is None else np.array(h['mask'], bool)
    kw = dict(method=h['method'], subpixels=h['subpixels'])
    cls = getattr(pa, h['cls'])
    form = h['form']
    p0, p1, p2 = (np.array(h[k], float) for k in ('pos0', 'pos1', 'pos2'))
    if form == 'f64':
        buf = p0.copy()
    elif form == 'f64scalar':
        buf = p0[0].copy()
    elif form == 'int':
        buf = p0.astype(int)
    elif form == 'list':
        buf = [list(p) for p in p0]
    else:
        buf = tuple(tuple(p) for p in p0)
    viol = []

    def results(aper):
        t = aperture_photometry(data, aper, error=err, mask=mask, **kw)
        s, e = aper.do_photometry(data, error=err, mask=mask, **kw)
        a = np.atleast_1d(aper.area_overlap(data, mask=mask, **kw))
        return t, s, e, a

    def consistent(aper, stage):
        t, s, e, a = results(aper)
        pos = np.atleast_2d(aper.positions)
        if not (same(colvals(t, 'xcenter'), pos[:, 0]) and same(colvals(t, 'ycenter'), pos[:, 1])):
            viol.append((f'history:{stage}:centers', 'xcenter/ycenter differ from aper.positions', {}))
        if not (same(colvals(t, 'aperture_sum'), s) and same(colvals(t, 'aperture_sum_err'), e)):
            viol.append((f'history:{stage}:table-ne-do_photometry', 'table columns differ from do_photometry', {}))
        cur = {k: getattr(aper, k) for k in aper._params if k != 'positions'}
        fresh = cls(np.array(aper.positions, float), **cur)
        _, sf, ef, af = results(fresh)
        if not (same(sf, s) and same(ef, e) and same(af, a)):
            viol.append((f'history:{stage}:stale', 'sum/err/area_overlap of a re-used aperture object differ from a fresh '
                         'aperture at the positions it reports (stale cached masks)', {}))
        if not aper.isscalar:
            for k in range(len(aper)):
                _, s1, e1, a1 = results(aper[k])
                if not (same(s1, s[k:k + 1]) and same(e1, e[k:k + 1]) and same(a1, a[k:k + 1])):
                    viol.append((f'history:{stage}:single', 'aper[k] differs from entry k of the all-at-once result',
                                 {'position': k}))
                    break

    with warnings.catch_warnings():
        warnings.simplefilter('ignore')
        aper = cls(buf, **h['params'])
        consistent(aper, 'initial')
        # the caller re-uses its container
        if isinstance(buf, np.ndarray):
            new = p1[0] if form == 'f64scalar' else p1
            if h['op'] == 'iadd':
                buf += (new - buf).astype(buf.dtype)
            else:
                buf[...] = new
        elif isinstance(buf, list):
            for i, p in enumerate(p1):
                buf[i][0], buf[i][1] = float(p[0]), float(p[1])
        consistent(aper, 'after-caller-buffer-change')
        # the documented way of moving an aperture
        aper.positions = p2[0] if form == 'f64scalar' else p2
        consistent(aper, 'after-positions-assignment')
        if not same(np.atleast_2d(aper.positions), p2):
            viol.append(('history:assignment-ignored', 'aper.positions = new did not take effect', {}))
        # assigning shape parameters of the same (already used) object
        for i, (pick, factor) in enumerate(h.get('pchange', [])):
            name, value = param_assignment(aper, pick, factor)
            setattr(aper, name, value)
            got = getattr(aper, name)
            if float(getattr(got, 'value', got)) != value:
                viol.append(('history:parameter-assignment-ignored', f'aper.{name} = new did not take effect', {}))
            consistent(aper, f'after-parameter-assignment:{name}')
    return viol


# --------------------------------------------------------------------------
# history oracle 2: one ApertureMask object (kept from to_mask()) used for a sequence of calls
# --------------------------------------------------------------------------
MASK_OPS = ['get_values', 'get_values', 'get_values', 'multiply', 'cutout', 'to_image', 'get_overlap_slices']


def gen_maskhist(rng):
    cls = rng.choice(PIXEL_CLASSES)
    params = gen_params(rng, cls, False)
    ext = extent_of(cls, params)
    npos = rng.randint(1, 3)
    by, bx = rng.randint(3, 12), rng.randint(3, 12)
    positions = [list(gen_position(rng, by, bx, ext, False)[0]) for _ in range(npos)]
    if rng.random() < 0.7:       # at least one aperture well inside the first frame
        positions[0] = [rng.uniform(1, bx - 1), rng.uniform(1, by - 1)]
    steps = []
    for _ in range(rng.randint(4, 9)):
        if rng.random() < 0.7:
            ny, nx = by, bx
        else:
            ny, nx = rng.randint(1, 14), rng.randint(1, 14)
        d, _ = gen_image(rng, ny, nx, False, rng.random() < 0.2)
        steps.append({'obj': rng.randrange(npos), 'op': rng.choice(MASK_OPS), 'data': d,
                      'mask': gen_mask(rng, ny, nx), 'fill': rng.choice([0.0, 0.0, 2.5, -1.0, math.nan])})
    return {'cls': cls, 'params': params, 'positions': positions,
            'method': rng.choice(['exact', 'center', 'subpixel']), 'subpixels': rng.choice([1, 3, 5]),
            'steps': steps}


def mask_call(m, st):
    """one public ApertureMask call of the step, canonicalised for comparison"""
    data = _arr(st['data'])
    mask = None if st['mask'] is None else np.array(st['mask'], bool)
    op = st['op']
    with warnings.catch_warnings():
        warnings.simplefilter('ignore')
        if op == 'get_values':
            return np.asarray(m.get_values(data, mask=mask), float)
        if op == 'multiply':
            return m.multiply(data, fill_value=st['fill'])
        if op == 'cutout':
            return m.cutout(data, fill_value=st['fill'])
        if op == 'to_image':
            return m.to_image(data.shape)
        sl = m.get_overlap_slices(data.shape)
        return None if sl[0] is None else np.array([[s.start, s.stop] for pair in sl for s in pair], float)


def mask_definition(W, bb, st):
    """the same results from the definitions (plain loops over pixels)"""
    data = _arr(st['data'])
    ny, nx = data.shape
    mask = st['mask']
    op = st['op']
    meets, P = pixel_set(W.tolist(), bb, ny, nx, mask if op == 'get_values' else None)
    if op == 'get_values':
        with np.errstate(all='ignore'):
            return np.array([float(data[y][x]) * w for (y, x, w) in P], float)
    if not meets:
        return None
    h, w = W.shape
    fill = float(st['fill'])
    if op == 'get_overlap_slices':
        ys = [y for y in range(ny) if bb.iymin <= y < bb.iymax]
        xs = [x for x in range(nx) if bb.ixmin <= x < bb.ixmax]
        return np.array([[ys[0], ys[-1] + 1], [xs[0], xs[-1] + 1],
                         [ys[0] - bb.iymin, ys[-1] + 1 - bb.iymin], [xs[0] - bb.ixmin, xs[-1] + 1 - bb.ixmin]], float)
    exp_ti = np.zeros((ny, nx))
    exp_cu = np.full((h, w), fill)
    for i in range(h):
        for j in range(w):
            y, x = bb.iymin + i, bb.ixmin + j
            if 0 <= y < ny and 0 <= x < nx:
                exp_ti[y, x] = W[i, j]
                exp_cu[i, j] = data[y, x]
    if op == 'to_image':
        return exp_ti
    if op == 'cutout':
        return exp_cu
    with np.errstate(all='ignore'):
        return np.array([[fill if W[i, j] == 0 else float(exp_cu[i, j]) * float(W[i, j]) for j in range(w)]
                         for i in range(h)]).reshape(h, w)


def same_opt(a, b):
    if a is None or b is None:
        return a is None and b is None
    return same(a, b)


def maskhist_oracle(h):
    """a sequence of get_values / multiply / cutout / to_image / get_overlap_slices calls with varying data
    (shapes too), masks and fill values on the SAME ApertureMask objects: every result must equal the definition
    and the result of a fresh ApertureMask; data, bbox and shape of the object must never change."""
    from photutils.aperture import ApertureMask, BoundingBox
    viol = []
    aper = make_aperture(h['cls'], h['params'], h['positions'])
    with warnings.catch_warnings():
        warnings.simplefilter('ignore')
        kept = list(aper.to_mask(method=h['method'], subpixels=h['subpixels']))
    snap = [(m.data.copy(), (m.bbox.ixmin, m.bbox.ixmax, m.bbox.iymin, m.bbox.iymax), tuple(m.shape)) for m in kept]
    for k, st in enumerate(h['steps']):
        m = kept[st['obj']]
        W0, bb0, sh0 = snap[st['obj']]
        where = {'step': k, 'op': st['op'], 'object': st['obj'], 'earlier_ops': [s['op'] for s in h['steps'][:k] if s['obj'] == st['obj']]}
        got = mask_call(m, st)
        fresh = ApertureMask(W0.copy(), BoundingBox(*bb0))
        want_fresh = mask_call(fresh, st)
        want_def = mask_definition(W0, fresh.bbox, st)
        if not same_opt(got, want_def):
            viol.append((f'maskhistory:{st["op"]}:definition', f'{st["op"]} on a re-used ApertureMask differs from its definition', where))
        if not same_opt(got, want_fresh):
            viol.append((f'maskhistory:{st["op"]}:fresh', f'{st["op"]} on a re-used ApertureMask differs from a fresh ApertureMask', where))
        state_ok = (m.data.shape == W0.shape and same(m.data, W0) and tuple(m.shape) == sh0 and
                    (m.bbox.ixmin, m.bbox.ixmax, m.bbox.iymin, m.bbox.iymax) == bb0)
        if not state_ok:
            viol.append((f'maskhistory:{st["op"]}:state', f'{st["op"]} changed data/bbox/shape of the ApertureMask', where))
        if viol:
            break
    return viol


# --------------------------------------------------------------------------
# Coq terms
# --------------------------------------------------------------------------
def zval(v, scale):
    """double -> Some scaled integer | None (non-finite); raises if not on the lattice"""
    v = float(v)
    if not math.isfinite(v):
        return None
    f = Fraction(v) * scale
    if f.denominator != 1:
        raise OffLattice(v)
    return Some(int(f))


class OffLattice(Exception):
    pass


def zimg(a, scale):
    return [[zval(v, scale) for v in row] for row in a]


def zint(v, scale):
    f = Fraction(float(v)) * scale
    if f.denominator != 1:
        raise OffLattice(v)
    return int(f)


def sqrt_term(e):
    e = float(e)
    if not math.isfinite(e):
        return None
    if e == 0:
        return Some((0, 0))
    m, ex = math.frexp(e)
    E, t = int(m * 2 ** 53), 53 - ex
    if t < 0 or e < 0:
        raise OffLattice(e)
    return Some((E, t))


def opt(x):
    return None if x is None else Some(x)


def to_coq(spec, info):
    """Coq `case` for a lattice spec + the implementation's answers (info from oracles())."""
    data, err, mask, apers = build(spec)
    s = spec['subpixels'] if spec['method'] == 'subpixel' else (32 if spec['method'] == 'exact' else 1)
    WS = s * s
    D = KD * KD * WS
    SUMS = KD * WS
    coq_apers = []
    for ai, aper in enumerate(apers):
        ms = info['masks'][ai]
        pos = np.atleast_2d(aper.positions)
        coq_apers.append(Raw('(mkaper %s %s)' % (
            coq([(zint(p[0], KD), zint(p[1], KD)) for p in pos]),
            coq([(Raw('(mkbox %s %s %s %s)' % tuple(coq(int(v)) for v in (m.bbox.ixmin, m.bbox.ixmax, m.bbox.iymin, m.bbox.iymax))),
                  [[zint(w, WS) for w in row] for row in m.data.tolist()]) for m in ms]))))
    t = info['table']
    has_err = info['eff_err'] is not None
    cols = []
    for i, (sv, ev) in enumerate(info['cols']):
        cols.append((None if spec['single'] else Some(i), [zval(v, SUMS) for v in sv],
                     opt([sqrt_term(e) for e in ev]) if has_err else None))
    etab = Some(([int(v) for v in np.asarray(t['id'])], [zint(v, KD) for v in colvals(t, 'xcenter')],
                 [zint(v, KD) for v in colvals(t, 'ycenter')], cols))
    eareas = [[(None if math.isnan(float(a)) else Some(zint(a, WS))) for a in ar] for ar in info['areas']]
    fill = spec['fill']
    emasks = []
    eff_mask = info['eff_mask']
    for m in info['masks'][0][:2]:
        ti = m.to_image(data.shape)
        cu = m.cutout(data, fill_value=fill)
        mu = m.multiply(data, fill_value=fill)
        gv = m.get_values(data, mask=eff_mask)
        if mu is not None:
            mu = zimg(mu.tolist(), SUMS)
        emasks.append((opt(None if ti is None else [[zint(v, WS) for v in r] for r in ti.tolist()]),
                       opt(None if cu is None else zimg(cu.tolist(), KD)), opt(mu),
                       [zval(v, SUMS) for v in gv.tolist()]))
    if spec['form'] == 'nddata':
        unc = None
        if err is not None and spec['nd_unc'] in ('std', 'var'):
            unc = Some((spec['nd_unc'] == 'std', zimg(err.tolist(), KD)))
        nd = Some((unc, opt(None if mask is None else mask.tolist())))
        if spec.get('nd_kw'):
            kw_err = opt(None if err is None else zimg((err * 3.0).tolist(), KD))
            kw_mask = Some(np.zeros(data.shape, bool).tolist())
        else:
            kw_err, kw_mask = None, None
    else:
        nd = None
        kw_err = opt(None if err is None else zimg(err.tolist(), KD))
        kw_mask = opt(None if mask is None else mask.tolist())
    return coq((D, WS, zimg(data.tolist(), KD), kw_err, kw_mask, nd, bool(spec['single']), coq_apers,
                zval(fill, KD), etab, eareas, emasks))


def to_coq_invalid(spec):
    """invalid input: the model must also answer None (exception)."""
    data, err, mask, apers = build(spec)
    coq_apers = []
    for aper in apers:
        ms = aper.to_mask(method=spec['method'], subpixels=spec['subpixels'])
        ms = [ms] if aper.isscalar else list(ms)
        s = spec['subpixels'] if spec['method'] == 'subpixel' else (32 if spec['method'] == 'exact' else 1)
        pos = np.atleast_2d(aper.positions)
        coq_apers.append(Raw('(mkaper %s %s)' % (
            coq([(zint(p[0], KD), zint(p[1], KD)) for p in pos]),
            coq([(Raw('(mkbox %s %s %s %s)' % tuple(coq(int(v)) for v in (m.bbox.ixmin, m.bbox.ixmax, m.bbox.iymin, m.bbox.iymax))),
                  [[zint(w, s * s) for w in row] for row in m.data.tolist()]) for m in ms]))))
    return coq((1, 1, zimg(data.tolist(), KD), opt(None if err is None else zimg(err.tolist(), KD)),
                opt(None if mask is None else mask.tolist()), None, bool(spec['single']), coq_apers,
                Some(0), None, [], []))


# --------------------------------------------------------------------------
def describe(spec):
    return spec


def report(ctx, seen, sig, what, replay_obj, keep=3):
    """at most `keep` replay files per signature (the first, i.e. earliest generated, inputs)"""
    seen[sig] = seen.get(sig, 0) + 1
    if seen[sig] <= keep:
        ctx.violation(sig, what, replay_obj)
    else:
        ctx.stat('violations_not_written', sig)


def run(ctx):
    ctx.build_with_translator(FILES)
    rng = ctx.rng
    seen = {}
    quick = ctx.tier == 'quick'
    n_lat, n_dbl, n_sky, n_hole = (420, 260, 60, 40) if quick else (5000, 3000, 500, 300)
    ctx.cov['rule'] = (
        'lattice cases (dyadic data/error/positions; center, subpixel 1..32, rectangle exact) through K + V; '
        'arbitrary-double cases (exact / any subpixels) through V with the rigorous bound; six pixel classes, '
        'scalar / 1-4 positions (inside, pixel centre/corner, straddling an edge or corner, box touching the frame, '
        'far outside), 1-3 apertures, masks (none / random / all), NaN/inf pixels, bare array / NDData / Quantity, float64 / float32 / float16 / int16 / int32 / uint8 storage; '
        'sky apertures through a TAN WCS; hole images under exact elliptical annuli; re-used aperture objects after the caller changed its position container in place / after aper.positions = new / after assigning r, a, w, theta ...; sequences of get_values/multiply/cutout/to_image/get_overlap_slices with varying data shapes, masks and fills on one ApertureMask kept from to_mask(); '
        'non-trivial = at least one position whose pixel set is non-empty')
    ctx.assumptions += [
        'weights W and the bounding box are taken from the implementation (aperture.to_mask); their geometric '
        'meaning is property C01',
        'float arithmetic: on the lattice every numpy operation is exact (checked: off-lattice results are '
        'reported); for arbitrary doubles |impl - exact| <= gamma_(n+3) * sum|terms|',
        'sky apertures: compared with to_pixel(wcs) on the implementation only (no model of WCS)']
    ctx.cov['partial_clauses'] = [
        'sky == to_pixel(wcs): decided by the direct comparison on the implementation, not by a theorem',
        'Quantity / NDData unit handling: direct comparison with the bare-array form']
    specs = [gen_spec(rng, True) for _ in range(n_lat)] + [gen_spec(rng, False) for _ in range(n_dbl)]
    holes = [s for s in (gen_hole_spec(rng) for _ in range(n_hole)) if s is not None]
    ctx.stat('generator', 'hole_images', len(holes))
    specs += holes
    coq_cases, coq_specs = [], []
    for spec in specs:
        try:
            viol, info = oracles(spec, rng=rng)
        except Exception as ex:  # noqa: BLE001  (an implementation call outside aperture_photometry raised)
            viol, info = [('oracle:exception', f'{type(ex).__name__}: {str(ex)[:150]}', {})], {}
        ctx.stat('generator', 'lattice' if spec['lattice'] else 'doubles')
        ctx.stat('form', spec['form'])
        ctx.stat('dtype', spec.get('dtype') or 'float64')
        ctx.stat('method', spec['method'] + (str(spec['subpixels']) if spec['method'] == 'subpixel' else ''))
        for a in spec['apers']:
            ctx.stat('class', a['cls'])
        for k in spec['kinds']:
            ctx.stat('position', k)
        if spec.get('invalid'):
            ctx.stat('invalid', spec['invalid'])
        for m_ in info.get('meets', []):
            ctx.stat('result', 'overlap' if m_ else 'no-overlap(NaN)')
        ctx.stat('weights', 'negative_weight_pixels', info.get('negw', 0))
        ctx.stat('pixel_set', 'empty_but_overlapping',
                 sum(1 for n_, m_ in zip(info.get('npix', []), info.get('meets', [])) if m_ and n_ == 0))
        ctx.count_case(spec, any(n_ > 0 for n_ in info.get('npix', [])))
        for sig, what, detail in viol:
            report(ctx, seen, sig, what, {'spec': spec, 'where': detail, 'cmd': 'bin/check C02 --replay <this file>'})
        if spec['lattice'] and not viol:
            try:
                term = to_coq_invalid(spec) if spec.get('invalid') else to_coq(spec, info)
            except OffLattice as ex:
                ctx.violation('lattice:inexact', f'a result on the exact lattice is not a lattice value ({ex})',
                              {'spec': spec})
                continue
            coq_cases.append(term)
            coq_specs.append(spec)
    ctx.sample({'spec': specs[0]})
    bad = ctx.coq_eval_cases(['C02_Model'], 'check_case', coq_cases, case_type='case')
    ctx.stat('coq', 'disagreements', len(bad))
    for i in bad[:10]:
        # the property oracle found nothing on this input: model and code disagree elsewhere
        detail = {'spec': coq_specs[i],
                  'model': ctx.coq_eval_term(['C02_Model'], f'model_out {coq_cases[i]}')[:4000]}
        ctx.violation('correspondence:C02_Model.check_case', 'model and implementation disagree (the direct '
                      'oracles hold on this input)', detail, found_input=False)
    # sky apertures
    for _ in range(n_sky):
        spec = gen_sky_spec(rng)
        try:
            viol, pspec = sky_oracle(spec)
        except Exception as ex:  # noqa: BLE001
            viol, pspec = [('sky:exception', f'{type(ex).__name__}: {str(ex)[:150]}', {})], spec
        for a in spec['apers']:
            ctx.stat('sky_class', 'Sky' + a['cls'])
        ctx.count_case(spec, True)
        for sig, what, detail in viol:
            report(ctx, seen, sig, what, {'spec': spec, 'sky': True, 'where': detail})
    ctx.support('sky_eq_to_pixel(wcs)', n_sky)
    # re-used aperture objects (position container changed by the caller, positions re-assigned)
    n_hist = 36 if quick else 400
    for _ in range(n_hist):
        h = gen_history(rng)
        try:
            viol = history_oracle(h)
        except Exception as ex:  # noqa: BLE001
            viol = [('history:exception', f'{type(ex).__name__}: {str(ex)[:150]}', {})]
        ctx.stat('history_class', h['cls'])
        ctx.stat('history_form', h['form'] + ':' + h['op'])
        ctx.count_case(h, True)
        for sig, what, detail in viol:
            report(ctx, seen, sig, what, {'history': h, 'where': detail})
    ctx.support('reused_aperture_consistency', n_hist)
    # re-used ApertureMask objects: sequences of public calls on the same object
    n_mh = 60 if quick else 700
    for _ in range(n_mh):
        h = gen_maskhist(rng)
        try:
            viol = maskhist_oracle(h)
        except Exception as ex:  # noqa: BLE001
            viol = [('maskhistory:exception', f'{type(ex).__name__}: {str(ex)[:150]}', {})]
        ctx.stat('maskhistory_class', h['cls'])
        for st in h['steps']:
            ctx.stat('maskhistory_op', st['op'])
        ctx.count_case(h, True)
        for sig, what, detail in viol:
            report(ctx, seen, sig, what, {'maskhistory': h, 'where': detail})
    ctx.support('reused_aperturemask_consistency', n_mh)


def replay(obj):
    r = obj['replay']
    import random
    if 'maskhistory' in r:
        viol = maskhist_oracle(r['maskhistory'])
        for sig, what, detail in viol:
            print('FAIL', sig, what, detail)
        print('property FAILS on this input' if viol else 'property holds on this input')
        return 1 if viol else 0
    if 'history' in r:
        viol = history_oracle(r['history'])
        for sig, what, detail in viol:
            print('FAIL', sig, what, detail)
        print('property FAILS on this input' if viol else 'property holds on this input')
        return 1 if viol else 0
    spec = r['spec']
    if r.get('sky'):
        viol, _ = sky_oracle(spec)
    else:
        viol, info = oracles(spec, rng=random.Random(0))
        if 'table' in info:
            print(info['table'])
    for sig, what, detail in viol:
        print('FAIL', sig, what, detail)
    print('property FAILS on this input' if viol else 'property holds on this input')
    return 1 if viol else 0
