"""py2coq -- a fail-closed translator from a small, documented subset of Python to Gallina.

Purpose (DESIGN.md 2 "T", 3.4): the Gallina definitions of small pure scalar-logic functions of
photutils are REGENERATED from /repo's current source text on every run (coq/gen/Gen_*.v, never
committed); committed files coq/CNN_GenEq.v prove, for all inputs, that each regenerated definition
equals the hand-written model function the property theorems are about.  An edit of the Python
source that changes behaviour therefore breaks a proof obligation; a construct outside the subset
raises `Untranslatable(file, line, node)` -- the translator never guesses.

TARGETS (harness/translate_all.py)
    'def' : a whole function / method / property / classmethod / staticmethod / __init__.  The sorts of its
            parameters (after self / cls) are declared positionally, so renaming a parameter is harmless.
    'var' : the value a local variable holds after the last assignment to it inside a function that is
            otherwise outside the subset (ImagePSF.evaluate: xi, yi, invalid).  All assignments to the
            variable must be simple statements of ONE block and nothing they read may be reassigned in
            between (Translator.var_chain); the free names they read become the arguments.  Such a tie
            covers the formulas, not the surrounding control flow.
    'block': a SPAN of statements as a function of the names it reads (Translator.stmt_block): the run of
            statements, in the deepest common block, that contains the chosen assignments to `vars` (optionally
            only the `occurrences`-th in source order; inside a loop body: one iteration); result = the values
            of `ret` afterwards.  `return` / `break` / `continue` in the span, and reads of names that are neither
            declared nor bound in the span, are refused.  `cells={'flags[index]': Z}` declares an accumulator
            cell that is assigned through a subscript.
    'write': the slice assignments `A[lo:hi, ...] = const` of a span, as the predicate "element (i0, ..) of an
            array with axis lengths (n0, ..) is written" under Python/numpy basic-slice semantics
            (PyGen.py_in_slice: negative bounds wrap, bounds are clipped, a[-0:] is the whole axis);
            A.shape[k] / A.ndim are the declared lengths.  Index (non-slice) subscripts and steps are refused.
    'test': the condition of the `if` statement that mentions a given name (Translator.if_test).
    'ret' : the expression of the n-th `return E` of a function, or (append='out') the argument of the n-th
            `out.append(E)` (Translator.ret_expr).
  Cells may also be attribute targets (self.normalization_value) or dict items (self.__dict__['profile']); a cell is
  an argument only if it is listed in `sorts` (its value before the span).  Reading self.X after
  self.__dict__['X'] was assigned in the span is refused (the lazyproperty would alias it).
  `decorators_ok=[...]` lists decorators a 'def' target declares transparent for the per-source value
  (as_scalar, use_detcat); any other decorator is refused.
  Options of every kind: `abstract={'np.iinfo(self.data.dtype).max': ('dtype_max', Z)}` -- the expression with
  exactly this text is an argument of the declared sort (a library value the translator does not look into);
  `funcs={'np.sqrt': ('sqrt_', 1)}` -- an UNINTERPRETED real function: an extra argument (sqrt_ : Q -> Q),
  every call np.sqrt(e) becomes (sqrt_ e), nothing is assumed about it (the tie theorems state what they need);
  `vec=[names]` -- these tuple-sorted arguments are numpy row vectors (elementwise targets only);
  a parameter declared with sort None is opaque: it is not an argument and any direct read of it is refused.

SORTS (declared per target; they are the precondition of the tie: "for arguments of these Python types")
    'Z'  int (numpy integers behave the same in the translated arithmetic; isinstance(x, int) and
         isinstance(x, (int, np.integer)) are decided as True)  -> Z
    'Q'  float, read as an exact real -> Q     (NaN/inf and rounding are outside the model, DESIGN 3.1)
    'B'  bool                         -> bool
    'S'  str                          -> string
    ('tuple', (s1, ..., sn))          -> s1 * ... * sn; a tuple ARGUMENT p is flattened into p_0 ... p_{n-1}
    ('obj', 'Class')                  -> one argument per declared field: self.ixmin -> self_ixmin; an object
                                         RESULT is the tuple of its fields in declared order
    ('opt', s) / None                 -> option s; `if x is (not) None:` on an option-sorted NAME binds the payload
                                         in the not-None branch (match x with Some x' => .. | None => ..)
    ('obj', C) with C declared 'rec'  -> a record read by row['key'] / row[keyname] (table rows, dicts)
    ('list', s)                       -> list s   (only literal np.array([...]) / [...] of fixed length)
    slice(a, b)                       -> the pair (a, b)
  A value of sort Z used where a Q is needed is coerced with inject_Z (Python int -> float promotion).
  Return statements of different sorts are joined (None with T -> option T, componentwise on tuples:
  `return None, None` / `return a, b` -> option A * option B); a sort clash is refused.
  Comparisons are emitted in normal form: only <=?, <?, =? on Z (a >= b becomes b <=? a) and only
  Qle_bool, Qltb, Qeq_bool on Q, so that rewriting `a >= b` as `b <= a` does not change the output.

EXPRESSIONS
    int / float / bool / str / None literals (a float literal is the exact rational value of the double)
    names of arguments and locals; self.<declared field>; self.<translated property>
    t[k] with a literal k on a tuple/list whose components are known; len(t) of such a value
    + - * on Z and Q;  /  -> Q division;  // and %  on Z (Python floor semantics = Z.div / Z.modulo);
    x ** n for a literal 0 <= n <= 4;  unary - +;
    < <= > >= == != (chained too), `in` / `not in` a literal tuple, `is None` / `is not None`
    and / or / not on bool-sorted operands;  | & on bools (numpy elementwise or/and);  a if c else b
    min / max (n arguments or one literal tuple), abs, int() (identity on Z; on a float: truncation toward
    zero = floor for x >= 0, ceiling otherwise), float(), math.floor / math.ceil (Q -> Z: Qfloor / Qceiling),
    slice(a, b), isinstance(x, T) decided from the declared sort of x (classes may list their Python type
    names: np.ndarray);
    s.start / s.stop of a known slice; t[i] where i is the variable of an unrolled `for i in (0, 1)`;
    np.isfinite(x) of a declared (finite) number is True
    numpy scalar liftings: np.floor / np.ceil (integer-valued result, kept as Z), np.clip(v, lo, hi) =
    minimum(maximum(v, lo), hi), np.where(c, a, b) = if c then a else b, np.array([...]) -> list,
    list / scalar (elementwise), np.asarray / np.asanyarray / np.atleast_1d of a scalar, x.astype(int)
    on an integer-valued term, np.isscalar, np.prod of a tuple with known components, np.ones(<small literal
    shape>[, dtype=int]) / nested np.array(((..), (..))) -> list of lists, np.array(<elementwise expr>, dtype=int).
    np.atleast_1d(scalar) is a ONE-ELEMENT array, represented by its element and marked; elementwise
    operations keep the mark, v[0] removes it.
    Row vectors (elementwise targets): np.column_stack / np.transpose of a tuple of per-source scalars is ONE ROW
    of the (N, k) array; + - * / comparisons, np.ceil / np.floor act componentwise with scalar broadcasting;
    np.any(row_of_bools, axis=1) is the `or` of its components.
    calls of other translated targets (methods of self/other objects, constructors Class(...) /
    cls(...) -> the translated __init__).
STATEMENTS
    return; assignment to a name / tuple of names (unpacking of known tuples); augmented assignment;
    if / elif / else with early returns, with or without else (the rest of the block is duplicated into
    both branches: continuation-passing, so no merge is ever guessed); `raise Exc(...)` -> Raise Exc;
    `for v in (<literal tuple>)` unrolled; pass; docstrings; in __init__: self.<field> = e;
    `with warnings.catch_warnings():` whose body starts with warnings.simplefilter / filterwarnings('ignore', ..)
    is value-transparent (an 'ignore' filter cannot raise); any other `with` is refused.
    Falling off the end returns None.  Reading a local that is not bound on the current path gives
    Raise UnboundLocalError (that IS the Python semantics).
ERRORS
    A function with a reachable `raise`, a division by a non-literal, or a call of such a function,
    returns `res T`.  `a / b`, `a // b`, `a % b` with a non-literal b (Python scalars) are guarded:
    `if b == 0 then Raise ZeroDivisionError`, hoisted to the statement (refused inside the right
    operand of and/or and inside conditional expressions, where hoisting would be wrong).  Division of
    a numpy list by a scalar is numpy division (no exception); it is translated to Coq's total `/` and
    the divisor is listed in the header comment (the tie is then meaningful for non-zero divisors).
    Exception messages are dropped.  Calls of raising targets are allowed only as a whole right-hand
    side of an assignment or as a whole return value.
SIMPLIFICATION
    Only `if` on a literal True/False condition is folded (arising from isinstance / len / np.isscalar
    decided by the declared sorts) and `not` of a literal; nothing else is simplified.
Everything else (loops, comprehensions, attribute writes outside __init__, calls not listed, with,
try, lambda, starred, keyword tricks, ...) raises Untranslatable.

Each generated definition is preceded by a comment with file, line span and sha1 of the source span.
"""
import ast
import hashlib
from fractions import Fraction

Z, Q, B, S, NONE = 'Z', 'Q', 'B', 'S', 'none'


def TUP(*s):
    return ('tuple', tuple(s))


def OPT(s):
    return ('opt', s)


def OBJ(c):
    return ('obj', c)


def LIST(s):
    return ('list', s)


SLICE = TUP(Z, Z)

EXNS = {'TypeError', 'ValueError', 'ZeroDivisionError', 'UnboundLocalError', 'IndexError', 'KeyError',
        'NotImplementedError', 'RuntimeError', 'AttributeError', 'NoOverlapError'}
RESERVED = set('''at end in fun let if then else match with as return fix forall exists Type Set Prop using where
for mod is Ok Raise Some None true false negb andb orb fst snd Qfloor Qceiling Qmin Qmax Qabs Qltb Qle_bool
Qeq_bool inject_Z list option res pyexn bool string nil cons pair Z Q N nat Definition'''.split()) | EXNS


class Untranslatable(Exception):
    def __init__(self, file, line, node, why=''):
        self.file, self.line, self.node, self.why = file, line, node, why
        what = type(node).__name__ if isinstance(node, ast.AST) else str(node)
        super().__init__(f'{file}:{line}: untranslatable {what}' + (f' ({why})' if why else ''))


class _Unbound(Exception):
    """read of a local that is not bound on the current path"""


class V:
    """a typed Gallina term; `parts` = the components when they are known; `lit` = Python literal value"""

    def __init__(self, code, sort, parts=None, lit=None, arr1=False, vec=False):
        self.code, self.sort, self.parts, self.lit, self.arr1 = code, sort, parts, lit, arr1
        self.vec = vec          # a numpy row vector (elementwise arithmetic / comparisons with broadcasting)


# ------------------------------------------------------------------ sorts
def sort_coq(s, classes):
    if s == Z:
        return 'Z'
    if s == Q:
        return 'Q'
    if s == B:
        return 'bool'
    if s == S:
        return 'string'
    if s == NONE:
        return 'option unit'
    if s[0] == 'tuple':
        return '(' + ' * '.join(sort_coq(x, classes) for x in s[1]) + ')'
    if s[0] == 'opt':
        return '(option ' + sort_coq(s[1], classes) + ')'
    if s[0] == 'list':
        return '(list ' + sort_coq(s[1], classes) + ')'
    if s[0] == 'obj':
        return sort_coq(obj_tuple(s, classes), classes)
    if s[0] == 'res':
        return '(res ' + sort_coq(s[1], classes) + ')'
    if s[0] == 'fun':
        return '(' + ' -> '.join(['Q'] * (s[1] + 1)) + ')'
    raise ValueError(s)


def obj_tuple(s, classes):
    return TUP(*[fs for _, fs in classes[s[1]]['fields']])


def flat(s, classes):
    """sort with object sorts replaced by their field tuples"""
    if isinstance(s, tuple):
        if s[0] == 'obj':
            return flat(obj_tuple(s, classes), classes)
        if s[0] == 'tuple':
            return TUP(*[flat(x, classes) for x in s[1]])
        return (s[0], flat(s[1], classes))
    return s


def is_num(s):
    return s in (Z, Q)


# ------------------------------------------------------------------ the translator of one function
class Fn:
    """Result of a translation: Gallina text + interface."""

    def __init__(self, name, params, result, raising, text, divisors, span, sha):
        self.name, self.params, self.result, self.raising = name, params, result, raising
        self.text, self.divisors, self.span, self.sha = text, divisors, span, sha


class Translator:
    def __init__(self, file, classes, registry, elementwise=False, funcs=None):
        self.file = file
        # uninterpreted real functions: {'np.sqrt': ('sqrt_', 1)} -> an extra argument (sqrt_ : Q -> Q); every call
        # np.sqrt(e) becomes (sqrt_ e).  Nothing is assumed about them: the tie theorems state their hypotheses.
        self.funcs = dict(funcs or {})
        self.func_vals = {}
        self.cell_written = set()
        self.classes = classes          # {'Class': {'fields': [(name, sort)...]}}
        self.registry = registry        # {(class or None, pyname): Fn}
        self.elementwise = elementwise
        self.abstract_vals, self.block_mode, self.cells = {}, False, {}
        self.write_arr, self.write_lens, self.write_idx, self.write_val = None, [], [], None
        self.func_vals = {}
        self.cell_written = set()

    # -------- errors
    def bad(self, node, why=''):
        return Untranslatable(self.file, getattr(node, 'lineno', 0), node, why)

    # -------- names
    def fresh(self, base):
        base = ''.join(c if (c.isalnum() or c == '_') else '_' for c in base)
        if base in RESERVED or base.startswith('gen_') or not (base[0].isalpha() or base[0] == '_'):
            base = base + '_v'
        n = self.used.get(base, 0)
        self.used[base] = n + 1
        name = base if n == 0 else f'{base}_{n}'
        if n and name in self.used:
            return self.fresh(name)
        if n:
            self.used[name] = 1
        return name

    # -------- parameters
    def param_value(self, pname, sort, prefix=None):
        """a V for a declared argument, flattened; appends (coqname, scalar sort) to self.params"""
        prefix = prefix or pname
        if isinstance(sort, tuple) and sort[0] == 'obj':
            parts = [self.param_value(pname, fs, f'{prefix}_{fn}') for fn, fs in self.classes[sort[1]]['fields']]
            return V('(' + ', '.join(p.code for p in parts) + ')', sort, parts)
        if isinstance(sort, tuple) and sort[0] == 'tuple':
            parts = [self.param_value(pname, fs, f'{prefix}_{i}') for i, fs in enumerate(sort[1])]
            return V('(' + ', '.join(p.code for p in parts) + ')', sort, parts)
        name = self.fresh(prefix)
        self.params.append((name, sort))
        return V(name, sort)

    # -------- coercions
    def join(self, a, b, node):
        if a == b:
            return a
        if a is None:
            return b
        if b is None:
            return a
        if a == NONE:
            return b if (isinstance(b, tuple) and b[0] == 'opt') else OPT(b)
        if b == NONE:
            return a if (isinstance(a, tuple) and a[0] == 'opt') else OPT(a)
        if isinstance(a, tuple) and a[0] == 'opt':
            b2 = b[1] if (isinstance(b, tuple) and b[0] == 'opt') else b
            return OPT(self.join(a[1], b2, node))
        if isinstance(b, tuple) and b[0] == 'opt':
            return OPT(self.join(a, b[1], node))
        if {a, b} == {Z, Q}:
            return Q
        fa, fb = flat(a, self.classes), flat(b, self.classes)
        if fa == fb:
            return a
        if isinstance(fa, tuple) and isinstance(fb, tuple) and fa[0] == fb[0] == 'tuple' and len(fa[1]) == len(fb[1]):
            return TUP(*[self.join(x, y, node) for x, y in zip(fa[1], fb[1])])
        if isinstance(fa, tuple) and isinstance(fb, tuple) and fa[0] == fb[0] == 'list':
            return LIST(self.join(fa[1], fb[1], node))
        raise self.bad(node, f'incompatible sorts {a} / {b}')

    def coerce(self, v, to, node):
        """Gallina text of v at sort `to`"""
        frm = v.sort
        if frm == to or flat(frm, self.classes) == flat(to, self.classes):
            return v.code
        if isinstance(to, tuple) and to[0] == 'opt':
            if frm == NONE:
                return 'None'
            if isinstance(frm, tuple) and frm[0] == 'opt':
                raise self.bad(node, 'coercion between option sorts')
            return f'(Some {self.coerce(v, to[1], node)})'
        if frm == Z and to == Q:
            if v.lit is not None and not isinstance(v.lit, bool):
                return self.qlit(Fraction(v.lit))
            return f'(inject_Z {v.code})'
        fto = flat(to, self.classes)
        if isinstance(fto, tuple) and fto[0] in ('tuple', 'list') and v.parts is not None:
            subs = fto[1] if fto[0] == 'tuple' else [fto[1]] * len(v.parts)
            if len(subs) != len(v.parts):
                raise self.bad(node, 'tuple length')
            items = [self.coerce(p, s, node) for p, s in zip(v.parts, subs)]
            return ('(' + ', '.join(items) + ')') if fto[0] == 'tuple' else ('[' + '; '.join(items) + ']')
        raise self.bad(node, f'cannot coerce {frm} to {to}')

    def num2(self, a, b, node):
        """promote two numeric values to a common sort"""
        if not (is_num(a.sort) and is_num(b.sort)):
            raise self.bad(node, f'numeric operands expected, got {a.sort} / {b.sort}')
        s = Q if Q in (a.sort, b.sort) else Z
        return self.coerce(a, s, node), self.coerce(b, s, node), s

    @staticmethod
    def zlit(n):
        return f'{n}%Z' if n >= 0 else f'({n})%Z'

    @staticmethod
    def qlit(fr):
        return f'({fr.numerator} # {fr.denominator})%Q'

    # -------- expressions
    def E(self, n, env):
        if self.abstract_vals and not isinstance(n, (ast.Name, ast.Constant)):
            v = self.abstract_vals.get(ast.unparse(n))
            if v is not None:
                return v
        if self.cells and isinstance(n, (ast.Attribute, ast.Subscript)):
            key = ast.unparse(n)
            if key in self.cells:
                if key in env:
                    return env[key]
                raise _Unbound(key)
        m = getattr(self, 'e_' + type(n).__name__, None)
        if m is None:
            raise self.bad(n)
        return m(n, env)

    def e_Constant(self, n, env):
        c = n.value
        if isinstance(c, bool):
            return V('true' if c else 'false', B, lit=c)
        if isinstance(c, int):
            return V(self.zlit(c), Z, lit=c)
        if isinstance(c, float):
            if c != c or c in (float('inf'), float('-inf')):
                raise self.bad(n, 'non-finite float literal')
            return V(self.qlit(Fraction(c)), Q, lit=c)
        if isinstance(c, str):
            if '"' in c or any(ord(ch) > 126 or ord(ch) < 32 for ch in c):
                raise self.bad(n, 'string literal')
            return V(f'"{c}"%string', S, lit=c)
        if c is None:
            return V('None', NONE)
        raise self.bad(n)

    def e_Name(self, n, env):
        if n.id in env:
            return env[n.id]
        if n.id in self.locals:
            raise _Unbound(n.id)
        raise self.bad(n, f'unknown name {n.id}')

    def e_Tuple(self, n, env):
        parts = [self.E(e, env) for e in n.elts]
        if any(isinstance(e, ast.Starred) for e in n.elts):
            raise self.bad(n)
        return V('(' + ', '.join(p.code for p in parts) + ')', TUP(*[p.sort for p in parts]), parts)

    def e_List(self, n, env):
        return self.mk_list([self.E(e, env) for e in n.elts], n)

    def mk_list(self, parts, n):
        if not parts:
            raise self.bad(n, 'empty list')
        s = None
        for p in parts:
            s = self.join(s, p.sort, n)
        parts = [V(self.coerce(p, s, n), s) for p in parts]
        return V('[' + '; '.join(p.code for p in parts) + ']', LIST(s), parts)

    def e_Attribute(self, n, env):
        if isinstance(n.value, ast.Name) and n.value.id == 'self' and f"self.__dict__['{n.attr}']" in self.cell_written:
            raise self.bad(n, f'self.{n.attr} is read after self.__dict__[{n.attr!r}] was assigned in the span')
        if n.attr in ('start', 'stop') and not isinstance(n.value, ast.Name):
            v = self.E(n.value, env)
            if v.sort == SLICE and v.parts is not None:
                return v.parts[0 if n.attr == 'start' else 1]
            raise self.bad(n, '.start/.stop of a value that is not a known slice')
        if n.attr in ('start', 'stop') and isinstance(n.value, ast.Name) and n.value.id in env \
                and env[n.value.id].sort == SLICE and env[n.value.id].parts is not None:
            return env[n.value.id].parts[0 if n.attr == 'start' else 1]
        if isinstance(n.value, ast.Name) and self.write_arr is not None and n.value.id == self.write_arr:
            if n.attr == 'shape':
                return V('(' + ', '.join(v.code for v in self.write_lens) + ')', TUP(*[Z] * len(self.write_lens)),
                         list(self.write_lens))
            if n.attr == 'ndim':
                return V(self.zlit(len(self.write_lens)), Z, lit=len(self.write_lens))
            raise self.bad(n, 'attribute of the written array')
        if isinstance(n.value, ast.Name) and n.value.id in env:
            o = env[n.value.id]
            if isinstance(o.sort, tuple) and o.sort[0] == 'obj':
                cls = o.sort[1]
                names = [f for f, _ in self.classes[cls]['fields']]
                if n.attr in names:
                    if o.parts is None:
                        raise self.bad(n, 'object without known fields')
                    return o.parts[names.index(n.attr)]
                fn = self.registry.get((cls, n.attr))
                if fn is not None and fn.kind == 'property':
                    return self.call_fn(fn, [o], n)
                raise self.bad(n, f'{cls}.{n.attr} is not a declared field')
        if isinstance(n.value, ast.Name) and n.value.id == 'self' and self.init_mode:
            key = 'self.' + n.attr
            if key in env:
                return env[key]
            raise _Unbound(key)
        raise self.bad(n)

    def e_Subscript(self, n, env):
        v = self.E(n.value, env)
        k = n.slice
        if isinstance(v.sort, tuple) and v.sort[0] == 'obj' and self.classes[v.sort[1]].get('rec'):
            # row['name'] / row[colname]: a record with one declared field per key; a key is a string literal
            # or a NAME used as key (declared under that name; it must not be a translated local)
            if isinstance(k, ast.Constant) and isinstance(k.value, str):
                key = k.value
            elif isinstance(k, ast.Name) and k.id not in env and k.id not in self.locals:
                key = k.id
            else:
                raise self.bad(n, 'record key must be a string literal or a declared key name')
            names = [f for f, _ in self.classes[v.sort[1]]['fields']]
            if key not in names or v.parts is None:
                raise self.bad(n, f'{key!r} is not a declared key')
            return v.parts[names.index(key)]
        if isinstance(k, ast.UnaryOp) and isinstance(k.op, ast.USub) and isinstance(k.operand, ast.Constant):
            k = ast.Constant(value=-k.operand.value)
        if isinstance(k, ast.Name) and k.id in env and env[k.id].sort == Z and isinstance(env[k.id].lit, int) \
                and not isinstance(env[k.id].lit, bool):
            k = ast.Constant(value=env[k.id].lit)       # e.g. the variable of an unrolled `for i in (0, 1)`
        if not (isinstance(k, ast.Constant) and isinstance(k.value, int) and not isinstance(k.value, bool)):
            raise self.bad(n, 'subscript must be a literal integer')
        if v.arr1:
            if k.value not in (0, -1):
                raise self.bad(n, 'index into a one-element array')
            return V(v.code, v.sort, v.parts, v.lit, arr1=False)
        if v.parts is None or not (isinstance(v.sort, tuple) and v.sort[0] in ('tuple', 'list')):
            raise self.bad(n, 'subscript of a value whose components are not known')
        if not -len(v.parts) <= k.value < len(v.parts):
            raise self.bad(n, 'index out of range')
        return v.parts[k.value]

    def guard(self, d, sort, node):
        """register a ZeroDivisionError guard for a non-literal Python divisor"""
        if self.noguard:
            raise self.bad(node, 'division by a non-literal inside a short-circuit / conditional expression')
        self.guards.append((d, sort))

    def bcast(self, f, vals, node):
        """apply f componentwise to numpy row vectors (scalars broadcast)"""
        ks = {len(v.parts) for v in vals if v.parts is not None and (v.vec or v.sort[0] == 'tuple')}
        if len(ks) != 1 or any(v.arr1 for v in vals):
            raise self.bad(node, 'row vectors of different lengths')
        k = ks.pop()
        cols = []
        for i in range(k):
            cols.append(f(*[(v.parts[i] if (v.parts is not None and isinstance(v.sort, tuple)) else v) for v in vals]))
        return V('(' + ', '.join(c.code for c in cols) + ')', TUP(*[c.sort for c in cols]), cols, vec=True)

    def binop(self, op, a, b, n):
        node = ast.copy_location(ast.BinOp(left=ast.Constant(value=0), op=op, right=ast.Constant(value=0)), n)
        return self.e_BinOp(node, None, pre=(a, b))

    def e_BinOp(self, n, env, pre=None):
        a, b = pre if pre is not None else (self.E(n.left, env), self.E(n.right, env))
        if a.vec or b.vec:
            if not self.elementwise:
                raise self.bad(n, 'vector arithmetic outside an elementwise target')
            return self.bcast(lambda x, y: self.binop(n.op, x, y, n), [a, b], n)
        arr1 = a.arr1 or b.arr1
        op = type(n.op).__name__
        if op in ('BitOr', 'BitAnd'):
            if a.sort == B and b.sort == B:
                return V(f'({a.code} {"||" if op == "BitOr" else "&&"} {b.code})', B, arr1=arr1)
            raise self.bad(n, 'bitwise operator on non-bool')
        if isinstance(a.sort, tuple) and a.sort[0] == 'list' and op == 'Div' and is_num(b.sort):
            if a.parts is None:
                raise self.bad(n)
            bq = self.coerce(b, Q, n)
            self.divisors.append(bq)
            parts = [V(f'({self.coerce(p, Q, n)} / {bq})%Q', Q) for p in a.parts]
            return V('[' + '; '.join(p.code for p in parts) + ']', LIST(Q), parts)
        if op in ('Add', 'Sub', 'Mult'):
            x, y, s = self.num2(a, b, n)
            sym = {'Add': '+', 'Sub': '-', 'Mult': '*'}[op]
            return V(f'({x} {sym} {y})%{s}', s, arr1=arr1)
        if op == 'Div':
            x, y = self.coerce(a, Q, n), self.coerce(b, Q, n)
            if not (is_num(a.sort) and is_num(b.sort)):
                raise self.bad(n)
            if b.lit is None:
                if arr1 or self.elementwise:
                    self.divisors.append(y)
                else:
                    self.guard(y, Q, n)
            elif b.lit == 0:
                raise self.bad(n, 'division by literal zero')
            return V(f'({x} / {y})%Q', Q, arr1=arr1)
        if op in ('FloorDiv', 'Mod'):
            if not (a.sort == Z and b.sort == Z):
                raise self.bad(n, '// and % only on integers')
            if b.lit is None:
                self.guard(b.code, Z, n)
            elif b.lit == 0:
                raise self.bad(n, 'division by literal zero')
            return V(f'({a.code} {"/" if op == "FloorDiv" else "mod"} {b.code})%Z', Z, arr1=arr1)
        if op == 'Pow':
            if not (is_num(a.sort) and b.lit is not None and isinstance(b.lit, int) and 0 <= b.lit <= 4):
                raise self.bad(n, 'power with a non-literal or large exponent')
            if b.lit == 0:
                return V('1%Z' if a.sort == Z else '(1 # 1)%Q', a.sort)
            return V('(' + ' * '.join([a.code] * b.lit) + f')%{a.sort}', a.sort, arr1=arr1)
        raise self.bad(n)

    def e_UnaryOp(self, n, env):
        a = self.E(n.operand, env)
        if isinstance(n.op, ast.Not):
            if a.sort != B:
                raise self.bad(n, '`not` of a non-bool')
            if a.lit is not None:
                return V('false' if a.lit else 'true', B, lit=not a.lit)
            return V(f'(negb {a.code})', B, arr1=a.arr1)
        if isinstance(n.op, ast.USub) and is_num(a.sort):
            if a.lit is not None and a.sort == Z:
                return V(self.zlit(-a.lit), Z, lit=-a.lit)
            if a.lit is not None and a.sort == Q:
                return V(self.qlit(Fraction(-a.lit)), Q, lit=-a.lit)
            return V(f'(- {a.code})%{a.sort}', a.sort, arr1=a.arr1)
        if isinstance(n.op, ast.UAdd) and is_num(a.sort):
            return a
        raise self.bad(n)

    def e_BoolOp(self, n, env):
        vals = []
        saved = self.noguard
        for i, e in enumerate(n.values):
            if i:
                self.noguard = True
            try:
                vals.append(self.E(e, env))
            finally:
                self.noguard = saved
        for v, e in zip(vals, n.values):
            if v.sort != B:
                raise self.bad(e, 'and/or on a non-bool operand')
        sym = '&&' if isinstance(n.op, ast.And) else '||'
        return V('(' + f' {sym} '.join(v.code for v in vals) + ')', B, arr1=any(v.arr1 for v in vals))

    def cmp1(self, op, a, b, node):
        if (a.vec or b.vec) and op in ('Lt', 'LtE', 'Gt', 'GtE', 'Eq', 'NotEq'):
            return self.bcast(lambda x, y: self.cmp1(op, x, y, node), [a, b], node)
        arr1 = a.arr1 or b.arr1
        if op in ('Is', 'IsNot'):
            if b.sort != NONE:
                raise self.bad(node, '`is` only against None')
            if a.sort == NONE:
                return V('true' if op == 'Is' else 'false', B, lit=(op == 'Is'))
            if isinstance(a.sort, tuple) and a.sort[0] == 'opt':
                yes, no = ('false', 'true') if op == 'Is' else ('true', 'false')
                return V(f'(match {a.code} with Some _ => {yes} | None => {no} end)', B)
            return V('false' if op == 'Is' else 'true', B, lit=(op != 'Is'))     # a declared non-option sort is never None
        if op in ('In', 'NotIn'):
            if b.parts is None:
                raise self.bad(node, '`in` needs a literal tuple')
            eqs = [self.cmp1('Eq', a, p, node) for p in b.parts]
            code = '(' + ' || '.join(e.code for e in eqs) + ')'
            return V(code if op == 'In' else f'(negb {code})', B)
        if is_num(a.sort) and is_num(b.sort):
            x, y, s = self.num2(a, b, node)
            if s == Z and a.lit is not None and b.lit is not None:
                r = {'Lt': a.lit < b.lit, 'LtE': a.lit <= b.lit, 'Gt': a.lit > b.lit, 'GtE': a.lit >= b.lit,
                     'Eq': a.lit == b.lit, 'NotEq': a.lit != b.lit}[op]
                return V('true' if r else 'false', B, lit=r)
            if s == Z:
                t = {'Lt': f'({x} <? {y})%Z', 'LtE': f'({x} <=? {y})%Z', 'Gt': f'({y} <? {x})%Z',
                     'GtE': f'({y} <=? {x})%Z', 'Eq': f'({x} =? {y})%Z', 'NotEq': f'(negb ({x} =? {y})%Z)'}[op]
            else:
                t = {'Lt': f'(Qltb {x} {y})', 'LtE': f'(Qle_bool {x} {y})', 'Gt': f'(Qltb {y} {x})',
                     'GtE': f'(Qle_bool {y} {x})', 'Eq': f'(Qeq_bool {x} {y})',
                     'NotEq': f'(negb (Qeq_bool {x} {y}))'}[op]
            return V(t, B, arr1=arr1)
        if a.sort == b.sort and a.sort in (B, S) and op in ('Eq', 'NotEq'):
            f = 'Bool.eqb' if a.sort == B else 'String.eqb'
            t = f'({f} {a.code} {b.code})'
            return V(t if op == 'Eq' else f'(negb {t})', B)
        raise self.bad(node, f'comparison {op} on {a.sort} / {b.sort}')

    def e_Compare(self, n, env):
        vals = [self.E(n.left, env)] + [self.E(c, env) for c in n.comparators]
        cs = [self.cmp1(type(o).__name__, vals[i], vals[i + 1], n) for i, o in enumerate(n.ops)]
        if len(cs) == 1:
            return cs[0]
        return V('(' + ' && '.join(c.code for c in cs) + ')', B, arr1=any(c.arr1 for c in cs))

    def e_IfExp(self, n, env):
        c = self.E(n.test, env)
        if c.sort != B:
            raise self.bad(n, 'condition is not a bool')
        saved, self.noguard = self.noguard, True
        try:
            a, b = self.E(n.body, env), self.E(n.orelse, env)
        finally:
            self.noguard = saved
        if c.lit is not None:
            return a if c.lit else b
        s = self.join(a.sort, b.sort, n)
        return V(f'(if {c.code} then {self.coerce(a, s, n)} else {self.coerce(b, s, n)})', s)

    # ---- calls
    def dotted(self, f):
        if isinstance(f, ast.Name):
            return f.id
        if isinstance(f, ast.Attribute):
            d = self.dotted(f.value)
            return None if d is None else d + '.' + f.attr
        return None

    def fold_minmax(self, which, vals, node):
        s = Z if all(v.sort == Z for v in vals) else Q
        f = {('min', Z): 'Z.min', ('max', Z): 'Z.max', ('min', Q): 'Qmin', ('max', Q): 'Qmax'}[(which, s)]
        acc = self.coerce(vals[0], s, node)
        for v in vals[1:]:
            if not is_num(v.sort):
                raise self.bad(node)
            acc = f'({f} {acc} {self.coerce(v, s, node)})'
        return V(acc, s, arr1=any(v.arr1 for v in vals))

    def e_Call(self, n, env):
        top, self.stmt_call = self.stmt_call, False
        name = self.dotted(n.func)
        kw = {k.arg: k.value for k in n.keywords}
        if None in kw or any(isinstance(a, ast.Starred) for a in n.args):
            raise self.bad(n, 'star arguments')
        A = n.args

        def args(k, allow_kw=()):
            if len(A) != k or set(kw) - set(allow_kw):
                raise self.bad(n, f'{name}: unexpected arguments')
            return [self.E(a, env) for a in A]

        if name in self.funcs:
            pname, arity = self.funcs[name]
            vals = args(arity)
            if not all(is_num(v.sort) and not v.vec for v in vals):
                raise self.bad(n, f'{name}: scalar numeric arguments expected')
            if name not in self.func_vals:
                raise self.bad(n, f'{name} was not declared before translation')
            return V('(' + ' '.join([self.func_vals[name]] + [self.coerce(v, Q, n) for v in vals]) + ')', Q,
                     arr1=any(v.arr1 for v in vals))
        if name in ('math.floor', 'math.ceil', 'np.floor', 'np.ceil'):
            a, = args(1)
            f = 'Qfloor' if name.endswith('floor') else 'Qceiling'
            if a.vec and name.startswith('np.'):
                return self.bcast(lambda x: x if x.sort == Z else V(f'({f} {x.code})', Z), [a], n)
            if a.sort == Z:
                return a
            if a.sort != Q:
                raise self.bad(n)
            return V(f'({f} {a.code})', Z, arr1=a.arr1)
        if name == 'int':
            a, = args(1)
            if a.sort == Q and not a.arr1:        # int(float) truncates toward zero
                return V(f'(if Qle_bool (0 # 1)%Q {a.code} then Qfloor {a.code} else Qceiling {a.code})', Z)
            if a.sort != Z:
                raise self.bad(n, 'int() of a non-numeric term')
            return a
        if name == 'float':
            a, = args(1)
            if not is_num(a.sort):
                raise self.bad(n)
            return V(self.coerce(a, Q, n), Q, arr1=a.arr1)
        if name in ('min', 'max'):
            if kw:
                raise self.bad(n)
            vals = [self.E(a, env) for a in A]
            if len(vals) == 1 and vals[0].parts is not None:
                vals = vals[0].parts
            if len(vals) < 2 or not all(is_num(v.sort) for v in vals):
                raise self.bad(n, 'min/max arguments')
            return self.fold_minmax(name, vals, n)
        if name in ('np.minimum', 'np.maximum'):
            return self.fold_minmax(name[3:6], args(2), n)
        if name == 'abs' or name == 'np.abs':
            a, = args(1)
            if not is_num(a.sort):
                raise self.bad(n)
            return V(f'({"Z.abs" if a.sort == Z else "Qabs"} {a.code})', a.sort, arr1=a.arr1)
        if name == 'len':
            a, = args(1)
            if a.parts is None or a.arr1:
                raise self.bad(n, 'len of a value of unknown length')
            return V(self.zlit(len(a.parts)), Z, lit=len(a.parts))
        if name == 'slice':
            a, b = args(2)
            if a.sort != Z or b.sort != Z:
                raise self.bad(n, 'slice bounds must be integers')
            return V(f'({a.code}, {b.code})', SLICE, [a, b])
        if name == 'isinstance':
            if len(A) != 2 or kw:
                raise self.bad(n)
            a = self.E(A[0], env)
            tys = A[1].elts if isinstance(A[1], ast.Tuple) else [A[1]]
            tn = [self.dotted(t) for t in tys]
            if None in tn:
                raise self.bad(n)
            if a.sort == Z and not a.arr1:
                ok = set(tn) & {'int', 'np.integer', 'numbers.Integral'}
                if ok or set(tn) <= {'float', 'str', 'bool', 'np.floating', 'tuple', 'list'}:
                    return V('true' if ok else 'false', B, lit=bool(ok))
            if isinstance(a.sort, tuple) and a.sort[0] == 'obj':
                mine = set(self.classes[a.sort[1]].get('pytypes', [a.sort[1]]))
                known = {t for c in self.classes.values() for t in c.get('pytypes', [])} | set(self.classes)
                if set(tn) & mine:
                    return V('true', B, lit=True)
                if set(tn) <= known:        # another declared class: the declared sort says it is not that
                    return V('false', B, lit=False)
            raise self.bad(n, f'isinstance not decidable from the declared sort {a.sort}')
        if name == 'np.clip':
            v, lo, hi = args(3)
            return self.fold_minmax('min', [self.fold_minmax('max', [v, lo], n), hi], n)
        if name == 'np.where':
            c, a, b = args(3)
            if c.sort != B:
                raise self.bad(n)
            s = self.join(a.sort, b.sort, n)
            return V(f'(if {c.code} then {self.coerce(a, s, n)} else {self.coerce(b, s, n)})', s,
                     arr1=c.arr1 or a.arr1 or b.arr1)
        if name == 'np.array' and self.elementwise and len(A) == 1 and set(kw) <= {'dtype'} \
                and not isinstance(A[0], (ast.List, ast.Tuple)):
            # np.array(<elementwise expression>, dtype=...): the element itself, converted to the dtype
            a = self.E(A[0], env)
            dt = self.dotted(kw['dtype']) if 'dtype' in kw else None
            if a.sort == B and dt == 'int':
                return V(f'(if {a.code} then 1%Z else 0%Z)', Z, arr1=a.arr1)
            if (a.sort == B and dt in (None, 'bool')) or (a.sort == Z and dt in (None, 'int')) or (a.sort == Q and dt in (None, 'float')):
                return a
            if a.sort == Z and dt == 'float':
                return V(self.coerce(a, Q, n), Q, arr1=a.arr1)
            raise self.bad(n, 'np.array dtype conversion')
        if name == 'np.array':
            if len(A) != 1 or kw or not isinstance(A[0], (ast.List, ast.Tuple)):
                raise self.bad(n, 'np.array of a non-literal')

            def lit(e):         # nested tuple / list literals are the rows of the array
                if isinstance(e, (ast.List, ast.Tuple)):
                    return self.mk_list([lit(x) for x in e.elts], n)
                return self.E(e, env)
            return lit(A[0])
        if name in ('np.asarray', 'np.asanyarray', 'np.atleast_1d'):
            a, = args(1, allow_kw=('dtype',))
            if not (is_num(a.sort) or a.sort == B) or not self.elementwise:
                raise self.bad(n, f'{name} is translated only for scalar arguments of elementwise targets')
            if 'dtype' in kw:
                if self.dotted(kw['dtype']) != 'float':
                    raise self.bad(n, 'dtype')
                a = V(self.coerce(a, Q, n), Q, arr1=a.arr1)
            return V(a.code, a.sort, a.parts, a.lit, arr1=(a.arr1 or name == 'np.atleast_1d'))
        if name == 'np.prod':
            a, = args(1)
            if a.parts is None or not all(is_num(p.sort) for p in a.parts) or a.arr1:
                raise self.bad(n, 'np.prod of a value whose components are not known')
            s_ = Z if all(p.sort == Z for p in a.parts) else Q
            return V('(' + ' * '.join(self.coerce(p, s_, n) for p in a.parts) + f')%{s_}', s_)
        if name == 'np.ones':
            if len(A) != 1 or set(kw) - {'dtype'}:
                raise self.bad(n)
            shp = self.E(A[0], env)
            dims = [p.lit for p in shp.parts] if shp.parts is not None else [shp.lit]
            if not dims or not all(isinstance(d, int) and not isinstance(d, bool) and 1 <= d <= 9 for d in dims):
                raise self.bad(n, 'np.ones needs a small literal shape')
            isint = 'dtype' in kw and self.dotted(kw['dtype']) in ('int', 'np.int64', 'np.intp')
            if 'dtype' in kw and not isint and self.dotted(kw['dtype']) not in ('float', 'np.float64'):
                raise self.bad(n, 'dtype')

            def ones(ds):
                if not ds:
                    return V('1%Z', Z, lit=1) if isint else V('(1 # 1)%Q', Q)
                return self.mk_list([ones(ds[1:]) for _ in range(ds[0])], n)
            return ones(dims)
        if name in ('np.transpose', 'np.column_stack') and self.elementwise:
            # one ROW of the (N, k) array built from k per-source scalars
            a, = args(1)
            if a.parts is None or not all(is_num(p.sort) for p in a.parts):
                raise self.bad(n, f'{name} of per-source scalars only')
            return V(a.code, a.sort, a.parts, vec=True)
        if name == 'np.any' and self.elementwise:
            a, = args(1, allow_kw=('axis',))
            if not (a.vec and a.parts is not None and all(p.sort == B for p in a.parts)):
                raise self.bad(n, 'np.any only over the components of a row vector')
            if 'axis' in kw and not (isinstance(kw['axis'], ast.Constant) and kw['axis'].value in (1, -1)):
                raise self.bad(n, 'axis')
            return V('(' + ' || '.join(p.code for p in a.parts) + ')', B)
        if name == 'np.isfinite':
            a, = args(1)
            if is_num(a.sort) and not a.vec:
                return V('true', B, lit=True)       # the declared sorts Z / Q are finite numbers
            raise self.bad(n, 'np.isfinite of a non-number')
        if name == 'np.isscalar':
            a, = args(1)
            if not (is_num(a.sort) or a.sort in (B, S)):
                raise self.bad(n)
            return V('false' if a.arr1 else 'true', B, lit=not a.arr1)
        if name in ('np.logical_or', 'np.logical_and'):
            a, b = args(2)
            if a.sort != B or b.sort != B:
                raise self.bad(n)
            return V(f'({a.code} {"||" if name.endswith("or") else "&&"} {b.code})', B, arr1=a.arr1 or b.arr1)
        if name == 'np.logical_not':
            a, = args(1)
            if a.sort != B:
                raise self.bad(n)
            return V(f'(negb {a.code})', B, arr1=a.arr1)
        # x.astype(int)
        if isinstance(n.func, ast.Attribute) and n.func.attr == 'astype':
            a = self.E(n.func.value, env)
            if len(A) == 1 and not kw and self.dotted(A[0]) == 'int' and a.sort == Z:
                return a
            if len(A) == 1 and not kw and self.dotted(A[0]) == 'float' and is_num(a.sort):
                return V(self.coerce(a, Q, n), Q, arr1=a.arr1)
            raise self.bad(n, 'astype')
        # calls of other translated targets
        fn, recv = self.resolve(n.func, env)
        if fn is None:
            raise self.bad(n, f'call of {name or "?"} is not in the subset')
        vals = self.bind_args(fn, recv, n, env)
        if fn.raising and not top:
            raise self.bad(n, f'call of raising target {fn.name} inside an expression')
        return self.call_fn(fn, vals, n)

    def resolve(self, f, env):
        """(Fn, receiver V or None) for a call of another target"""
        if isinstance(f, ast.Name):
            if f.id == 'cls' and self.cls_name:
                return self.registry.get((self.cls_name, '__init__')), None
            if f.id in self.classes:
                return self.registry.get((f.id, '__init__')), None
            return self.registry.get((None, f.id)), None
        if isinstance(f, ast.Attribute) and isinstance(f.value, ast.Name):
            o = env.get(f.value.id)
            if o is not None and isinstance(o.sort, tuple) and o.sort[0] == 'obj':
                fn = self.registry.get((o.sort[1], f.attr))
                if fn is not None and fn.kind == 'method':
                    return fn, o
                return None, None
            if f.value.id in self.classes or (f.value.id == 'cls' and self.cls_name):
                c = self.cls_name if f.value.id == 'cls' else f.value.id
                fn = self.registry.get((c, f.attr))
                if fn is not None and fn.kind in ('classmethod', 'staticmethod'):
                    return fn, None
        return None, None

    def bind_args(self, fn, recv, n, env):
        names = [p for p, _ in fn.pyparams]
        vals = {}
        if recv is not None:
            vals[names[0]] = recv
            names = names[1:]
        if len(n.args) > len(names):
            raise self.bad(n, 'too many arguments')
        for p, a in zip(names, n.args):
            vals[p] = self.E(a, env)
        for k in n.keywords:
            if k.arg not in names or k.arg in vals:
                raise self.bad(n, f'keyword {k.arg}')
            vals[k.arg] = self.E(k.value, env)
        out = []
        for p, s in fn.pyparams:
            if p not in vals:
                raise self.bad(n, f'missing argument {p} (defaults are not translated)')
            out.append(V(self.coerce(vals[p], s, n), s, vals[p].parts))
        return out

    def call_fn(self, fn, vals, node):
        flatargs = []

        def fl(v, s):
            fs = flat(s, self.classes)
            if isinstance(fs, tuple) and fs[0] == 'tuple':
                if v.parts is None:
                    raise self.bad(node, 'argument whose components are not known')
                for p, ps in zip(v.parts, fs[1]):
                    fl(p, ps)
            else:
                flatargs.append(self.coerce(v, s, node))
        for v, (_, s) in zip(vals, fn.pyparams):
            fl(v, s)
        code = '(' + ' '.join([fn.name] + flatargs) + ')' if flatargs else fn.name
        return V(code, fn.result)

    # -------- statements (continuation-passing; IR = nested tuples)
    def own(self, thunk):
        """evaluate the statement's own expressions; returns (value, wrap) where wrap adds the
        ZeroDivisionError guards, or (None, ir) if a local is unbound"""
        self.guards = []
        try:
            v = thunk()
        except _Unbound as u:
            if self.block_mode:     # the name may have been bound before the translated span: never guess
                raise Untranslatable(self.file, 0, f'name {u}', 'read in the span but not declared and not bound in it')
            return None, ('raise', 'UnboundLocalError')
        guards = self.guards
        self.guards = []

        def wrap(ir):
            for d, s in reversed(guards):
                c = f'(Qeq_bool {d} (0 # 1)%Q)' if s == Q else f'({d} =? 0%Z)%Z'
                ir = ('if', c, ('raise', 'ZeroDivisionError'), ir)
            return ir
        return v, wrap

    def bind(self, pyname, v, env, node):
        """let-bind v under the Python name; returns (new env, wrapper of the body IR)"""
        lets = []

        def go(v, base):
            fs = flat(v.sort, self.classes)
            if isinstance(fs, tuple) and fs[0] in ('tuple', 'list') and v.parts is not None:
                parts = [go(p, f'{base}_{i}') for i, p in enumerate(v.parts)]
                o, c, sep = ('(', ')', ', ') if fs[0] == 'tuple' else ('[', ']', '; ')
                return V(o + sep.join(p.code for p in parts) + c, v.sort, parts, arr1=v.arr1, vec=v.vec)
            if isinstance(fs, tuple) and fs[0] == 'tuple':      # opaque tuple (call result): destructure
                pat, val = self.pattern(fs, base)
                lets.append(('letpat', pat, v.code))
                return V(val.code, v.sort, val.parts)
            if (v.lit is not None and not isinstance(v.lit, float)) or v.sort == NONE:
                return v
            name = self.fresh(base)
            lets.append(('let', name, v.code))
            return V(name, v.sort, None, None, arr1=v.arr1)
        nv = go(v, pyname)
        env2 = dict(env)
        env2[pyname] = nv

        def wrap(body):
            for l in reversed(lets):
                body = (l[0], l[1], l[2], body)
            return body
        return env2, wrap

    def pattern(self, fs, base):
        """(pattern text, V with parts) for destructuring a value of flattened tuple sort fs"""
        if isinstance(fs, tuple) and fs[0] == 'tuple':
            subs = [self.pattern(s, f'{base}_{i}') for i, s in enumerate(fs[1])]
            return '(' + ', '.join(p for p, _ in subs) + ')', \
                V('(' + ', '.join(v.code for _, v in subs) + ')', fs, [v for _, v in subs])
        name = self.fresh(base)
        return name, V(name, fs)

    def stmt_value(self, node, env):
        """evaluate a whole right-hand side / return value; a call of a raising target is allowed here"""
        if isinstance(node, ast.Call):
            fn, _ = self.resolve(node.func, env)
            self.stmt_call = True
            try:
                v = self.E(node, env)
            finally:
                self.stmt_call = False
            return v, (fn if (fn is not None and fn.raising) else None)
        return self.E(node, env), None

    def with_value(self, node, env, base, k):
        """IR that evaluates `node`, binds it (as `base`) and continues with k(value, env)"""
        r, wrap = self.own(lambda: self.stmt_value(node, env))
        if r is None:
            return wrap
        v, fn = r
        if fn is not None:          # monadic bind
            fs = flat(fn.result, self.classes)
            pat, val = self.pattern(fs, base)
            val = V(val.code, fn.result, val.parts)
            return wrap(('bind', pat, v.code, k(val, env), sorted(fn.raises)))
        return wrap(k(v, env))

    def block(self, stmts, env, k):
        if not stmts:
            return k(env)
        s, rest = stmts[0], stmts[1:]

        def cont(e):
            return self.block(rest, e, k)
        m = getattr(self, 's_' + type(s).__name__, None)
        if m is None:
            raise self.bad(s)
        return m(s, env, cont)

    def s_Pass(self, s, env, cont):
        return cont(env)

    def s_Expr(self, s, env, cont):
        if isinstance(s.value, ast.Constant) and isinstance(s.value.value, str):
            return cont(env)
        raise self.bad(s, 'expression statement (possible side effect)')

    def s_Return(self, s, env, cont):
        if self.block_mode:
            raise self.bad(s, 'return inside a translated span')
        if s.value is None:
            return ('ret', V('None', NONE), s)
        return self.with_value(s.value, env, 'r', lambda v, e: ('ret', v, s))

    def s_Raise(self, s, env, cont):
        e = s.exc
        if isinstance(e, ast.Call):
            e = e.func
        if not (isinstance(e, ast.Name) and e.id in EXNS) or s.cause is not None:
            raise self.bad(s, 'raise of an unknown exception')
        return ('raise', e.id)

    def assign(self, target, v, env, node):
        """returns (env, wrap)"""
        if isinstance(target, ast.Name):
            return self.bind(target.id, v, env, node)
        if isinstance(target, (ast.Tuple, ast.List)):
            if v.parts is None or len(v.parts) != len(target.elts) or v.arr1:
                raise self.bad(node, 'unpacking of a value whose components are not known')
            wraps = []
            for t, p in zip(target.elts, v.parts):
                env, w = self.assign(t, p, env, node)
                wraps.append(w)

            def wrap(body):
                for w in reversed(wraps):
                    body = w(body)
                return body
            return env, wrap
        if isinstance(target, (ast.Subscript, ast.Attribute)) and ast.unparse(target) in self.cells:
            # a declared cell such as flags[index], self.normalization_value, self.__dict__['profile']
            key = ast.unparse(target)
            self.cell_written.add(key)
            v = V(self.coerce(v, self.cells[key], node), self.cells[key])
            return self.bind(key, v, env, node)
        if (isinstance(target, ast.Subscript) and isinstance(target.value, ast.Name)
                and self.write_arr is not None and target.value.id == self.write_arr):
            return self.slice_write(target, v, env, node)
        if (isinstance(target, ast.Attribute) and isinstance(target.value, ast.Name) and target.value.id == 'self'
                and self.init_mode):
            names = [f for f, _ in self.classes[self.cls_name]['fields']]
            if target.attr not in names:
                raise self.bad(node, f'self.{target.attr} is not a declared field')
            want = dict(self.classes[self.cls_name]['fields'])[target.attr]
            v = V(self.coerce(v, want, node), want, v.parts)
            return self.bind('self.' + target.attr, v, env, node)
        raise self.bad(node, 'assignment target')

    def s_Assign(self, s, env, cont):
        if len(s.targets) != 1:
            raise self.bad(s, 'chained assignment')

        def k(v, e):
            e2, w = self.assign(s.targets[0], v, e, s)
            return w(cont(e2))
        base = s.targets[0].id if isinstance(s.targets[0], ast.Name) else 't'
        return self.with_value(s.value, env, base, k)

    def s_AugAssign(self, s, env, cont):
        if isinstance(s.target, (ast.Subscript, ast.Attribute)) and ast.unparse(s.target) in self.cells:
            left = ast.Name(id=ast.unparse(s.target), ctx=ast.Load())      # the cell is an env entry under its text
        elif isinstance(s.target, ast.Name):
            left = ast.Name(id=s.target.id, ctx=ast.Load())
        else:
            raise self.bad(s)
        node = ast.copy_location(ast.BinOp(left=left, op=s.op, right=s.value), s)
        ast.fix_missing_locations(node)
        return self.s_Assign(ast.copy_location(ast.Assign(targets=[s.target], value=node), s), env, cont)

    def s_If(self, s, env, cont):
        t = s.test
        if (isinstance(t, ast.Compare) and len(t.ops) == 1 and isinstance(t.ops[0], (ast.Is, ast.IsNot))
                and isinstance(t.left, ast.Name) and t.left.id in env
                and isinstance(t.comparators[0], ast.Constant) and t.comparators[0].value is None
                and isinstance(env[t.left.id].sort, tuple) and env[t.left.id].sort[0] == 'opt'):
            # `if x is (not) None:` on an option-sorted name: x is the payload in the not-None branch
            o = env[t.left.id]
            name = self.fresh(t.left.id + '_some')
            env_some = dict(env)
            env_some[t.left.id] = V(name, o.sort[1])
            some_body, none_body = (s.orelse, s.body) if isinstance(t.ops[0], ast.Is) else (s.body, s.orelse)
            return ('matchopt', o.code, name, self.block(some_body, env_some, cont), self.block(none_body, env, cont))
        r, wrap = self.own(lambda: self.E(s.test, env))
        if r is None:
            return wrap
        c = r
        if c.sort != B or c.arr1:
            raise self.bad(s, 'condition is not a bool')
        if c.lit is not None:
            return wrap(self.block(s.body if c.lit else s.orelse, env, cont))
        a = self.block(s.body, env, cont)
        b = self.block(s.orelse, env, cont)
        return wrap(('if', c.code, a, b))

    def s_With(self, s, env, cont):
        """`with warnings.catch_warnings():` whose body starts with warnings.simplefilter/filterwarnings('ignore', ...):
        value-transparent (an 'ignore' filter cannot raise); any other context manager is refused"""
        for it in s.items:
            if it.optional_vars is not None or not (isinstance(it.context_expr, ast.Call)
                                                    and self.dotted(it.context_expr.func) == 'warnings.catch_warnings'
                                                    and not it.context_expr.args and not it.context_expr.keywords):
                raise self.bad(s, 'context manager')
        body = []
        for b in s.body:
            if (isinstance(b, ast.Expr) and isinstance(b.value, ast.Call)
                    and self.dotted(b.value.func) in ('warnings.simplefilter', 'warnings.filterwarnings')
                    and b.value.args and isinstance(b.value.args[0], ast.Constant) and b.value.args[0].value == 'ignore'):
                continue
            body.append(b)
        return self.block(body, env, cont)

    def s_For(self, s, env, cont):
        if s.orelse or not isinstance(s.iter, (ast.Tuple, ast.List)) or not isinstance(s.target, ast.Name):
            raise self.bad(s, 'only `for v in (<literal tuple>)` is unrolled')
        for n in ast.walk(s):
            if isinstance(n, (ast.Break, ast.Continue)):
                raise self.bad(n)
        items = list(s.iter.elts)

        def run(i, e):
            if i == len(items):
                return cont(e)

            def k(v, e1):
                e2, w = self.bind(s.target.id, v, e1, s)
                return w(self.block(s.body, e2, lambda e3: run(i + 1, e3)))
            return self.with_value(items[i], e, s.target.id, k)
        return run(0, env)

    # -------- rendering
    def leaves(self, ir, acc):
        t = ir[0]
        if t == 'ret':
            acc['sort'] = self.join(acc['sort'], ir[1].sort, ir[2])
            acc['ret'] += 1
        elif t == 'raise':
            acc['raises'].add(ir[1])
        elif t == 'if':
            self.leaves(ir[2], acc)
            self.leaves(ir[3], acc)
        elif t in ('let', 'letpat'):
            self.leaves(ir[3], acc)
        elif t == 'matchopt':
            self.leaves(ir[3], acc)
            self.leaves(ir[4], acc)
        elif t == 'bind':
            acc['raises'].update(ir[4])
            self.leaves(ir[3], acc)

    def render(self, ir, rs, raising, ind):
        t = ir[0]
        pad = ' ' * ind
        if t == 'ret':
            c = self.coerce(ir[1], rs, ir[2])
            return pad + (f'Ok {c}' if raising else c)
        if t == 'raise':
            return pad + f'Raise {ir[1]}'
        if t == 'if':
            return (f'{pad}if {ir[1]} then\n{self.render(ir[2], rs, raising, ind + 2)}\n{pad}else\n'
                    f'{self.render(ir[3], rs, raising, ind + 2)}')
        if t == 'let':
            return f'{pad}let {ir[1]} := {ir[2]} in\n{self.render(ir[3], rs, raising, ind)}'
        if t == 'letpat':
            return f"{pad}let '{ir[1]} := {ir[2]} in\n{self.render(ir[3], rs, raising, ind)}"
        if t == 'matchopt':
            return (f'{pad}match {ir[1]} with\n{pad}| Some {ir[2]} =>\n{self.render(ir[3], rs, raising, ind + 4)}\n'
                    f'{pad}| None =>\n{self.render(ir[4], rs, raising, ind + 4)}\n{pad}end')
        if t == 'bind':
            return (f'{pad}match {ir[2]} with\n{pad}| Raise e_ => Raise e_\n{pad}| Ok {ir[1]} =>\n'
                    f'{self.render(ir[3], rs, raising, ind + 4)}\n{pad}end')
        raise ValueError(t)

    # -------- entry points
    def setup(self, cls_name, init_mode, locals_):
        self.used, self.params, self.guards, self.divisors, self.func_notes = {}, [], [], [], []
        self.noguard, self.stmt_call = False, False
        self.cls_name, self.init_mode, self.locals = cls_name, init_mode, locals_
        self.abstract_vals, self.block_mode, self.cells = {}, False, {}
        self.write_arr, self.write_lens, self.write_idx, self.write_val = None, [], [], None
        self.func_vals = {}
        self.cell_written = set()

    def function(self, fdef, src_lines, gen_name, cls_name, sorts, abstract=None, vec=(), decorators_ok=()):
        """translate one FunctionDef; `sorts` = {python parameter name: sort} or the list of the sorts of the
        parameters after self / cls (then renaming a parameter in the source is harmless)"""
        decos = [self.dotted(d) for d in fdef.decorator_list]
        if any(d is None for d in decos):
            raise self.bad(fdef, 'decorator')
        kind = 'method' if cls_name else 'function'
        for d in decos:
            if d in ('classmethod', 'staticmethod'):
                kind = d
            elif d in ('property', 'lazyproperty'):
                kind = 'property'
            elif d in decorators_ok:
                pass        # declared by the target as transparent for the per-source value (as_scalar, use_detcat)
            else:
                raise self.bad(fdef, f'decorator {d}')
        a = fdef.args
        if a.vararg or a.kwarg or a.posonlyargs:
            raise self.bad(fdef, 'star parameters')
        init_mode = fdef.name == '__init__'
        locals_ = {t.id for n in ast.walk(fdef) for t in ast.walk(n)
                   if isinstance(t, ast.Name) and isinstance(t.ctx, ast.Store)}
        self.setup(cls_name, init_mode, locals_)
        self.qual = self.qual_of(fdef, cls_name)
        env, pyparams = {}, []
        names = [x.arg for x in a.args + a.kwonlyargs]
        if isinstance(sorts, (list, tuple)):        # positional: sorts of the parameters after self / cls
            rest = names[1:] if kind in ('method', 'property', 'classmethod') else names
            if len(rest) != len(sorts):
                raise self.bad(fdef, f'{len(rest)} parameters but {len(sorts)} declared sorts')
            sorts = dict(zip(rest, sorts))
        for i, p in enumerate(names):
            if i == 0 and kind in ('method', 'property'):
                if init_mode:
                    continue
                s = OBJ(cls_name)
            elif i == 0 and kind == 'classmethod':
                continue
            elif p in sorts and sorts[p] is None:
                continue        # declared opaque (a table, an array ...): not an argument; any direct read is refused
            elif p in sorts:
                s = sorts[p]
            else:
                raise self.bad(fdef, f'no sort declared for parameter {p}')
            env[p] = self.param_value(p, s)
            pyparams.append((p, s))
        for text, (pname, asort) in (abstract or {}).items():
            self.abstract_vals[text] = self.param_value(pname, asort)
            pyparams.append((text, asort))
        for name in vec:
            tgt = None
            if name.startswith('self.') and 'self' in env:
                names = [f for f, _ in self.classes[env['self'].sort[1]]['fields']]
                tgt = env['self'].parts[names.index(name[5:])] if name[5:] in names else None
            else:
                tgt = env.get(name) or self.abstract_vals.get(name)
            if tgt is None:
                raise self.bad(fdef, f'vec name {name} is not declared')
            tgt.vec = True
        self.declare_funcs()

        def fall_off(e):
            if init_mode:
                parts = []
                for f, _ in self.classes[cls_name]['fields']:
                    if 'self.' + f not in e:
                        raise self.bad(fdef, f'__init__ does not assign self.{f} on every path')
                    parts.append(e['self.' + f])
                return ('ret', V('(' + ', '.join(p.code for p in parts) + ')', OBJ(cls_name), parts), fdef)
            return ('ret', V('None', NONE), fdef)
        ir = self.block(fdef.body, env, fall_off)
        span = (fdef.lineno, fdef.end_lineno)
        return self.finish(ir, gen_name, pyparams, kind, span, src_lines, fdef)

    def slice_write(self, target, v, env, node):
        """A[<slices>] = const on the array declared for a 'write' target: hit := hit || (index in the slices)"""
        if v.lit is None or isinstance(v.lit, (float, str)):
            raise self.bad(node, 'slice write of a non-constant')
        if self.write_val is None:
            self.write_val = v.lit
        elif bool(self.write_val) != bool(v.lit):
            raise self.bad(node, 'slice writes of different constants')
        sub = target.slice
        elts = list(sub.elts) if isinstance(sub, ast.Tuple) else [sub]
        if len(elts) > len(self.write_lens):
            raise self.bad(node, 'more subscripts than declared dimensions')
        conds = []
        for k, e in enumerate(elts):
            if not isinstance(e, ast.Slice) or e.step is not None:
                raise self.bad(node, 'only basic slices lower:upper are translated')

            def bound(b):
                if b is None:
                    return 'None'
                bv = self.E(b, env)
                if bv.sort != Z or bv.arr1:
                    raise self.bad(node, 'slice bound must be an integer')
                return f'(Some {bv.code})'
            if e.lower is None and e.upper is None:
                continue
            conds.append(f'(py_in_slice {bound(e.lower)} {bound(e.upper)} {self.write_lens[k].code} {self.write_idx[k].code})')
        cond = '(' + ' && '.join(conds) + ')' if conds else 'true'
        hit = env['<hit>']
        new = V(cond if hit.lit is False else f'({hit.code} || {cond})', B)
        return self.bind('<hit>', new, env, node)

    # ---- spans of statements inside a function
    @staticmethod
    def _chains(fdef):
        """{id(stmt): [(list, index), ...] from the function body down to the list containing stmt}"""
        out = {}

        def walk(lst, chain):
            for i, st in enumerate(lst):
                here = chain + [(lst, i)]
                out[id(st)] = here
                for fld in ('body', 'orelse', 'finalbody'):
                    sub = getattr(st, fld, None)
                    if isinstance(sub, list) and sub and isinstance(sub[0], ast.stmt):
                        walk(sub, here)
                for h in getattr(st, 'handlers', []) or []:
                    walk(h.body, here)
        walk(fdef.body, [])
        return out

    def span_of(self, fdef, chosen):
        """the statements of the deepest block that contain all `chosen` statements, first to last"""
        chains = self._chains(fdef)
        cs = [chains[id(c)] for c in chosen]
        d = 0
        while all(len(c) > d + 1 for c in cs) and len({(id(c[d][0]), c[d][1]) for c in cs}) == 1 \
                and len({id(c[d + 1][0]) for c in cs}) == 1:
            d += 1
        if len({id(c[d][0]) for c in cs}) != 1:
            raise self.bad(fdef, 'selected statements have no common block')
        lst = cs[0][d][0]
        idx = [c[d][1] for c in cs]
        return lst[min(idx):max(idx) + 1]

    @staticmethod
    def _targets(st):
        """texts of everything a simple statement assigns (names, tuple elements, subscripts)"""
        ts = []
        if isinstance(st, ast.Assign):
            ts = list(st.targets)
        elif isinstance(st, (ast.AugAssign, ast.AnnAssign)):
            ts = [st.target]
        out = []
        for t in ts:
            for e in (t.elts if isinstance(t, (ast.Tuple, ast.List)) else [t]):
                out.append(ast.unparse(e))
                if isinstance(e, ast.Subscript):
                    out.append(ast.unparse(e.value) + '[]')
        return out

    def declare_funcs(self):
        """one argument (name : Q -> .. -> Q) per declared uninterpreted function, in declaration order"""
        for name, (pname, arity) in self.funcs.items():
            cname = self.fresh(pname)
            self.params.append((cname, ('fun', arity)))
            self.func_vals[name] = cname
            self.func_notes.append(f'{name} -> {cname}')

    def _self_attrs(self, nodes, abstract):
        """attributes self.<a> read in `nodes`, not counting reads inside declared abstract expressions / cells"""
        out = set()

        def walk(n):
            if abstract and not isinstance(n, (ast.Name, ast.Constant)) and isinstance(n, ast.expr) \
                    and ast.unparse(n) in abstract:
                return
            if self.cells and isinstance(n, (ast.Attribute, ast.Subscript)) and ast.unparse(n) in self.cells:
                return
            if isinstance(n, ast.Attribute) and isinstance(n.value, ast.Name) and n.value.id == 'self':
                out.add(n.attr)
            for c in ast.iter_child_nodes(n):
                walk(c)
        for n in nodes:
            walk(n)
        return out

    def declare(self, sorts, fields, cls_name, free, node, abstract=None, vec=(), used_attrs=None):
        """parameters for the declared free names (in declaration order), the abstract expressions and self"""
        env, pyparams = {}, []
        order = list(sorts)
        if 'self' in free and 'self' not in order:
            order = ['self'] + order
        self.classes = dict(self.classes)
        for p in order:
            if p == 'self':
                if 'self' not in free:
                    continue
                if fields is not None:
                    self.classes['_self'] = {'fields': list(fields)}
                    sort = OBJ('_self')
                elif cls_name in self.classes:
                    names = [f for f, _ in self.classes[cls_name]['fields']]
                    if used_attrs is not None and used_attrs <= set(names):
                        # only the declared fields that are read (a stable, minimal signature)
                        self.classes['_self'] = {'fields': [(f, fs) for f, fs in self.classes[cls_name]['fields']
                                                            if f in used_attrs]}
                        sort = OBJ('_self')
                    else:
                        sort = OBJ(cls_name)
                else:
                    raise self.bad(node, 'self is read but no field sorts are declared')
            elif p in free or p in self.cells:
                sort = sorts[p]
            else:
                continue
            env[p] = self.param_value(p, sort)
            pyparams.append((p, sort))
        for text, (pname, sort) in (abstract or {}).items():
            self.abstract_vals[text] = self.param_value(pname, sort)
            pyparams.append((text, sort))
        for name in vec:
            if name.startswith('self.') and 'self' in env:
                names = [f for f, _ in self.classes[env['self'].sort[1]]['fields']]
                if name[5:] in names:
                    env['self'].parts[names.index(name[5:])].vec = True
            elif name in env:
                env[name].vec = True
            elif name in self.abstract_vals:
                self.abstract_vals[name].vec = True
            else:
                raise self.bad(node, f'vec name {name} is not declared')
        self.declare_funcs()
        return env, pyparams

    def stmt_block(self, fdef, src_lines, gen_name, cls_name, sorts, fields=None, vars=(), ret=None, occurrences=None,
                   cells=None, abstract=None, vec=(), write=None):
        """A SPAN of statements of `fdef` as a function of the names it reads.
        The span: take every simple statement that assigns one of `vars` (a name, or a declared cell such as
        'flags[index]', or for write targets a slice of the array), optionally only the `occurrences`-th of them in
        source order; the span is the run of statements, first to last, of the DEEPEST block that contains them all
        (for statements inside a loop body: one iteration).  The result is the tuple of the values of `ret` after
        the span.  Names read must be declared in `sorts` (free names, in that order) or be bound in the span;
        `return` / `break` / `continue` inside the span are refused.
        write=(array name, ndim): the span's slice assignments `A[lo:hi, ...] = const`; arguments n0.., i0.. are
        appended and the result is whether element (i0, ..) is written (Python slice semantics, PyGen.py_in_slice)."""
        arr = write[0] if write else None
        keys = set(vars) | ({arr + '[]'} if arr else set())
        allst = [st for st in ast.walk(fdef) if isinstance(st, (ast.Assign, ast.AugAssign, ast.AnnAssign))
                 and set(self._targets(st)) & keys]
        allst.sort(key=lambda st: (st.lineno, st.col_offset))
        if not allst:
            raise self.bad(fdef, f'no assignment to {sorted(keys)}')
        chosen = allst if occurrences is None else [allst[i] for i in occurrences if -len(allst) <= i < len(allst)]
        if occurrences is not None and len(chosen) != len(occurrences):
            raise self.bad(fdef, f'only {len(allst)} assignments to {sorted(keys)}')
        stmts = self.span_of(fdef, chosen)
        for st in stmts:
            for t in ast.walk(st):
                if isinstance(t, (ast.Return, ast.Break, ast.Continue, ast.Yield, ast.YieldFrom, ast.Global, ast.Nonlocal)):
                    raise self.bad(t, 'control transfer inside a translated span')
        stored = {t.id for st in stmts for t in ast.walk(st) if isinstance(t, ast.Name) and isinstance(t.ctx, ast.Store)}
        reads = {t.id for st in stmts for t in ast.walk(st) if isinstance(t, ast.Name) and isinstance(t.ctx, ast.Load)}
        reads |= {t.target.id for st in stmts for t in ast.walk(st)
                  if isinstance(t, ast.AugAssign) and isinstance(t.target, ast.Name)}      # x += e reads x
        self.setup(cls_name, False, stored)
        self.block_mode = True
        self.cells = dict(cells or {})
        self.qual = f'{self.qual_of(fdef, cls_name)} :: {", ".join(ret or vars)}'
        free = set(reads) | set(self.cells)
        env, pyparams = self.declare(sorts, fields, cls_name, free, stmts[0], abstract, vec, self._self_attrs(stmts, abstract))
        what = 'values of `' + ', '.join(ret or ()) + '` after the statements'
        if write:
            self.write_arr = arr
            for k in range(write[1]):
                name = self.fresh(f'n{k}')
                self.params.append((name, Z))
                self.write_lens.append(V(name, Z))
            for k in range(write[1]):
                name = self.fresh(f'i{k}')
                self.params.append((name, Z))
                self.write_idx.append(V(name, Z))
            pyparams += [(f'len(axis {k})', Z) for k in range(write[1])] + [(f'index {k}', Z) for k in range(write[1])]
            env['<hit>'] = V('false', B, lit=False)
            ret = ['<hit>']
            what = f'whether element (i0, ..) is assigned by the slice writes to `{arr}` in'

        def done(e):
            vals = []
            for r in ret:
                if r not in e:
                    raise self.bad(stmts[-1], f'{r} is not bound on every path of the span')
                vals.append(e[r])
            if len(vals) == 1:
                return ('ret', vals[0], stmts[-1])
            return ('ret', V('(' + ', '.join(v.code for v in vals) + ')', TUP(*[v.sort for v in vals]), vals), stmts[-1])
        ir = self.block(stmts, env, done)
        span = (stmts[0].lineno, stmts[-1].end_lineno)
        return self.finish(ir, gen_name, pyparams, 'function', span, src_lines, fdef, what=what)

    def ret_expr(self, fdef, src_lines, gen_name, cls_name, sorts, fields=None, occurrence=0, append=None,
                 abstract=None, vec=()):
        """The expression of the `occurrence`-th `return E` of `fdef` (source order), or with append='out' the
        argument of the `occurrence`-th statement `out.append(E)`, as a function of the declared names it reads."""
        if append is None:
            hits = [n for n in ast.walk(fdef) if isinstance(n, ast.Return) and n.value is not None]
        else:
            hits = [n.value for n in ast.walk(fdef) if isinstance(n, ast.Expr) and isinstance(n.value, ast.Call)
                    and isinstance(n.value.func, ast.Attribute) and n.value.func.attr == 'append'
                    and isinstance(n.value.func.value, ast.Name) and n.value.func.value.id == append
                    and len(n.value.args) == 1 and not n.value.keywords]
        hits.sort(key=lambda n: (n.lineno, n.col_offset))
        if not -len(hits) <= occurrence < len(hits):
            raise self.bad(fdef, f'only {len(hits)} such statements')
        node = hits[occurrence]
        expr = node.value if append is None else node.args[0]
        names = {t.id for t in ast.walk(expr) if isinstance(t, ast.Name)}
        self.setup(cls_name, False, set())
        self.block_mode = True
        self.qual = f'{self.qual_of(fdef, cls_name)} :: ' + ('returned expression' if append is None else f'{append}.append argument')
        env, pyparams = self.declare(sorts, fields, cls_name, names, node, abstract, vec, self._self_attrs([expr], abstract))
        r, wrap = self.own(lambda: self.E(expr, env))
        ir = wrap(('ret', r, node))
        span = (expr.lineno, expr.end_lineno)
        return self.finish(ir, gen_name, pyparams, 'function', span, src_lines, fdef, what='the expression at')

    def if_test(self, fdef, src_lines, gen_name, cls_name, sorts, fields=None, reads=None, occurrence=None,
                abstract=None, vec=()):
        """The TEST of the `if` statement of `fdef` whose test mentions `reads` (a name, or the text of a declared
        abstract expression); it must be unique unless `occurrence` selects one."""
        ifs = [n for n in ast.walk(fdef) if isinstance(n, ast.If)
               and (reads in {t.id for t in ast.walk(n.test) if isinstance(t, ast.Name)} or reads in ast.unparse(n.test))]
        ifs.sort(key=lambda n: (n.lineno, n.col_offset))
        if occurrence is not None:
            ifs = ifs[occurrence:occurrence + 1] if -len(ifs) <= occurrence < len(ifs) else []
        if len(ifs) != 1:
            raise self.bad(fdef, f'{len(ifs)} if-statements test {reads}')
        node = ifs[0]
        names = {t.id for t in ast.walk(node.test) if isinstance(t, ast.Name)}
        self.setup(cls_name, False, set())
        self.block_mode = True
        self.qual = f'{self.qual_of(fdef, cls_name)} :: test of `if {ast.unparse(node.test)[:60]}`'
        env, pyparams = self.declare(sorts, fields, cls_name, names, node, abstract, vec, self._self_attrs([node.test], abstract))
        r, wrap = self.own(lambda: self.E(node.test, env))
        if r.sort != B:
            raise self.bad(node, 'test is not a bool')
        ir = wrap(('ret', r, node))
        span = (node.test.lineno, node.test.end_lineno)
        return self.finish(ir, gen_name, pyparams, 'function', span, src_lines, fdef, what='the condition of the if statement at')

    def var_chain(self, fdef, var, src_lines, gen_name, cls_name, sorts, fields):
        """The value `var` holds after the last assignment to it in `fdef`, as a function of the
        free names read by those assignments.  All assignments to `var` must be simple statements
        of ONE block, and no statement between the first and the last of them may assign a name they
        read.  `sorts` declares the free names, `fields` the sorts of self.<attr> reads."""
        hits = []
        for n in ast.walk(fdef):
            for body in (getattr(n, 'body', None), getattr(n, 'orelse', None)):
                if not isinstance(body, list):
                    continue
                idx = [i for i, s in enumerate(body)
                       if (isinstance(s, ast.Assign) and any(isinstance(t, ast.Name) and t.id == var for t in s.targets))
                       or (isinstance(s, ast.AugAssign) and isinstance(s.target, ast.Name) and s.target.id == var)]
                if idx:
                    hits.append((body, idx))
        every = [t for n in ast.walk(fdef) for t in ast.walk(n)
                 if isinstance(t, ast.Name) and isinstance(t.ctx, ast.Store) and t.id == var]
        if len(hits) != 1:
            raise self.bad(fdef, f'assignments to {var} are not confined to one block')
        body, idx = hits[0]
        stmts = [body[i] for i in idx]
        if len({id(t) for t in every}) != len(stmts):
            raise self.bad(fdef, f'{var} is also bound elsewhere (tuple target, loop variable, ...)')
        reads = {t.id for s in stmts for t in ast.walk(s) if isinstance(t, ast.Name) and isinstance(t.ctx, ast.Load)}
        between = body[idx[0]:idx[-1] + 1]
        for s in between:
            if s in stmts:
                continue
            for t in ast.walk(s):
                if isinstance(t, ast.Name) and isinstance(t.ctx, ast.Store) and t.id in reads:
                    raise self.bad(s, f'{t.id} is reassigned between the assignments to {var}')
                if isinstance(t, ast.Attribute) and isinstance(t.ctx, ast.Store):
                    raise self.bad(s, 'attribute write between the assignments')
        self.setup(cls_name, False, {var})
        self.qual = f'{self.qual_of(fdef, cls_name)} :: {var}'
        self.classes = dict(self.classes)
        free = set(reads) - ({'np', 'math', 'float', 'int', 'bool', 'abs', 'min', 'max', 'len', 'slice', 'isinstance'} - set(sorts))
        if isinstance(stmts[0], ast.Assign):
            first_reads = {t.id for t in ast.walk(stmts[0].value) if isinstance(t, ast.Name)}
            if var in first_reads:
                raise self.bad(stmts[0], f'{var} is read before its first assignment in the chain')
            free -= {var}
        env, pyparams = {}, []
        order = (['self'] if 'self' not in sorts else []) + list(sorts)
        for p in sorted(free):
            if p != 'self' and p not in sorts:
                raise self.bad(stmts[0], f'no sort declared for free name {p}')
        for p in order:
            if p not in free:
                continue
            if p == 'self':
                if fields is not None:
                    used = {t.attr for s in stmts for t in ast.walk(s)
                            if isinstance(t, ast.Attribute) and isinstance(t.value, ast.Name) and t.value.id == 'self'}
                    self.classes['_self'] = {'fields': [(f, fs) for f, fs in fields if f in used]}
                    sort = OBJ('_self')
                elif cls_name in self.classes:
                    sort = OBJ(cls_name)        # all declared fields; translated properties may be read
                else:
                    raise self.bad(stmts[0], 'self is read but no field sorts are declared')
            else:
                sort = sorts[p]
            env[p] = self.param_value(p, sort)
            pyparams.append((p, sort))

        def done(e):
            return ('ret', e[var], stmts[-1])
        ir = self.block(stmts, env, done)
        span = (stmts[0].lineno, stmts[-1].end_lineno)
        lines = sorted({i for s in stmts for i in range(s.lineno, s.end_lineno + 1)})
        return self.finish(ir, gen_name, pyparams, 'function', span, src_lines, fdef, lines=lines,
                           what=f'value of `{var}` after its assignments in')

    @staticmethod
    def qual_of(fdef, cls_name):
        return (cls_name + '.' if cls_name else '') + fdef.name

    def finish(self, ir, gen_name, pyparams, kind, span, src_lines, node, lines=None, what=''):
        acc = {'sort': None, 'ret': 0, 'raises': set()}
        self.leaves(ir, acc)
        if acc['ret'] == 0:
            raise self.bad(node, 'no path returns a value')
        rs = acc['sort']
        raising = bool(acc['raises'])
        body = self.render(ir, rs, raising, 2)
        if len(body) > 20000:
            raise self.bad(node, 'translation too large (duplicated continuations)')
        groups = ' '.join(f'({n} : {sort_coq(s, self.classes)})' for n, s in self.params)
        rtxt = sort_coq(('res', rs) if raising else rs, self.classes)
        if lines is None:
            lines = list(range(span[0], span[1] + 1))
        text = '\n'.join(src_lines[i - 1] for i in lines)
        sha = hashlib.sha1(text.encode()).hexdigest()
        hdr = (f'(* {what + " " if what else ""}{self.file}:{span[0]}-{span[1]}  {self.qual}\n'
               f'   sha1(source span) = {sha}\n'
               f'   arguments: ' + ', '.join(f'{p}: {self.show(s)}' for p, s in pyparams) + '\n'
               f'   result: {self.show(rs)}' + (f'; may raise: {", ".join(sorted(acc["raises"]))}' if raising else '') +
               (f'\n   numpy divisions (total / in Coq; meaningful for non-zero divisor): {"; ".join(self.divisors)}'
                if self.divisors else '') +
               (f'\n   uninterpreted functions (extra arguments of type Q -> Q): {"; ".join(self.func_notes)}'
                if self.func_notes else '') + ' *)\n')
        text = hdr + f'Definition {gen_name} {groups} : {rtxt} :=\n{body}.\n'
        fn = Fn(gen_name, list(self.params), rs, raising, text, list(self.divisors), span, sha)
        fn.pyparams, fn.kind, fn.raises = pyparams, kind, set(acc['raises'])
        return fn

    def show(self, s):
        if isinstance(s, tuple):
            if s[0] == 'obj':
                fields = self.classes[s[1]]['fields']
                return f'{s[1]}(' + ', '.join(f'{f}: {self.show(x)}' for f, x in fields) + ')'
            if s[0] == 'tuple':
                return '(' + ', '.join(self.show(x) for x in s[1]) + ')'
            return f'{s[0]} {self.show(s[1])}'
        return {Z: 'int', Q: 'float', B: 'bool', S: 'str', NONE: 'None'}[s]


def find_def(tree, qualname, file):
    """the FunctionDef of `Class.method` or `function` (the LAST definition of that name, as Python binds it)"""
    parts = qualname.split('.')
    body, cls = tree.body, None
    if len(parts) == 2:
        cs = [n for n in body if isinstance(n, ast.ClassDef) and n.name == parts[0]]
        if not cs:
            raise Untranslatable(file, 0, f'class {parts[0]}', 'not found')
        body, cls = cs[-1].body, parts[0]
    fs = [n for n in body if isinstance(n, ast.FunctionDef) and n.name == parts[-1]]
    if not fs:
        raise Untranslatable(file, 0, qualname, 'not found')
    if len(fs) > 1:
        # property setter/getter pairs: take the getter (decorated @property / @lazyproperty)
        g = [f for f in fs if any(isinstance(d, ast.Name) and d.id in ('property', 'lazyproperty') for d in f.decorator_list)]
        if len(g) != 1:
            raise Untranslatable(file, fs[0].lineno, qualname, 'defined more than once')
        fs = g
    return fs[0], cls


PREAMBLE = ('From Coq Require Import ZArith QArith Qround Qabs Qminmax List Bool String.\n'
            'From PV Require Import lib.PyGen.\nImport ListNotations.\n')
