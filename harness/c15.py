"""C15 — results do not depend on how the same numbers are represented.

Three layers (see coq/C15_Properties.v for what is proved):
 K  correspondence of the Coq models with the installed numpy / astropy / photutils:
    loop dtype and in-place casting tables, np.promote_types, can_cast(same_kind), the
    _stats._dtype_dispatch branch, process_quantities, and the IR machine itself (random IR
    programs interpreted on real numpy arrays: exception kind, final dtypes, and equality of
    values with the float64 run whenever the analysis accepts both).
 O  per-run obligations: a fail-closed `ast` extractor turns the CURRENT source of the anchored
    photutils functions into IR programs (one per path) and Coq evaluates
    `analyze p n allowed_inputs` (theorem repr_safe then applies).
 V  the product test (exploration strength, reported as support): every main public entry
    point x representation on shared small scenes, compared with the float64 run; plus the
    mixed unit-ful/unit-less rejections.
"""
import ast
import math
import random
import re
import traceback
import warnings

import numpy as np

from .core import REPO, Raw, coq

PID = 'C15'
FILES = ['lib/Cases.v', 'C15_Model.v', 'C15_Proofs.v', 'C15_Properties.v']

# ====================================================================== K: numpy tables
NP2DT = {'bool': 'DBool', 'int8': 'DI8', 'uint16': 'DU16', 'int16': 'DI16', 'int32': 'DI32', 'int64': 'DI64',
         'float16': 'DF16', 'float32': 'DF32', 'float64': 'DF64'}
DT2NP = {v: k for k, v in NP2DT.items()}
BASE_DT = ['DBool', 'DI8', 'DU16', 'DI16', 'DI32', 'DI64', 'DF16', 'DF32', 'DF64']
WEAK = {'WeakBool': True, 'WeakInt': 2, 'WeakFloat': 2.0}
UFUNCS = {'Add': np.add, 'Sub': np.subtract, 'Mul': np.multiply, 'TrueDiv': np.true_divide, 'Pow': np.power,
          'MaxMin': np.maximum}


def _odt(b):
    return b if b in WEAK else f'(Strong {b})'


def _operand_value(b):
    return WEAK[b] if b in WEAK else np.ones(2, dtype=DT2NP[b])


def k_numpy_tables(ctx, cases):
    """every (op, dtype, dtype-or-weak-scalar): dtype of `a op b`, and what `a op= b` does"""
    for op, uf in UFUNCS.items():
        for a in BASE_DT:
            for b in BASE_DT + list(WEAK):
                x, y = np.ones(2, dtype=DT2NP[a]), _operand_value(b)
                try:
                    r = uf(x, y).dtype.name
                    exp = f'(Some {NP2DT[r]})' if r in NP2DT else None
                except TypeError:
                    exp = 'None'
                if exp is None:
                    ctx.stat('tables', 'loop_result_outside_model_dtypes')
                else:
                    cases.append((f'CLoop {op} (Strong {a}) {_odt(b)} {exp}', ('loop', op, a, b, exp)))
                x = np.ones(2, dtype=DT2NP[a])
                try:
                    uf(x, y, out=x)
                    res = 'IP_Ok'
                except np._core._exceptions._UFuncOutputCastingError:
                    res = 'IP_CastError'
                except TypeError as e:
                    res = 'IP_CastError' if 'Cannot cast' in str(e) else 'IP_NoLoop'
                # the augmented-assignment operator must behave like the ufunc with out=
                cases.append((f'CInplace {op} {a} {_odt(b)} {res}', ('inplace', op, a, b, res)))
                ctx.stat('tables', 'inplace_' + res)
                ctx.count_case(['tbl', op, a, b])
    for a in BASE_DT:
        for b in BASE_DT:
            cc = bool(np.can_cast(DT2NP[a], DT2NP[b], 'same_kind'))
            cases.append((f'CCanCast {a} {b} {"true" if cc else "false"}', ('can_cast', a, b, cc)))
            pt = np.promote_types(DT2NP[a], DT2NP[b]).name
            if pt in NP2DT:
                cases.append((f'CPromote {a} {b} {NP2DT[pt]}', ('promote', a, b, pt)))
            else:
                ctx.stat('tables', 'promote_outside_model_dtypes')
            ctx.count_case(['cast', a, b])
    # operators: x /= y etc. are the same calls (spot check, all dtypes, the four operators)
    import operator
    for opn, fi in (('TrueDiv', operator.itruediv), ('Sub', operator.isub), ('Mul', operator.imul),
                    ('Add', operator.iadd)):
        for a in BASE_DT:
            for b in BASE_DT:
                x, y = np.ones(2, dtype=DT2NP[a]), np.ones(2, dtype=DT2NP[b])
                try:
                    fi(x, y)
                    res = 'IP_Ok'
                except TypeError as e:
                    res = 'IP_CastError' if 'Cannot cast' in str(e) else 'IP_NoLoop'
                cases.append((f'CInplace {opn} {a} (Strong {b}) {res}', ('inplace_operator', opn, a, b, res)))


def k_reductions(ctx, cases):
    """np.sum / mean / std / var / nansum / ... accumulate (and return) in float16/float32 exactly for float16/
    float32 input; integers are widened"""
    funcs = [np.sum, np.mean, np.std, np.var, np.nansum, np.nanmean, np.nanstd, np.prod, np.cumsum, np.ma.sum,
             lambda x: x.sum(), lambda x: x.mean(), lambda x: np.dot(x, x)]
    for d in BASE_DT:
        x = np.ones(4, dtype=DT2NP[d])
        kinds = set()
        for f in funcs:
            with warnings.catch_warnings():
                warnings.simplefilter('ignore')
                kinds.add(np.asarray(f(x)).dtype.name in ('float16', 'float32'))
        if len(kinds) != 1:
            ctx.violation('correspondence:C15_Model.reductions', 'numpy reductions disagree among themselves about the '
                          'accumulator of dtype ' + d, {'dtype': d}, found_input=False)
        cases.append((f'CReduce {d} {"true" if True in kinds else "false"}', ('reduce', d, sorted(kinds))))
        ctx.count_case(['reduce', d])


def k_dispatch(ctx, cases):
    """which branch photutils.utils._stats._dtype_dispatch takes, per dtype and byte order"""
    from photutils.utils import _stats
    if not getattr(_stats, 'HAS_BOTTLENECK', False):
        ctx.stat('dispatch', 'bottleneck_absent')
        return
    names = ['nansum', 'nanmin', 'nanmax', 'nanmean', 'nanmedian', 'nanstd', 'nanvar']
    saved_bn, saved_np = dict(_stats.bn_funcs), dict(_stats.np_funcs)
    try:
        for n in names:
            _stats.bn_funcs[n] = (lambda *a, **k: 'Bottleneck')
            _stats.np_funcs[n] = (lambda *a, **k: 'Numpy')
        for d in BASE_DT:
            for big in (False, True):
                dt = np.dtype(DT2NP[d])
                if big:
                    dt = dt.newbyteorder('>')
                arr = np.ones(3, dtype=dt)
                s = arr.dtype.str
                bo = {'<': 'LittleE', '>': 'BigE', '|': 'NotApplicable', '=': 'LittleE'}[s[0]]
                kc = {'b': 'Kb', 'i': 'Ki', 'u': 'Ku', 'f': 'Kf'}[s[1]]
                got = {getattr(_stats, n)(arr) for n in names}
                if len(got) != 1:
                    ctx.violation('correspondence:_dtype_dispatch', 'the seven wrappers dispatch differently',
                                  {'dtype': s, 'got': sorted(got)}, found_input=False)
                cases.append((f'CDispatch {d} {"true" if big else "false"} '
                              f'{{| bo := {bo}; kc := {kc}; isz := {int(s[2:])} |}} {sorted(got)[0]}',
                              ('dispatch', s, sorted(got))))
                ctx.stat('dispatch', sorted(got)[0])
                ctx.count_case(['dispatch', s])
    finally:
        _stats.bn_funcs.clear()
        _stats.bn_funcs.update(saved_bn)
        _stats.np_funcs.clear()
        _stats.np_funcs.update(saved_np)


# ====================================================================== K: process_quantities
def _pq_units():
    import astropy.units as u
    return [u.Jy, u.mJy, u.electron, u.dimensionless_unscaled, u.adu, u.Jy ** 2]


def gen_pq(rng):
    n = rng.choice([0, 1, 2, 2, 3, 3, 4, 5])
    nunits = rng.choice([1, 1, 1, 2, 3])
    style = rng.choice(['same', 'same', 'same', 'none', 'none', 'mixed', 'mixed', 'mixed', 'allnone', 'random',
                        'random'])
    vals = []
    for i in range(n):
        r = rng.random()
        if style == 'allnone' or r < 0.15:
            vals.append(None)
        elif style == 'none':
            vals.append((i, None))
        elif style == 'same':
            vals.append((i, 0))
        elif style == 'mixed':
            vals.append((i, rng.choice([None, 0])))
        else:
            vals.append((i, rng.choice([None] + list(range(nunits)))))
    nnames = n if rng.random() < 0.9 else max(0, n + rng.choice([-1, 1]))
    return vals, list(range(100, 100 + nnames))


def run_pq(vals, names):
    """real call; -> (coq term of the expected result, python description)"""
    from photutils.utils._quantity_helpers import process_quantities
    units = _pq_units()
    objs = []
    for v in vals:
        if v is None:
            objs.append(None)
        else:
            arr = np.array([float(v[0]), 1.0])
            objs.append(arr if v[1] is None else arr * units[v[1]])
    try:
        out, unit = process_quantities(objs, [f'n{k}' for k in names])
    except ValueError as e:
        kind = 'PQ_LenError' if 'number of values' in str(e) else 'PQ_Mixed'
        return kind, {'raises': kind}
    except KeyError:
        return 'PQ_KeyError', {'raises': 'KeyError'}
    res = []
    for o in out:
        if o is None:
            res.append('None')
        else:
            un = getattr(o, 'unit', None)
            payload = int(np.asarray(getattr(o, 'value', o))[0])
            ui = 'None' if un is None else f'(Some {units.index(un)})'
            res.append(f'(Some ({payload}, {ui}))')
    ui = 'None' if unit is None else f'(Some {units.index(unit)})'
    return f'(PQ_Ok [{"; ".join(res)}] {ui})', {'values': res, 'unit': ui}


def pq_oracle(vals, names, desc):
    """the property statement itself, on the implementation's answer"""
    if len(vals) != len(names):
        return desc.get('raises') == 'PQ_LenError'
    present = [v for v in vals if v is not None]
    us = {v[1] for v in present}
    if len(us) > 1:
        return desc.get('raises') == 'PQ_Mixed'       # mixed must be rejected
    if not present:
        return True                                    # no array at all: nothing required by the property
    if 'raises' in desc:
        return False
    u = us.pop()
    want_unit = 'None' if u is None else f'(Some {u})'
    want_vals = ['None' if v is None else f'(Some ({v[0]}, None))' for v in vals]
    return desc['unit'] == want_unit and desc['values'] == want_vals


def pq_term(vals, names, expected):
    vs = '; '.join('None' if v is None else f'(Some ({v[0]}, {"None" if v[1] is None else f"(Some {v[1]})"}))'
                   for v in vals)
    return f'CPQ [{vs}] [{"; ".join(str(n) for n in names)}] {expected}'

# ====================================================================== K: the IR machine vs numpy
IN_DT = ['DBool', 'DI8', 'DU16', 'DI16', 'DI32', 'DI64', 'DF32', 'DF64']
OPS = ['Add', 'Sub', 'Mul', 'TrueDiv', 'Pow', 'MaxMin']


def gen_ir(rng):
    nin = rng.choice([1, 1, 2])
    n = rng.randint(1, 7)
    defined = list(range(nin))
    nxt = nin
    prog = []

    def operand():
        r = rng.random()
        if r < 0.45:
            return ('var', rng.choice(defined))
        if r < 0.65:
            return ('arr', rng.choice(['DBool', 'DI16', 'DI64', 'DF32', 'DF64', 'DU16']))
        return (rng.choice(['pyint', 'pyfloat', 'pybool']),)
    for _ in range(n):
        k = rng.choice(['alias', 'copy', 'astype', 'cond', 'quantity', 'bin', 'bin', 'inplace', 'inplace', 'inplace',
                        'setnan', 'setconst', 'setfrom', 'floatfun', 'kernel'])
        src = rng.choice(defined) if rng.random() < 0.97 else nxt + 3    # rarely an unbound variable (stuck)
        if k in ('alias', 'copy', 'quantity', 'floatfun', 'kernel'):
            dst = nxt if rng.random() < 0.8 else rng.choice(defined)
            prog.append((k, dst, src))
            if dst == nxt:
                defined.append(nxt)
                nxt += 1
        elif k == 'astype':
            dst = nxt if rng.random() < 0.8 else rng.choice(defined)
            prog.append((k, dst, src, rng.choice(['DF64', 'DF64', 'DF32', 'DI64', 'DI16'])))
            if dst == nxt:
                defined.append(nxt)
                nxt += 1
        elif k == 'cond':
            prog.append((k, rng.choice(['PIsInteger', 'PKindNotF']), src, rng.choice(['DF64', 'DF32'])))
        elif k == 'bin':
            prog.append((k, nxt, rng.choice(OPS), operand(), operand()))
            defined.append(nxt)
            nxt += 1
        elif k == 'inplace':
            prog.append((k, rng.choice(OPS), src, operand()))
        elif k == 'setnan':
            prog.append((k, src))
        elif k == 'setconst':
            prog.append((k, src, rng.random() < 0.6))
        elif k == 'setfrom':
            prog.append((k, src, operand()))
    tags = [rng.choice(IN_DT) for _ in range(nin)]
    return prog, tags, nxt


def _oterm(o):
    return {'var': lambda: f'(OVar {o[1]})', 'arr': lambda: f'(OArr {o[1]})', 'pyint': lambda: 'OPyInt',
            'pyfloat': lambda: 'OPyFloat', 'pybool': lambda: 'OPyBool'}[o[0]]()


def ir_term(prog):
    out = []
    for i in prog:
        k = i[0]
        if k == 'alias':
            out.append(f'IAlias {i[1]} {i[2]}')
        elif k == 'copy':
            out.append(f'ICopy {i[1]} {i[2]}')
        elif k == 'astype':
            out.append(f'IAsType {i[1]} {i[2]} {i[3]}')
        elif k == 'cond':
            out.append(f'ICondAsType {i[1]} {i[2]} {i[3]}')
        elif k == 'quantity':
            out.append(f'IQuantity {i[1]} {i[2]}')
        elif k == 'bin':
            out.append(f'IBin {i[1]} {i[2]} {_oterm(i[3])} {_oterm(i[4])}')
        elif k == 'inplace':
            out.append(f'IInplace {i[1]} {i[2]} {_oterm(i[3])}')
        elif k == 'setnan':
            out.append(f'ISetNaN {i[1]}')
        elif k == 'setconst':
            out.append(f'ISetConst {i[1]} {"true" if i[2] else "false"}')
        elif k == 'setfrom':
            out.append(f'ISetFrom {i[1]} {_oterm(i[2])}')
        elif k == 'floatfun':
            out.append(f'IFloatFun {i[1]} {i[2]}')
        elif k == 'kernel':
            out.append(f'IKernel {i[1]} {i[2]}')
    return '[' + '; '.join(out) + ']%nat'


class _Skip(Exception):
    pass


class _Env(dict):
    """variable -> array; remembers every dtype that ever held a value during the run (inputs and
    intermediates), because a float32/float16 intermediate rounds even when the final arrays are float64"""

    def __init__(self, d):
        super().__init__()
        self.seen = set()
        for k, v in d.items():
            self[k] = v

    def __setitem__(self, k, v):
        self.seen.add(np.asarray(v).dtype.name)
        super().__setitem__(k, v)


def run_ir_numpy(prog, tags, nvars, base):
    """interpret the IR with the numpy / astropy / scipy calls it stands for.
    -> ('ok', {var: array}) | ('raise', kind) | ('stuck',)"""
    import astropy.units as u
    from scipy.ndimage import convolve1d
    env = _Env({k: np.array(base, dtype=DT2NP[t]) for k, t in enumerate(tags)})

    def val(o):
        if o[0] == 'var':
            return env[o[1]]
        if o[0] == 'arr':
            return np.full(3, 2, dtype=DT2NP[o[1]])
        return {'pyint': 2, 'pyfloat': 2.0, 'pybool': True}[o[0]]
    try:
        for i in prog:
            k = i[0]
            if k == 'alias':
                env[i[1]] = np.asanyarray(env[i[2]])[...]
            elif k == 'copy':
                env[i[1]] = env[i[2]].copy()
            elif k == 'astype':
                env[i[1]] = env[i[2]].astype(DT2NP[i[3]])
            elif k == 'cond':
                x = env[i[2]]
                hit = np.issubdtype(x.dtype, np.integer) if i[1] == 'PIsInteger' else x.dtype.kind != 'f'
                if hit:
                    env[i[2]] = x.astype(DT2NP[i[3]])
            elif k == 'quantity':
                env[i[1]] = (env[i[2]] << u.Jy).value
            elif k == 'bin':
                a, b = val(i[3]), val(i[4])
                if not isinstance(a, np.ndarray) and not isinstance(b, np.ndarray):
                    raise _Skip()
                env[i[1]] = np.asarray(UFUNCS[i[2]](a, b))
            elif k == 'inplace':
                x = env[i[2]]
                UFUNCS[i[1]](x, val(i[3]), out=x)
            elif k == 'setnan':
                env[i[1]][1] = np.nan
            elif k == 'setconst':
                env[i[1]][1] = 3.0 if i[2] else 2.5
            elif k == 'setfrom':
                env[i[1]][...] = val(i[2])
            elif k == 'floatfun':
                env[i[1]] = np.sqrt(np.abs(env[i[2]]) if env[i[2]].dtype.kind != 'b' else env[i[2]])
            elif k == 'kernel':
                x = env[i[2]]
                if x.dtype == np.float16:
                    raise _Skip()
                env[i[1]] = convolve1d(x, np.array([0.5, 0.5]))
    except KeyError:
        return ('stuck',)
    except np._core._exceptions._UFuncOutputCastingError:
        return ('raise', 'ECast')
    except TypeError as e:
        return ('raise', 'ECast' if 'Cannot cast' in str(e) else 'ENoLoop')
    except ValueError as e:
        if 'NaN' in str(e):
            return ('raise', 'ENaNToInt')
        if 'negative integer powers' in str(e):
            raise _Skip() from e                 # value dependent, outside the model
        raise
    return ('ok', env)


def k_ir(ctx, cases, n):
    made = 0
    tries = 0
    while made < n and tries < 20 * n:
        tries += 1
        prog, tags, nvars = gen_ir(ctx.rng)
        small = any(t in ('DBool', 'DI8') for t in tags)
        base = [100, 7, 120] if small else [300, 7, 200]
        try:
            with warnings.catch_warnings(), np.errstate(all='ignore'):
                warnings.simplefilter('ignore')
                r = run_ir_numpy(prog, tags, nvars, base)
                r64 = run_ir_numpy(prog, ['DF64'] * len(tags), nvars, base)
        except _Skip:
            ctx.stat('ir', 'skipped')
            continue
        pt = ir_term(prog)
        tg = '[' + '; '.join(tags) + ']'
        if r[0] == 'ok':
            dts = []
            okd = True
            for v in range(nvars):
                if v in r[1]:
                    nm = r[1][v].dtype.name
                    if nm not in NP2DT:
                        okd = False
                    dts.append(f'Some {NP2DT.get(nm, "DF64")}')
                else:
                    dts.append('None')
            if not okd:
                ctx.stat('ir', 'dtype_outside_model')
                continue
            exp = f'(OOk 0 [{"; ".join(dts)}])'
        elif r[0] == 'raise':
            exp = f'(ORaise {r[1]})'
        else:
            exp = 'OStuck'
        cases.append((f'CRun {pt} {tg} {nvars} {exp}', ('ir_run', pt, tags, exp)))
        ctx.stat('ir', 'outcome_' + r[0] + (('_' + r[1]) if r[0] == 'raise' else ''))
        ctx.count_case(['ir', pt, tags], nontrivial=len(prog) > 1)
        made += 1
        # values: equal to the float64 run whenever the analysis accepts both
        if 'DBool' not in tags:
            same = False
            if r[0] == 'ok' and r64[0] == 'ok' and set(r[1]) == set(r64[1]):
                same = True
                # the theorem idealises float rounding and range: compare to the precision of the
                # narrowest float type that occurs, and leave out runs that leave the float32 range
                kinds = {x.dtype.name for x in r[1].values()} | r[1].seen
                tol = 2e-2 if 'float16' in kinds else (1e-3 if 'float32' in kinds else 1e-9)
                ctx.stat('ir', 'values_compared_at_' + ('float16' if 'float16' in kinds else
                                                        'float32' if 'float32' in kinds else 'float64')
                         + '_precision')
                big = any(np.any(np.abs(np.asarray(x, float)[np.isfinite(np.asarray(x, float))]) > 1e30)
                          or np.any(np.isinf(np.asarray(x, float))) for x in r64[1].values())
                if big or ('float16' in kinds and any(np.any(np.abs(np.asarray(x, float)) > 6e4)
                                                      for x in r64[1].values())):
                    ctx.stat('ir', 'values_out_of_float_range_skipped')
                    continue
                for v in r[1]:
                    a, b = np.asarray(r[1][v], float), np.asarray(r64[1][v], float)
                    if a.shape != b.shape or not np.allclose(a, b, rtol=tol, atol=0, equal_nan=True):
                        same = False
            cases.append((f'CIndep {pt} {tg} {"true" if same else "false"}', ('ir_values', pt, tags, same)))
            ctx.stat('ir', 'values_same' if same else 'values_differ_or_fail')

# ====================================================================== O: fail-closed ast extractor
class Untranslatable(Exception):
    def __init__(self, where, what):
        super().__init__(f'{where}: {what}')
        self.where, self.what = where, what


DTYPES = {'float': 'DF64', 'np.float64': 'DF64', 'np.double': 'DF64', 'np.float32': 'DF32', 'np.single': 'DF32',
          'int': 'DI64', 'np.int64': 'DI64', 'np.int32': 'DI32', 'np.int16': 'DI16', 'np.uint16': 'DU16',
          'np.int8': 'DI8', 'bool': 'DBool', 'np.bool_': 'DBool'}
STR_DTYPES = {'float': 'DF64', 'float64': 'DF64', 'f8': 'DF64', 'float32': 'DF32', 'f4': 'DF32', 'int': 'DI64',
              'bool': 'DBool'}
BINOPS = {ast.Add: 'Add', ast.Sub: 'Sub', ast.Mult: 'Mul', ast.Div: 'TrueDiv', ast.Pow: 'Pow'}

# functions of the first (array) argument ------------------------------------------------------
ALIAS_FUNCS = {'np.asanyarray', 'np.asarray', 'np.atleast_1d', 'np.atleast_2d', 'np.squeeze', 'np.transpose',
               'np.moveaxis', 'np.broadcast_to', 'np.ravel', 'np.reshape', 'reshape_as_blocks',
               'np.ma.asanyarray', 'np.ma.masked_array', 'np.ma.MaskedArray', 'np.ma.array',
               'self._validate_array'}
COPY_FUNCS = {'np.array', 'np.copy', 'np.ascontiguousarray', 'np.ma.masked_invalid', 'np.vstack', 'np.hstack',
              '_mask_to_mirrored_value'}
FLOAT_FUNCS = {'np.sqrt', 'np.log', 'np.log10', 'np.exp'}
BOOL_FUNCS = {'np.isfinite', 'np.isnan', 'np.isinf', 'np.logical_or', 'np.logical_and', 'np.logical_not',
              'np.any', 'np.all', 'isinstance', 'hasattr', 'isiterable', 'np.iterable', 'np.isscalar',
              'np.array_equal'}
KERNEL_FUNCS = {'ndi_convolve', 'map_coordinates', 'convolve'}
MAXMIN_FUNCS = {'np.maximum', 'np.minimum', 'np.fmax', 'np.fmin'}
# consume arrays of any dtype and return something that is not tracked further
# reductions that accumulate in the dtype of a float input (IReduce); the photutils.utils._stats wrappers
# send everything but native float64 to the numpy functions
REDUCE_FUNCS = {'np.sum', 'np.nansum', 'np.mean', 'np.nanmean', 'np.std', 'np.nanstd', 'np.var', 'np.nanvar',
                'np.prod', 'np.average', 'np.ma.sum', 'np.ma.mean', 'np.ma.std', 'np.cumsum', 'nansum', 'nanmean',
                'nanstd', 'nanvar'}
REDUCE_METHODS = {'sum', 'mean', 'std', 'var', 'prod', 'cumsum'}
OTHER_FUNCS = {'np.median', 'np.nanmedian', 'nanmedian', 'np.count_nonzero', 'np.unravel_index', 'np.nanargmax',
               'np.nanargmin', 'np.isclose', 'np.allclose', 'np.ma.count', 'np.ma.is_masked', 'np.ma.getmaskarray', 'np.argsort',
               'np.searchsorted', 'np.result_type', 'np.can_cast', 'np.ndim', 'np.shape',
               'len', 'getattr', 'np.prod', 'np.ptp', 'np.argmax', 'np.argmin',
               'print', 'repr', 'str', 'id', 'type', 'np.size', 'np.nonzero', 'warnings.warn', 'zip', 'list',
               'tuple', 'enumerate', 'range', 'slice', 'max', 'min', 'int', 'float', 'as_pair'}
# element selection: the result has the dtype of the input and is one (or a rearrangement) of its elements
SELECT_FUNCS = {'np.min', 'np.max', 'np.nanmin', 'np.nanmax', 'nanmin', 'nanmax', 'np.amin', 'np.amax',
                'maximum_filter', 'minimum_filter', 'np.sort', 'np.flip', 'np.roll', 'np.take', 'np.pad',
                'np.ma.filled', 'np.nan_to_num', 'np.abs', 'np.absolute', 'np.fabs', 'np.negative', 'abs'}
FRESH_F64_FUNCS = {'np.zeros', 'np.ones', 'np.empty', 'np.full'}
ALIAS_METHODS = {'reshape', 'ravel', 'view', 'squeeze', 'transpose', 'swapaxes'}
COPY_METHODS = {'copy', 'flatten', 'filled', 'compressed'}
SELECT_METHODS = {'min', 'max', 'clip_', 'take', 'round'}
OTHER_METHODS = {'any', 'all', 'argmax', 'argmin', 'nonzero',
                 'tolist', 'item', 'to', 'to_value', 'append', 'extend', 'update', 'pop', 'get', 'keys',
                 'values', 'items'}
ALIAS_ATTRS = {'value', 'data', 'T', 'real', 'array', 'quantity', 'flat'}
OTHER_ATTRS = {'shape', 'dtype', 'ndim', 'size', 'mask', 'isscalar', 'meta', 'wcs', 'uncertainty', 'colnames',
               'flags', 'strides', 'itemsize', 'nbytes'}
UNIT_ATTRS = {'unit'}


def dotted(node):
    """a.b.c -> 'a.b.c' (None when the expression is not a pure dotted name)"""
    if isinstance(node, ast.Name):
        return node.id
    if isinstance(node, ast.Attribute):
        b = dotted(node.value)
        return None if b is None else b + '.' + node.attr
    return None


class St:
    def __init__(self):
        self.env = {}
        self.instrs = []
        self.nvars = 0
        self.inputs = []          # (name, var)
        self.returned = None
        self.notes = []

    def fork(self):
        s = St()
        s.env = dict(self.env)
        s.instrs = list(self.instrs)
        s.nvars = self.nvars
        s.inputs = list(self.inputs)
        s.returned = self.returned
        s.notes = list(self.notes)
        return s

    def fresh(self):
        v = self.nvars
        self.nvars += 1
        return v


class Extractor:
    def __init__(self, path, src, qualname, inputs, known=None, opaque=(), max_paths=512, bind=None):
        self.bind = dict(bind or {})         # parameter name -> dtype name it is bound to at every call site
        self.path, self.qualname = path, qualname
        self.known = dict(known or {})       # dotted name -> class for untracked names
        self.opaque = set(opaque)            # callees that accept tracked arrays of any dtype (checked elsewhere)
        self.max_paths = max_paths
        tree = ast.parse(src)
        self.fn = self._find(tree, qualname.split('.'))
        self.seed = inputs
        self.assumed = set()

    def _find(self, node, parts):
        for ch in ast.iter_child_nodes(node):
            if isinstance(ch, (ast.FunctionDef, ast.ClassDef)) and ch.name == parts[0]:
                return ch if len(parts) == 1 else self._find(ch, parts[1:])
        raise Untranslatable(self.path, f'{self.qualname} not found')

    def where(self, node):
        return f'{self.path}:{getattr(node, "lineno", "?")}'

    # ---------------------------------------------------------------- helpers
    def mentions_tracked(self, node, st):
        for n in ast.walk(node):
            d = dotted(n) if isinstance(n, (ast.Name, ast.Attribute)) else None
            if d is not None and st.env.get(d, ('other',))[0] in ('var', 'list'):
                return True
        return False

    def operand(self, cls, node, st):
        k = cls[0]
        if k == 'var':
            return f'(OVar {cls[1]})'
        if k == 'arr':
            return f'(OArr {cls[1]})'
        if k == 'py':
            return {'int': 'OPyInt', 'float': 'OPyFloat', 'bool': 'OPyBool'}[cls[1]]
        if k == 'nan':
            return 'OPyFloat'
        raise Untranslatable(self.where(node), f'operand of unknown dtype in arithmetic with a tracked array: '
                                               f'{ast.unparse(node)[:60]}')

    def new_input(self, name, st):
        v = st.fresh()
        st.inputs.append((name, v))
        st.env[name] = ('var', v)
        return ('var', v)

    def dtype_of(self, node):
        d = dotted(node)
        if d in self.bind:
            return DTYPES[self.bind[d]]
        if d in DTYPES:
            return DTYPES[d]
        if isinstance(node, ast.Constant) and isinstance(node.value, str) and node.value in STR_DTYPES:
            return STR_DTYPES[node.value]
        raise Untranslatable(self.where(node), f'unknown dtype expression {ast.unparse(node)}')

    # ---------------------------------------------------------------- expressions
    def classify(self, node, st):
        """class of an expression; appends instructions for operations on tracked arrays"""
        if node is None:
            return ('other',)
        if isinstance(node, ast.Constant):
            v = node.value
            if isinstance(v, bool):
                return ('py', 'bool')
            if isinstance(v, int):
                return ('py', 'int')
            if isinstance(v, float):
                return ('py', 'float', v)
            return ('other',)
        d = dotted(node) if isinstance(node, (ast.Name, ast.Attribute)) else None
        if d is not None:
            if d in st.env:
                return st.env[d]
            if d in self.known:
                return self.known[d]
            if d in ('np.nan', 'np.inf', 'np.NaN'):
                return ('nan',)
            if d in ('np.pi', 'np.e'):
                return ('py', 'float', 3.14)
        if d is not None and (d in DTYPES or d in self.bind):
            return ('dtype', self.dtype_of(node))
        if isinstance(node, ast.Name):
            return ('other',)
        if isinstance(node, ast.Attribute):
            base = self.classify(node.value, st)
            if base[0] == 'var':
                if node.attr in ALIAS_ATTRS:
                    v = st.fresh()
                    st.instrs.append(f'IAlias {v} {base[1]}')
                    return ('var', v)
                if node.attr == 'dtype':
                    return ('dtypeof', base[1])
                if node.attr in OTHER_ATTRS:
                    return ('other',)
                if node.attr in UNIT_ATTRS:
                    return ('unit',)
                raise Untranslatable(self.where(node), f'attribute .{node.attr} of a tracked array')
            if node.attr in UNIT_ATTRS:
                return ('unit',)
            return ('other',)
        if isinstance(node, ast.Subscript):
            base = self.classify(node.value, st)
            self.classify_index(node.slice, st)
            if base[0] == 'var':
                v = st.fresh()
                st.instrs.append(f'IAlias {v} {base[1]}')
                return ('var', v)
            if base[0] == 'list':
                return ('var', base[1])
            if base[0] in ('box', 'boxitem'):
                return ('boxitem',)
            if base[0] == 'arr':
                return base
            if base[0] == 'tuple' and isinstance(node.slice, ast.Constant) and isinstance(node.slice.value, int) \
                    and 0 <= node.slice.value < len(base[1]):
                return base[1][node.slice.value]
            return ('other',)
        if isinstance(node, ast.Tuple) or isinstance(node, ast.List):
            return ('tuple', [self.classify(e, st) for e in node.elts])
        if isinstance(node, ast.Starred):
            self.classify(node.value, st)
            return ('other',)
        if isinstance(node, ast.UnaryOp):
            c = self.classify(node.operand, st)
            if isinstance(node.op, ast.Invert) or isinstance(node.op, ast.Not):
                if c[0] == 'var':
                    raise Untranslatable(self.where(node), 'bitwise/logical not of a tracked array')
                return ('arr', 'DBool') if c[0] == 'arr' else ('other',)
            if isinstance(node.op, ast.USub):
                if c[0] == 'var':
                    v = st.fresh()
                    st.instrs.append(f'IBin {v} Mul (OVar {c[1]}) OPyInt')
                    return ('var', v)
                return c
            return c
        if isinstance(node, ast.Compare):
            self.classify(node.left, st)
            for c in node.comparators:
                self.classify(c, st)
            return ('arr', 'DBool')
        if isinstance(node, ast.BoolOp):
            for v in node.values:
                self.classify(v, st)
            return ('other',)
        if isinstance(node, ast.IfExp):
            self.classify(node.test, st)
            a = self.classify(node.body, st)
            b = self.classify(node.orelse, st)
            if a[0] == 'var' or b[0] == 'var':
                if a == b:
                    return a
                if a[0] == 'var' and b[0] == 'var' and st.instrs and st.instrs[-1] == f'IAlias {a[1]} {b[1]}':
                    return a          # `x.value if c else x`: a view of x either way
                if b[0] == 'other' or b == ('py', 'int') and False:
                    raise Untranslatable(self.where(node), 'conditional expression over tracked arrays')
                raise Untranslatable(self.where(node), 'conditional expression over tracked arrays')
            return a if a == b else ('other',)
        if isinstance(node, ast.BinOp):
            return self.binop(node, st)
        if isinstance(node, ast.Call):
            return self.call(node, st)
        if isinstance(node, (ast.ListComp, ast.GeneratorExp)):
            return self.comprehension(node, st)
        if isinstance(node, ast.Dict):
            cs = [self.classify(v, st) for v in node.values] + [self.classify(k, st) for k in node.keys if k]
            return ('box',) if any(c[0] in ('var', 'list', 'box') for c in cs) else ('other',)
        if isinstance(node, ast.Set):
            cs = [self.classify(v, st) for v in node.elts]
            return ('box',) if any(c[0] in ('var', 'list', 'box') for c in cs) else ('other',)
        if isinstance(node, (ast.SetComp, ast.DictComp)):
            sub = st.fork()       # comprehension scope
            for g in node.generators:
                it = self.classify(g.iter, sub)
                self.bind_loop_target(g.target, it, g.iter, sub)
                for c in g.ifs:
                    self.classify(c, sub)
            els = [node.elt] if isinstance(node, ast.SetComp) else [node.key, node.value]
            cs = [self.classify(e, sub) for e in els]
            if len(sub.instrs) != len(st.instrs):
                raise Untranslatable(self.where(node), 'array operation inside a set/dict comprehension')
            return ('box',) if any(c[0] in ('var', 'list', 'box') for c in cs) else ('other',)
        if isinstance(node, (ast.JoinedStr, ast.FormattedValue, ast.Slice)):
            return ('other',)
        if isinstance(node, ast.Lambda):
            if self.mentions_tracked(node, st):
                raise Untranslatable(self.where(node), 'lambda capturing a tracked array')
            return ('other',)
        raise Untranslatable(self.where(node), f'unsupported expression {type(node).__name__}')

    def classify_index(self, node, st):
        if isinstance(node, ast.Tuple):
            for e in node.elts:
                self.classify_index(e, st)
        elif isinstance(node, ast.Slice):
            for e in (node.lower, node.upper, node.step):
                if e is not None:
                    self.classify(e, st)
        else:
            self.classify(node, st)

    def binop(self, node, st):
        a = self.classify(node.left, st)
        b = self.classify(node.right, st)
        if a[0] in ('box', 'boxitem', 'list') or b[0] in ('box', 'boxitem', 'list'):
            raise Untranslatable(self.where(node), 'arithmetic on a container of tracked arrays')
        if isinstance(node.op, ast.LShift):           # x << unit
            if a[0] == 'var':
                v = st.fresh()
                st.instrs.append(f'IQuantity {v} {a[1]}')
                return ('var', v)
            return a if a[0] == 'arr' else ('other',)
        if a[0] == 'unit' or b[0] == 'unit':          # array * unit -> Quantity
            x = b if a[0] == 'unit' else a
            if x[0] == 'var':
                v = st.fresh()
                st.instrs.append(f'IQuantity {v} {x[1]}')
                return ('var', v)
            return ('unit',) if x[0] in ('unit', 'py', 'other') else x
        if isinstance(node.op, (ast.BitOr, ast.BitAnd, ast.BitXor)):
            if a[0] == 'var' or b[0] == 'var':
                raise Untranslatable(self.where(node), 'bitwise operation on a tracked array')
            return ('arr', 'DBool') if 'arr' in (a[0], b[0]) else ('other',)
        if type(node.op) not in BINOPS:
            if a[0] == 'var' or b[0] == 'var':
                raise Untranslatable(self.where(node), f'operator {type(node.op).__name__} on a tracked array')
            return ('other',)
        op = BINOPS[type(node.op)]
        if a[0] != 'var' and b[0] != 'var':
            if a[0] == 'arr' and b[0] == 'arr':
                return self.untracked_arith(op, a, b, node)
            if a[0] == 'arr' or b[0] == 'arr':
                arr, sc = (a, b) if a[0] == 'arr' else (b, a)
                if sc[0] in ('py', 'nan'):
                    if op == 'TrueDiv' or (sc[0] == 'nan' or sc[1] == 'float'):
                        return arr if arr[1] in ('DF32', 'DF64') else ('arr', 'DF64')
                    return arr
                return ('other',)
            if a[0] in ('py', 'nan') and b[0] in ('py', 'nan'):
                fl = op == 'TrueDiv' or 'nan' in (a[0], b[0]) or 'float' in (a[1:2] + b[1:2])
                return ('py', 'float', 0.5) if fl else ('py', 'int')
            return ('other',)
        # at least one tracked operand: unknown names become extra inputs
        for side, c in ((node.left, a), (node.right, b)):
            if c[0] == 'other':
                dn = dotted(side)
                if dn is None:
                    raise Untranslatable(self.where(node), f'operand of unknown dtype: {ast.unparse(side)[:60]}')
        if a[0] == 'other':
            a = self.new_input(dotted(node.left), st)
        if b[0] == 'other':
            b = self.new_input(dotted(node.right), st)
        v = st.fresh()
        st.instrs.append(f'IBin {v} {op} {self.operand(a, node.left, st)} {self.operand(b, node.right, st)}')
        return ('var', v)

    def untracked_arith(self, op, a, b, node):
        fl = {'DF32', 'DF64'}
        if a[1] in ('DI64', 'DBool') and b[1] in ('DI64', 'DBool') and op != 'TrueDiv':
            return ('arr', 'DI64')            # index arithmetic
        if a[1] in fl or b[1] in fl or op == 'TrueDiv':
            return ('arr', 'DF64' if 'DF64' in (a[1], b[1]) or not (a[1] in fl or b[1] in fl) else 'DF32')
        return ('other',)

    def call(self, node, st):
        fname = dotted(node.func)
        args = list(node.args)
        kws = {k.arg: k.value for k in node.keywords}
        # ---- containers
        if isinstance(node.func, ast.Attribute) and node.func.attr == 'append' and len(args) == 1 \
                and fname not in self.opaque:
            cont = dotted(node.func.value)
            c = self.classify(args[0], st)
            old = st.env.get(cont, ('other',)) if cont is not None else ('x',)
            if old == ('tuple', []):
                old = ('other',)
            if cont is not None and old[0] in ('other', 'list', 'arr'):
                if c[0] == 'var':
                    if old[0] == 'list' and old[1] != c[1]:
                        raise Untranslatable(self.where(node), 'list holding different tracked arrays')
                    st.env[cont] = ('list', c[1])
                elif c[0] in ('list', 'box', 'boxitem'):
                    raise Untranslatable(self.where(node), 'nested container of tracked arrays')
                elif c[0] == 'arr' and old[0] == 'other':
                    st.env[cont] = c
                return ('other',)
        if isinstance(node.func, ast.Attribute) and fname not in self.opaque:
            bc = self.classify(node.func.value, st) if dotted(node.func.value) in st.env else ('other',)
            if bc[0] in ('box', 'boxitem'):
                if node.func.attr in ('items', 'values', 'keys', 'get', 'update', 'pop'):
                    return ('box',)
                raise Untranslatable(self.where(node), f'method .{node.func.attr}() of a container of tracked arrays')
        # ---- methods of tracked arrays
        if isinstance(node.func, ast.Attribute):
            base_d = dotted(node.func.value)
            is_module = base_d in ('np', 'np.ma', 'u', 'warnings', 'math') or (fname in self.opaque)
            if not is_module:
                base = self.classify(node.func.value, st)
                if base[0] == 'var':
                    return self.method(node, base, node.func.attr, args, kws, st)
        # ---- functions
        if fname in self.opaque:
            for a in args + list(kws.values()):
                self.classify(a, st)
            self.assumed.add(fname)
            return self.known.get(fname + '()', ('other',))
        if fname == 'process_quantities':
            # returns (values with units stripped, unit): .value is a view of the same dtype
            vals = self.classify(args[0], st)
            if vals[0] != 'tuple':
                raise Untranslatable(self.where(node), 'process_quantities on a non-literal tuple')
            out = []
            for c in vals[1]:
                if c[0] == 'var':
                    v = st.fresh()
                    st.instrs.append(f'IAlias {v} {c[1]}')
                    out.append(('var', v))
                else:
                    out.append(c)
            return ('tuple', [('tuple', out), ('unit',)])
        first = self.classify(args[0], st) if args else ('other',)
        rest = [self.classify(a, st) for a in args[1:]]
        kwc = {k: self.classify(v, st) for k, v in kws.items() if k not in ('dtype', 'out', 'output')}
        tracked_rest = [c for c in rest + list(kwc.values()) if c[0] == 'var']
        if fname in ('u.Quantity', 'Quantity'):
            if first[0] == 'var':
                v = st.fresh()
                st.instrs.append(f'IQuantity {v} {first[1]}')
                return ('var', v)
            return first
        if fname in ALIAS_FUNCS or fname in COPY_FUNCS:
            if first[0] == 'tuple':      # np.vstack((a, b)) etc.
                tr = [c for c in first[1] if c[0] == 'var']
                if tr:
                    raise Untranslatable(self.where(node), f'{fname} of several tracked arrays')
                return ('other',)
            if first[0] == 'list':               # np.array([... for ...]) of tracked elements
                first = ('var', first[1])
            if first[0] != 'var':
                return first if first[0] == 'arr' else ('other',)
            v = st.fresh()
            if 'dtype' in kws and not (isinstance(kws['dtype'], ast.Constant) and kws['dtype'].value is None):
                st.instrs.append(f'IAsType {v} {first[1]} {self.dtype_of(kws["dtype"])}')
            elif fname in COPY_FUNCS:
                st.instrs.append(f'ICopy {v} {first[1]}')
            else:
                st.instrs.append(f'IAlias {v} {first[1]}')
            return ('var', v)
        if fname in FLOAT_FUNCS:
            if first[0] == 'var':
                v = st.fresh()
                st.instrs.append(f'IFloatFun {v} {first[1]}')
                return ('var', v)
            return ('arr', 'DF64') if first[0] == 'arr' else ('other',)
        if fname in MAXMIN_FUNCS:
            if first[0] == 'var' or (rest and rest[0][0] == 'var'):
                if 'out' in kws:
                    raise Untranslatable(self.where(node), 'maximum/minimum with out=')
                b = rest[0]
                a = first
                if a[0] == 'other' or b[0] == 'other':
                    raise Untranslatable(self.where(node), 'maximum/minimum with an operand of unknown dtype')
                v = st.fresh()
                st.instrs.append(f'IBin {v} MaxMin {self.operand(a, args[0], st)} {self.operand(b, args[1], st)}')
                return ('var', v)
            return first if first[0] == 'arr' else ('other',)
        if fname in KERNEL_FUNCS:
            if first[0] == 'var':
                v = st.fresh()
                out = kws.get('output', kws.get('out'))
                if out is not None:
                    t = self.dtype_of(out)
                    if t not in ('DF32', 'DF64'):
                        raise Untranslatable(self.where(node), 'kernel with a non-float output dtype')
                    st.instrs.append(f'IFloatFun {v} {first[1]}')
                else:
                    st.instrs.append(f'IKernel {v} {first[1]}')
                return ('var', v)
            return ('other',)
        if fname in BOOL_FUNCS:
            return ('arr', 'DBool')
        if fname == 'np.arange' and 'dtype' not in kws:
            return ('arr', 'DI64') if all(c[0] != 'py' or c[1] != 'float' for c in [first] + rest) else ('arr', 'DF64')
        if fname in FRESH_F64_FUNCS:
            if 'dtype' in kws:
                dc = self.classify(kws['dtype'], st)
                if dc[0] == 'dtypeof':         # a new array with the dtype of a tracked array
                    v = st.fresh()
                    st.instrs.append(f'ICopy {v} {dc[1]}')
                    return ('var', v)
                if dc[0] == 'dtype':
                    return ('arr', dc[1])
                return ('arr', self.dtype_of(kws['dtype']))
            return ('arr', 'DF64')
        if fname in ('np.dot', 'np.matmul', 'np.inner', 'np.outer', 'np.multiply', 'np.add', 'np.subtract'):
            a, b = first, (rest[0] if rest else ('other',))
            if a[0] == 'var' or b[0] == 'var':
                if 'out' in kws and self.classify(kws['out'], st) != ('arr', 'DF64'):
                    raise Untranslatable(self.where(node), f'{fname} with out= an array that is not known float64')
                if 'dtype' in kws:
                    raise Untranslatable(self.where(node), f'{fname} with an explicit loop dtype')
                op = {'np.add': 'Add', 'np.subtract': 'Sub'}.get(fname, 'Mul')
                v = st.fresh()
                st.instrs.append(f'IBin {v} {op} {self.operand(a, args[0], st)} {self.operand(b, args[1], st)}')
                if fname in ('np.dot', 'np.matmul', 'np.inner'):
                    st.instrs.append(f'IReduce {v}')        # sums of products, accumulated in the product dtype
                return ('var', v)
            return ('arr', 'DF64') if (a == ('arr', 'DF64') or b == ('arr', 'DF64')) else ('other',)
        if fname in SELECT_FUNCS:
            if first[0] == 'var':
                v = st.fresh()
                st.instrs.append(f'ICopy {v} {first[1]}')
                return ('var', v)
            return first if first[0] == 'arr' else ('other',)
        if fname in REDUCE_FUNCS:
            acc = self.dtype_of(kws['dtype']) if 'dtype' in kws else None
            targets = [first] if first[0] != 'tuple' else first[1]
            for c in targets:
                if c[0] in ('var', 'list'):
                    if acc is None:
                        st.instrs.append(f'IReduce {c[1]}')
                    elif acc != 'DF64':               # an explicit narrow accumulator
                        v = st.fresh()
                        st.instrs.append(f'IAsType {v} {c[1]} {acc}')
                        st.instrs.append(f'IReduce {v}')
            return ('other',)
        if fname in OTHER_FUNCS:
            return ('other',)
        allc = [first] + rest + list(kwc.values())
        if any(c[0] in ('box', 'boxitem', 'list') for c in allc) and fname not in BOOL_FUNCS | OTHER_FUNCS:
            raise Untranslatable(self.where(node), f'call of {fname} with a container of tracked arrays')
        if first[0] == 'var' or tracked_rest or (first[0] == 'tuple' and any(c[0] == 'var' for c in first[1])):
            raise Untranslatable(self.where(node), f'call of {fname or ast.unparse(node.func)[:40]} with a tracked array')
        return ('other',)

    def method(self, node, base, name, args, kws, st):
        for a in args:
            self.classify(a, st)
        if name == 'astype':
            t = self.dtype_of(args[0] if args else kws['dtype'])
            v = st.fresh()
            st.instrs.append(f'IAsType {v} {base[1]} {t}')
            return ('var', v)
        if name in COPY_METHODS:
            v = st.fresh()
            st.instrs.append(f'ICopy {v} {base[1]}')
            return ('var', v)
        if name in ALIAS_METHODS:
            v = st.fresh()
            st.instrs.append(f'IAlias {v} {base[1]}')
            return ('var', v)
        if name == 'clip':
            v = st.fresh()
            st.instrs.append(f'IBin {v} MaxMin (OVar {base[1]}) OPyFloat')
            return ('var', v)
        if name in SELECT_METHODS:
            v = st.fresh()
            st.instrs.append(f'ICopy {v} {base[1]}')
            return ('var', v)
        if name in REDUCE_METHODS:
            acc = self.dtype_of(kws['dtype']) if 'dtype' in kws else None
            if acc is None:
                st.instrs.append(f'IReduce {base[1]}')
            elif acc != 'DF64':
                v = st.fresh()
                st.instrs.append(f'IAsType {v} {base[1]} {acc}')
                st.instrs.append(f'IReduce {v}')
            return ('other',)
        if name in OTHER_METHODS:
            return ('other',)
        raise Untranslatable(self.where(node), f'method .{name}() of a tracked array')

    def comprehension(self, node, st):
        for g in node.generators:
            it = self.classify(g.iter, st)
            self.bind_loop_target(g.target, it, g.iter, st)
            for c in g.ifs:
                self.classify(c, st)
        el = self.classify(node.elt, st)
        if el[0] == 'var':
            return ('list', el[1])
        return ('other',) if el[0] != 'arr' else el

    def bind_loop_target(self, target, itcls, iternode, st):
        """for target in iter"""
        if isinstance(iternode, ast.Call) and dotted(iternode.func) == 'zip':
            its = [self.classify(a, st) for a in iternode.args]
            if isinstance(target, ast.Tuple) and len(target.elts) == len(its):
                for t, c in zip(target.elts, its):
                    self.bind_loop_target(t, c, None, st)
                return
            if any(c[0] in ('var', 'list') for c in its):
                raise Untranslatable(self.where(target), 'zip over tracked arrays with a non-tuple target')
            return
        if isinstance(iternode, ast.Call) and dotted(iternode.func) == 'enumerate':
            its = self.classify(iternode.args[0], st)
            if isinstance(target, ast.Tuple) and len(target.elts) == 2:
                self.bind_loop_target(target.elts[1], its, None, st)
                return
        if isinstance(target, ast.Tuple):
            if itcls[0] in ('var', 'list'):
                raise Untranslatable(self.where(target), 'tuple target over tracked arrays')
            for t in target.elts:
                self.bind_loop_target(t, ('boxitem',) if itcls[0] in ('box', 'boxitem') else ('other',), None, st)
            return
        d = dotted(target)
        if d is None:
            raise Untranslatable(self.where(target), 'loop target')
        if itcls[0] == 'tuple':
            tr = [c for c in itcls[1] if c[0] in ('var', 'list')]
            st.env[d] = ('boxitem',) if tr else ('other',)
            return
        if itcls[0] in ('box', 'boxitem'):
            st.env[d] = ('boxitem',)
            return
        if itcls[0] == 'list':
            st.env[d] = ('var', itcls[1])        # element of a list of tracked arrays
        elif itcls[0] == 'var':
            st.env[d] = ('var', itcls[1])        # row of a tracked array: same dtype
        elif itcls[0] == 'arr':
            st.env[d] = itcls
        else:
            st.env.pop(d, None)

    # ---------------------------------------------------------------- statements
    def assign(self, target, cls, valnode, st):
        if cls[0] == 'input':
            d0 = dotted(target)
            if d0 is None:
                raise Untranslatable(self.where(target), 'input bound to a non-name')
            self.new_input(cls[1], st)
            st.env[d0] = st.env[cls[1]]
            return
        if isinstance(target, (ast.Tuple, ast.List)):
            if cls[0] == 'tuple' and len(cls[1]) == len(target.elts):
                for t, c in zip(target.elts, cls[1]):
                    self.assign(t, c, None, st)
                return
            if cls[0] in ('var', 'list'):
                raise Untranslatable(self.where(target), 'tuple-unpacking a tracked array')
            for t in target.elts:
                self.assign(t, ('other',), None, st)
            return
        if isinstance(target, ast.Subscript):
            base = self.classify(target.value, st)
            self.classify_index(target.slice, st)
            if base[0] == 'var':
                if cls[0] == 'nan':
                    st.instrs.append(f'ISetNaN {base[1]}')
                elif cls[0] == 'py':
                    integral = cls[1] in ('int', 'bool') or (len(cls) > 2 and float(cls[2]).is_integer())
                    st.instrs.append(f'ISetConst {base[1]} {"true" if integral else "false"}')
                elif cls[0] in ('var', 'arr'):
                    st.instrs.append(f'ISetFrom {base[1]} {self.operand(cls, target, st)}')
                else:
                    raise Untranslatable(self.where(target), 'item assignment of a value of unknown dtype into a '
                                                             'tracked array')
            elif cls[0] in ('var', 'list') and base[0] == 'arr' and base[1] not in ('DF64',):
                raise Untranslatable(self.where(target), 'tracked array stored into a non-float64 array')
            elif cls[0] in ('var', 'list') and base[0] != 'arr':
                dn = dotted(target.value)
                if dn is not None and base[0] == 'other':
                    return        # storing a tracked array in a container (dict/list/table) is not arithmetic
                raise Untranslatable(self.where(target), 'tracked array stored into an untracked array')
            return
        d = dotted(target)
        if d is None:
            raise Untranslatable(self.where(target), f'assignment target {type(target).__name__}')
        if cls[0] in ('var', 'arr', 'list', 'py', 'unit', 'tuple', 'nan', 'box', 'boxitem', 'dtype', 'dtypeof'):
            st.env[d] = cls
        else:
            st.env.pop(d, None)

    def bound_none_test(self, test):
        """`name is None` / `name is not None` on a parameter that is bound (hence not None): its truth"""
        if isinstance(test, ast.Compare) and len(test.ops) == 1 and dotted(test.left) in self.bind \
                and isinstance(test.comparators[0], ast.Constant) and test.comparators[0].value is None:
            if isinstance(test.ops[0], ast.IsNot):
                return True
            if isinstance(test.ops[0], ast.Is):
                return False
        return None

    def dtype_test(self, test, st):
        """recognise a test on the dtype of a tracked array -> (pred, name, var) or None"""
        # np.issubdtype(x.dtype, np.integer)
        if isinstance(test, ast.Call) and dotted(test.func) == 'np.issubdtype' and len(test.args) == 2:
            a0 = test.args[0]
            if isinstance(a0, ast.Attribute) and a0.attr == 'dtype' and dotted(test.args[1]) == 'np.integer':
                name = dotted(a0.value)
                c = st.env.get(name)
                if c and c[0] == 'var':
                    return ('PIsInteger', name, c[1])
        # x.dtype.kind != 'f'
        if isinstance(test, ast.Compare) and len(test.ops) == 1 and isinstance(test.ops[0], ast.NotEq):
            l, r = test.left, test.comparators[0]
            if isinstance(l, ast.Attribute) and l.attr == 'kind' and isinstance(l.value, ast.Attribute) \
                    and l.value.attr == 'dtype' and isinstance(r, ast.Constant) and r.value == 'f':
                name = dotted(l.value.value)
                c = st.env.get(name)
                if c and c[0] == 'var':
                    return ('PKindNotF', name, c[1])
        # any other mention of .dtype of a tracked array in a test is not understood
        for n in ast.walk(test):
            if isinstance(n, ast.Attribute) and n.attr == 'dtype':
                name = dotted(n.value)
                if name and st.env.get(name, ('other',))[0] == 'var':
                    raise Untranslatable(self.where(test), f'unrecognised dtype test {ast.unparse(test)[:60]}')
        return None

    def walk(self, stmts, st):
        """-> list of (state, status); status in fall / return / break / continue"""
        states = [(st, 'fall')]
        for s in stmts:
            nxt = []
            for (cur, status) in states:
                if status != 'fall':
                    nxt.append((cur, status))
                else:
                    nxt.extend(self.stmt(s, cur))
            seen, states = set(), []
            for (cur, status) in nxt:             # paths that did the same things are one path
                key = (status, tuple(cur.instrs), tuple(cur.inputs), repr(sorted(cur.env.items())))
                if key not in seen:
                    seen.add(key)
                    states.append((cur, status))
            if len(states) > self.max_paths:
                raise Untranslatable(self.where(s), 'too many paths')
        return states

    def stmt(self, s, st):
        if isinstance(s, ast.Expr):
            self.classify(s.value, st)
            return [(st, 'fall')]
        if isinstance(s, ast.Assign):
            if isinstance(s.value, ast.IfExp):          # x = a if c else b : one path per alternative
                self.classify(s.value.test, st)
                out = []
                for alt in (s.value.body, s.value.orelse):
                    f = st.fork()
                    cls = self.classify(alt, f)
                    for t in s.targets:
                        self.assign(t, cls, alt, f)
                    out.append((f, 'fall'))
                return out
            cls = self.classify(s.value, st)
            for t in s.targets:
                self.assign(t, cls, s.value, st)
            return [(st, 'fall')]
        if isinstance(s, ast.AnnAssign):
            if s.value is not None:
                self.assign(s.target, self.classify(s.value, st), s.value, st)
            return [(st, 'fall')]
        if isinstance(s, ast.AugAssign):
            return self.augassign(s, st)
        if isinstance(s, ast.Return):
            if s.value is not None:
                st.returned = self.classify(s.value, st)
            return [(st, 'return')]
        if isinstance(s, ast.Raise):
            return []
        if isinstance(s, (ast.Pass, ast.Import, ast.ImportFrom, ast.Global, ast.Nonlocal, ast.Assert)):
            return [(st, 'fall')]
        if isinstance(s, ast.Delete):
            for t in s.targets:
                d = dotted(t)
                if d:
                    st.env.pop(d, None)
            return [(st, 'fall')]
        if isinstance(s, ast.Break):
            return [(st, 'break')]
        if isinstance(s, ast.Continue):
            return [(st, 'continue')]
        if isinstance(s, ast.If):
            dtst = self.dtype_test(s.test, st)
            if dtst is not None:
                pred, name, var = dtst
                ok = (len(s.body) == 1 and not s.orelse and isinstance(s.body[0], ast.Assign)
                      and len(s.body[0].targets) == 1 and dotted(s.body[0].targets[0]) == name
                      and isinstance(s.body[0].value, ast.Call)
                      and isinstance(s.body[0].value.func, ast.Attribute)
                      and s.body[0].value.func.attr == 'astype'
                      and dotted(s.body[0].value.func.value) == name)
                if not ok:
                    raise Untranslatable(self.where(s), 'dtype-dependent branch that is not `x = x.astype(T)`')
                call = s.body[0].value
                t = self.dtype_of(call.args[0] if call.args else {k.arg: k.value for k in call.keywords}['dtype'])
                st.instrs.append(f'ICondAsType {pred} {var} {t}')
                return [(st, 'fall')]
            feas = self.bound_none_test(s.test)
            self.classify(s.test, st)
            a = self.walk(s.body, st.fork()) if feas in (None, True) else []
            b = ((self.walk(s.orelse, st.fork()) if s.orelse else [(st.fork(), 'fall')])
                 if feas in (None, False) else [])
            return a + b
        if isinstance(s, (ast.For, ast.AsyncFor)):
            it = self.classify(s.iter, st)
            self.bind_loop_target(s.target, it, s.iter, st)
            out = []
            # zero iterations, or one representative iteration
            out.append((st.fork(), 'fall'))
            for (b, status) in self.walk(s.body, st.fork()):
                if status == 'return':
                    out.append((b, 'return'))
                else:
                    out.append((b, 'fall'))
            if s.orelse:
                res = []
                for (b, status) in out:
                    res.extend(self.walk(s.orelse, b) if status == 'fall' else [(b, status)])
                out = res
            return out
        if isinstance(s, ast.While):
            self.classify(s.test, st)
            out = [(st.fork(), 'fall')]
            for (b, status) in self.walk(s.body, st.fork()):
                out.append((b, 'return' if status == 'return' else 'fall'))
            return out
        if isinstance(s, (ast.With, ast.AsyncWith)):
            for it in s.items:
                self.classify(it.context_expr, st)
            return self.walk(s.body, st)
        if isinstance(s, ast.Try):
            out = self.walk(s.body, st.fork())
            for h in s.handlers:
                out += self.walk(h.body, st.fork())
            res = []
            for (b, status) in out:
                if status == 'fall' and s.orelse:
                    res.extend(self.walk(s.orelse, b))
                else:
                    res.append((b, status))
            if s.finalbody:
                res2 = []
                for (b, status) in res:
                    for (c, st2) in self.walk(s.finalbody, b):
                        res2.append((c, status if st2 == 'fall' else st2))
                res = res2
            return res
        if isinstance(s, (ast.FunctionDef, ast.ClassDef)):
            if self.mentions_tracked(s, st):
                raise Untranslatable(self.where(s), 'nested definition capturing a tracked array')
            return [(st, 'fall')]
        raise Untranslatable(self.where(s), f'unsupported statement {type(s).__name__}')

    def augassign(self, s, st):
        tgt = s.target
        base_node = tgt.value if isinstance(tgt, ast.Subscript) else tgt
        base = self.classify(base_node, st)
        if isinstance(tgt, ast.Subscript):
            self.classify_index(tgt.slice, st)
        rhs = self.classify(s.value, st)
        if isinstance(s.op, ast.LShift):           # x <<= unit
            if base[0] == 'var':
                if isinstance(tgt, ast.Subscript):
                    raise Untranslatable(self.where(s), '<<= on an item of a tracked array')
                v = st.fresh()
                st.instrs.append(f'IQuantity {v} {base[1]}')
                st.env[dotted(tgt)] = ('var', v)
            return [(st, 'fall')]
        if base[0] == 'var':
            if isinstance(s.op, (ast.BitOr, ast.BitAnd)) or type(s.op) not in BINOPS:
                raise Untranslatable(self.where(s), f'in-place {type(s.op).__name__} on a tracked array')
            if rhs[0] == 'other':
                dn = dotted(s.value)
                if dn is None:
                    raise Untranslatable(self.where(s), f'in-place operand of unknown dtype: '
                                                        f'{ast.unparse(s.value)[:60]}')
                rhs = self.new_input(dn, st)
            st.instrs.append(f'IInplace {BINOPS[type(s.op)]} {base[1]} {self.operand(rhs, s.value, st)}')
            return [(st, 'fall')]
        if rhs[0] == 'var' and base[0] == 'py' and not isinstance(tgt, ast.Subscript) and type(s.op) in BINOPS:
            # a Python scalar is immutable: `acc += x` is `acc = acc + x`, a new (numpy) scalar
            v = st.fresh()
            st.instrs.append(f'IBin {v} {BINOPS[type(s.op)]} {self.operand(base, tgt, st)} (OVar {rhs[1]})')
            st.env[dotted(tgt)] = ('var', v)
            return [(st, 'fall')]
        if rhs[0] in ('var', 'list'):
            if base[0] == 'arr' and base[1] in ('DF32', 'DF64'):
                return [(st, 'fall')]          # accumulating into a known float array
            raise Untranslatable(self.where(s), 'tracked array accumulated into an array of unknown dtype')
        return [(st, 'fall')]

    # ---------------------------------------------------------------- driver
    def programs(self):
        st = St()
        for name in self.seed:
            self.new_input(name, st)
        paths = self.walk(self.fn.body, st)
        progs = []
        seen = set()
        for (p, status) in paths:
            key = (tuple(p.instrs), tuple(p.inputs))
            if key in seen:
                continue
            seen.add(key)
            progs.append(p)
        return progs


def renumber(p):
    """inputs must be variables 0..n-1 (in order of appearance): rename variables of one path"""
    import re
    order = [v for (_, v) in p.inputs]
    mapping = {}
    for i, v in enumerate(order):
        mapping[v] = i
    nxt = len(order)
    for v in range(p.nvars):
        if v not in mapping:
            mapping[v] = nxt
            nxt += 1
    out = []
    for ins in p.instrs:
        toks = ins.split(' ')
        head = toks[0]
        def m(tok):
            return str(mapping[int(tok)])
        if head in ('IAlias', 'ICopy', 'IQuantity', 'IFloatFun', 'IKernel'):
            toks[1], toks[2] = m(toks[1]), m(toks[2])
        elif head == 'IAsType':
            toks[1], toks[2] = m(toks[1]), m(toks[2])
        elif head == 'ICondAsType':
            toks[2] = m(toks[2])
        elif head == 'IBin':
            toks[1] = m(toks[1])
        elif head == 'IInplace':
            toks[2] = m(toks[2])
        elif head in ('ISetNaN', 'ISetConst', 'ISetFrom', 'IReduce'):
            toks[1] = m(toks[1])
        s = ' '.join(toks)
        s = re.sub(r'\(OVar (\d+)\)', lambda mo: f'(OVar {mapping[int(mo.group(1))]})', s)
        out.append(s)
    ret = p.returned
    p.returned_var = mapping[ret[1]] if ret is not None and ret[0] in ('var', 'list') else None
    return out, [n for (n, _) in p.inputs], nxt


# ---------------------------------------------------------------- anchored mechanisms
# known = trusted dtype annotations of names the walker cannot infer (weights are float64, masks are
# bool); opaque = callees that accept tracked arrays of any dtype (covered by the product test)
F64 = ('arr', 'DF64')
B = ('arr', 'DBool')
I64 = ('arr', 'DI64')
TARGETS = [
    dict(name='calc_total_error', file='photutils/utils/errors.py', func='calc_total_error',
         inputs=['data', 'bkg_error', 'effective_gain'], known={}, opaque=[]),
    dict(name='_filter_data', file='photutils/utils/_convolution.py', func='_filter_data',
         inputs=['data'], known={}, opaque=['np.allclose', 'np.sum']),
    dict(name='Background2D._calculate_stats', file='photutils/background/background_2d.py',
         func='Background2D._calculate_stats', inputs=['self._data'], known={},
         opaque=['self._combine_all_masks', 'self._compute_box_statistics']),
    dict(name='ApertureStats._data_cutouts', file='photutils/aperture/stats.py',
         func='ApertureStats._data_cutouts', inputs=['self._data'], known={}, opaque=[]),
    dict(name='ApertureStats._make_aperture_cutouts', file='photutils/aperture/stats.py',
         func='ApertureStats._make_aperture_cutouts', inputs=['self._error'],
         known={'self._data_cutouts': F64, 'apermask.data': F64, 'self._mask': B, 'data_sigclip.mask': B,
                'data_sigclip.filled()': F64},
         opaque=['self.sigma_clip', 'apermask.get_overlap_slices']),
    dict(name='PixelAperture.do_photometry', file='photutils/aperture/core.py',
         func='PixelAperture.do_photometry', inputs=['data', 'error'],
         known={'aper_weights': F64, 'pixel_mask': B},
         opaque=['self.to_mask', 'apermask._get_overlap_cutouts']),
    dict(name='SourceCatalog._moment_data_cutouts', file='photutils/segmentation/catalog.py',
         func='SourceCatalog._moment_data_cutouts', inputs=['self._convdata_cutouts'],
         known={'self._mask_cutouts': B, 'self._cutout_segment_masks': B}, opaque=[]),
    dict(name='SourceCatalog._make_aperture_data', file='photutils/segmentation/catalog.py',
         func='SourceCatalog._make_aperture_data', inputs=['self._data', 'self._error'],
         known={'self._mask': B}, opaque=['self._make_cutout_data_mask', 'aperture_bbox.get_overlap_slices']),
    dict(name='SourceCatalog.segment_fluxerr', file='photutils/segmentation/catalog.py',
         func='SourceCatalog.segment_fluxerr', inputs=['self._error_values'], known={}, opaque=[]),
    dict(name='SourceCatalog._aperture_photometry', file='photutils/segmentation/catalog.py',
         func='SourceCatalog._aperture_photometry', inputs=[],
         known={'aperture_mask.data': F64,
                'self._make_aperture_data()': ('tuple', [F64, ('input', 'error'), B, ('other',), ('other',)])},
         opaque=['self._make_aperture_data', 'aperture.to_mask', 'add_progress_bar']),
    dict(name='SourceCatalog.background_centroid', file='photutils/segmentation/catalog.py',
         func='SourceCatalog.background_centroid', inputs=['self._background'], known={}, opaque=[]),
    dict(name='PSFPhotometry._prepare_fit_inputs', file='photutils/psf/photometry.py',
         func='PSFPhotometry._prepare_fit_inputs', inputs=['data', 'error'], known={},
         opaque=['self._make_mask', 'self._validate_init_params', 'self._prepare_init_params',
                 'self._check_init_positions', 'np.unique']),
    dict(name='PSFPhotometry.__call__', file='photutils/psf/photometry.py',
         func='PSFPhotometry.__call__', inputs=['data', 'error'], known={},
         opaque=['self.__call__', 'self._reset_results', 'self._prepare_fit_inputs', 'self._fit_sources', 'join',
                 'self._ungroup', 'unc.represent_as', 'error.to', 'self._define_flags',
                 'results_tbl.index_column', 'results_tbl.add_column', 'self._calc_fit_metrics',
                 'self._param_errors_to_table']),
    dict(name='aperture_photometry(NDData)', file='photutils/aperture/photometry.py',
         func='aperture_photometry', inputs=['data', 'error'], known={},
         opaque=['aperture_photometry', '_aperture_metadata', 'region_to_aperture', 'aper.to_pixel',
                 'aper.do_photometry', 'wcs.pixel_to_world', 'QTable', '_get_meta', 'meta.update',
                 'tbl.meta.update', 'aper_meta.update', 'skycoord_pos.reshape']),
    dict(name='ApertureStats._unpack_nddata', file='photutils/aperture/stats.py',
         func='ApertureStats._unpack_nddata', inputs=['data', 'error'], known={}, opaque=[]),
    # ---- round 5: input handling and arithmetic of the other entry points of the product test
    dict(name='ApertureMask.cutout', file='photutils/aperture/mask.py', func='ApertureMask.cutout', inputs=['data'],
         known={'fill_value': ('py', 'float', 0.0)}, opaque=['self.get_overlap_slices']),
    dict(name='ApertureMask.multiply', file='photutils/aperture/mask.py', func='ApertureMask.multiply', inputs=[],
         known={'fill_value': ('py', 'float', 0.0), 'self.data': F64, 'self._mask': B,
                'self.cutout()': ('input', 'cutout')}, opaque=['self.cutout']),
    dict(name='ApertureMask.get_values', file='photutils/aperture/mask.py', func='ApertureMask.get_values',
         inputs=['data'], known={'self._get_overlap_cutouts()': ('tuple', [('other',), F64, B])},
         opaque=['self._get_overlap_cutouts']),
    dict(name='centroid_quadratic', file='photutils/centroids/core.py', func='centroid_quadratic', inputs=['data'],
         known={'coeff_matrix': I64},
         opaque=['as_pair', 'overlap_slices', 'py2intround', 'np.linalg.lstsq', 'np.meshgrid']),
    dict(name='centroid_sources', file='photutils/centroids/core.py', func='centroid_sources', inputs=['data'],
         known={}, opaque=['centroid_func', 'overlap_slices', 'inspect.signature', 'as_pair']),
    dict(name='find_peaks', file='photutils/detection/peakfinder.py', func='find_peaks',
         inputs=['data', 'threshold', 'error'], known={},
         opaque=['as_pair', 'QTable', '_get_meta', 'table.meta.update', 'wcs.pixel_to_world', 'table.add_column',
                 'centroid_sources', 'table.colnames.index', 'peak_goodmask.nonzero']),
    dict(name='detect_sources', file='photutils/segmentation/detect.py', func='detect_sources',
         inputs=['data', 'threshold'], known={}, opaque=['_make_binary_structure', '_detect_sources']),
    dict(name='process_quantities', file='photutils/utils/_quantity_helpers.py', func='process_quantities',
         inputs=['values'], known={}, opaque=[]),
    dict(name='SourceCatalog._prepare_cutouts[dtype=float]', file='photutils/segmentation/catalog.py',
         func='SourceCatalog._prepare_cutouts', inputs=['arrays'], known={'self._cutout_total_masks': B}, opaque=[],
         bind={'dtype': 'float'}, returns='DF64', call_sites=[('_prepare_cutouts', 'dtype', 'float')]),
    # the values summed are those _prepare_cutouts[dtype=float] returns (float64, obligation above)
    dict(name='SourceCatalog.segment_flux', file='photutils/segmentation/catalog.py',
         func='SourceCatalog.segment_flux', inputs=['self._data_values'], known={}, opaque=[],
         typed={'self._data_values': ['DF64']}),
    dict(name='SourceCatalog.min_value', file='photutils/segmentation/catalog.py', func='SourceCatalog.min_value',
         inputs=['self._data_values', 'self._local_background'], known={}, opaque=[],
         typed={'self._data_values': ['DF64'], 'self._local_background': ['DF64']}),
    dict(name='SourceCatalog.max_value', file='photutils/segmentation/catalog.py', func='SourceCatalog.max_value',
         inputs=['self._data_values', 'self._local_background'], known={}, opaque=[],
         typed={'self._data_values': ['DF64'], 'self._local_background': ['DF64']}),
    dict(name='SourceCatalog._local_background', file='photutils/segmentation/catalog.py',
         func='SourceCatalog._local_background', inputs=['self._data'],
         known={'aperture_mask.data': F64, 'self._mask': B, 'self._segment_img.data': I64},
         opaque=['self._make_cutout_data_mask', 'aperture_mask.get_overlap_slices', 'sigma_clipped_stats',
                 'add_progress_bar', 'SigmaClip', 'sigclip', 'bkg_func']),
    dict(name='SourceCatalog._validate_array', file='photutils/segmentation/catalog.py',
         func='SourceCatalog._validate_array', inputs=['array'], known={}, opaque=[]),
    dict(name='SourceCatalog.__init__', file='photutils/segmentation/catalog.py', func='SourceCatalog.__init__',
         inputs=['data', 'convolved_data', 'error', 'background'], known={},
         opaque=['self._validate_segment_img', 'self._validate_localbkg_width', 'self._validate_apermask_method',
                 'self._validate_kron_params', 'self._validate_detection_cat', '_get_meta', 'self._update_meta',
                 'setattr', 'getattr']),
    dict(name='_mask_to_mirrored_value', file='photutils/segmentation/utils.py', func='_mask_to_mirrored_value',
         inputs=['data'], known={}, opaque=[]),
    dict(name='deblend_sources', file='photutils/segmentation/deblend.py', func='deblend_sources', inputs=['data'],
         known={}, opaque=['_DeblendParams', 'segment_img.check_labels', 'add_progress_bar', '_deblend_source',
                           'get_context', 'segment_img.copy', 'segment_img._update_deblend_label_map',
                           'as_completed', 'executor.submit', 'cf.ProcessPoolExecutor',
                           'segm_deblended.__dict__.pop', 'segm_deblended.relabel_consecutive', 'warnings.warn',
                           'np.unique', 'np.atleast_1d']),
    dict(name='PSFPhotometry._validate_array', file='photutils/psf/photometry.py',
         func='PSFPhotometry._validate_array', inputs=['array'], known={}, opaque=[]),
    dict(name='ModelImageMixin.make_residual_image', file='photutils/psf/photometry.py',
         func='ModelImageMixin.make_residual_image', inputs=['data'], known={'self.make_model_image()': F64},
         opaque=['deepcopy', 'self.make_residual_image', 'self.make_model_image']),
    dict(name='ApertureStats.__init__', file='photutils/aperture/stats.py', func='ApertureStats.__init__',
         inputs=['data', 'error', 'local_bkg'], known={},
         opaque=['self._unpack_nddata', 'self._validate_aperture', '_aperture_metadata', 'region_to_aperture',
                 '_get_meta', 'self.meta.update']),
    dict(name='ApertureStats._validate_array', file='photutils/aperture/stats.py',
         func='ApertureStats._validate_array', inputs=['array'], known={}, opaque=[]),
    dict(name='Background2D.__init__', file='photutils/background/background_2d.py', func='Background2D.__init__',
         inputs=['data'], known={},
         opaque=['as_pair', 'self._calculate_stats', 'nanmin', 'self._calculate_mesh_yxcen']),
    dict(name='ProfileBase.__init__', file='photutils/profiles/core.py', func='ProfileBase.__init__',
         inputs=['data', 'error'], known={}, opaque=['self._validate_radii', 'self._compute_mask']),
    dict(name='_moments_central', file='photutils/utils/_moments.py', func='_moments_central', inputs=['data'],
         known={'indices': I64, 'center': ('arr', 'DF64')}, opaque=['centroid_com']),
    dict(name='_StarFinderCatalog.cutout_data', file='photutils/detection/starfinder.py',
         func='_StarFinderCatalog.cutout_data', inputs=['self.data'], known={}, opaque=[]),
]

# Candidates that are NOT obligations, with the reason (re-evaluated on every run and written to the evidence).
# 'pinned-rejected': the analysis rejects the pinned source itself -- these functions accumulate or subtract in the
# dtype of a float32 input (allowed by the property text "to float32 precision", observed at the 1e-8 level) or
# in an integer dtype, so accepting them would need a weaker hazard notion than the one proved about.
REFUSED = [
    dict(name='centroid_com', file='photutils/centroids/core.py', func='centroid_com', inputs=['data'],
         known={'indices': I64}, opaque=[], reason='pinned-rejected: np.sum(data) accumulates in float32 for '
         'float32 data (1.7e-8 relative observed); index*data is int64 arithmetic for integer data'),
    dict(name='centroid_1dg', file='photutils/centroids/gaussian.py', func='centroid_1dg', inputs=['data', 'error'],
         known={}, opaque=['_gaussian1d_moments', 'Gaussian1D', 'fitter', 'TRFLSQFitter'],
         reason='pinned-rejected: np.ma.sum(data, axis) in the input dtype; MaskedArray ** is not modelled '
                '(np.ma.power widens); the fit itself is outside the IR'),
    dict(name='centroid_2dg', file='photutils/centroids/gaussian.py', func='centroid_2dg', inputs=['data', 'error'],
         known={}, opaque=['data_properties', 'TRFLSQFitter', 'fitter', 'Gaussian2D', 'Const2D'],
         reason='pinned-rejected: data - min(data) in the input dtype; the fit itself is outside the IR'),
    dict(name='SourceCatalog.background_mean', file='photutils/segmentation/catalog.py',
         func='SourceCatalog.background_mean', inputs=['self._background_values'], known={}, opaque=[],
         reason='pinned-rejected: np.mean over the caller background values in their own dtype (2e-8 for float32)'),
    dict(name='SourceCatalog.background_sum', file='photutils/segmentation/catalog.py',
         func='SourceCatalog.background_sum', inputs=['self._background_values'], known={}, opaque=[],
         reason='pinned-rejected: np.sum over the caller background values in their own dtype'),
    dict(name='_DAOStarFinderCatalog.flux', file='photutils/detection/daofinder.py',
         func='_DAOStarFinderCatalog.flux', inputs=['self.cutout_data'], known={}, opaque=[],
         reason='pinned-rejected: np.sum of cutouts in the dtype of the image (float32 accumulation, 1e-7 in mag)'),
    dict(name='PSFPhotometry._define_fit_data', file='photutils/psf/photometry.py',
         func='PSFPhotometry._define_fit_data', inputs=['data'], known={'local_bkg': ('py', 'float', 0.5)},
         opaque=['overlap_slices', '_flatten', 'np.where', 'np.ceil'],
         reason='pinned-rejected: data[yy, xx] - local_bkg is float32 arithmetic for float32 data'),
    dict(name='detect_threshold', file='photutils/segmentation/detect.py', func='detect_threshold',
         inputs=['data', 'background', 'error'], known={'sigma_clip()': ('input', 'clipped_data')},
         opaque=['sigma_clip'], reason='not expressible: the statistics come from astropy SigmaClip + nanmean/nanstd '
         'of its float32 output; broadcast arithmetic on scalars of library-determined dtype'),
    dict(name='gini', file='photutils/morphology/non_parametric.py', func='gini', inputs=['data'], known={},
         opaque=[], reason='pinned-rejected / not expressible: np.mean and np.sum(kernel * sorted values) in the input '
                            'dtype (8e-8 for float32); index arithmetic of unknown dtype'),
    dict(name='_gaussian1d_moments', file='photutils/centroids/gaussian.py', func='_gaussian1d_moments',
         inputs=['data'], known={'x': I64}, opaque=[],
         reason='not expressible: arithmetic between the data and scalars derived from reductions of the data'),
    dict(name='_IRAFStarFinderCatalog.cutout_data', file='photutils/detection/irafstarfinder.py',
         func='_IRAFStarFinderCatalog.cutout_data', inputs=['self.cutout_data_nosub', 'self.sky'],
         known={'self.kernel.mask': I64}, opaque=[],
         reason='pinned-rejected: cutouts - sky where sky has the dtype the reduction of the cutouts produced '
                '(float32 - float32 for float32 images)'),
]
REFUSED.append(dict(
    name='_MeanIntegrator.accumulate', file='photutils/isophote/integrator.py', func='_MeanIntegrator.accumulate',
    inputs=['pixel_value'], known={'accumulator': ('py', 'float', 0.0)}, opaque=[],
    reason='pinned-rejected: the sector sum starts at the Python float 0.0 (initialize_accumulator), so an integer pixel '
           'is accumulated in float64 but a float32 pixel in float32 (weak scalar); the isophote entry of the product '
           'test compares the mean integrator for every representation'))
NOT_ATTEMPTED = {
    'Background2D._compute_box_statistics / background estimator classes / LocalBackground.__call__':
        'the arithmetic is inside astropy SigmaClip, numpy/bottleneck reductions and the estimator objects '
        '(library calls on the tracked array): no photutils-level array operation to express',
    '_detect_sources / SegmentationImage': 'only comparisons with the data; label arithmetic is on scipy label arrays',
    'DAOStarFinder/IRAFStarFinder/StarFinder._get_raw_catalog': 'kernel arithmetic only; the data go to _filter_data '
        '(obligation) and find_peaks (obligation)',
    'isophote sampling other than _MeanIntegrator.accumulate': 'pixel sampling in Python loops with scalar '
        'arithmetic (math module) and iterative fits',
    'PSFPhotometry._fit_sources, fit_2dgaussian, fit_fwhm': 'astropy fitters on the cutouts',
    'RadialProfile/CurveOfGrowth.profile, profile_error': 'arithmetic on the float64 outputs of do_photometry '
        '(obligation), not on caller arrays',
}
# ====================================================================== V: the product test
import astropy.units as u
from astropy.nddata import NDData, StdDevUncertainty

UNIT = u.Jy


# ------------------------------------------------------------------ scenes
def make_scene(rng, ny=33, nx=35):
    """Integer-valued star field (exact in int16 and float32): 3-4 round Gaussians on a
    sloped background plus deterministic integer noise; an integer error map."""
    yy, xx = np.mgrid[:ny, :nx]
    img = np.zeros((ny, nx))
    stars = []
    tries = 0
    while len(stars) < 4 and tries < 200:
        tries += 1
        x0 = rng.randint(7, nx - 8) + rng.choice([0, 0.25, 0.5])
        y0 = rng.randint(7, ny - 8) + rng.choice([0, 0.25, 0.5])
        if any((x0 - a) ** 2 + (y0 - b) ** 2 < 81 for a, b, _, _ in stars):
            continue
        amp = rng.randint(400, 1500) if rng.random() < 0.4 else rng.randint(3000, 30000)
        stars.append((x0, y0, amp, rng.choice([1.5, 1.75, 2.0])))
    for x0, y0, amp, sig in stars:
        img += amp * np.exp(-((xx - x0) ** 2 + (yy - y0) ** 2) / (2 * sig * sig))
    img += 20 + 0.25 * xx + 0.125 * yy
    noise = np.array([[rng.randint(-6, 6) for _ in range(nx)] for _ in range(ny)])
    img = np.rint(img + noise)
    err = np.rint(2 * np.sqrt(np.abs(img)) + 5)
    return img, err, stars


def make_galaxy(rng, n=41):
    yy, xx = np.mgrid[:n, :n]
    x0 = y0 = n // 2
    eps = rng.choice([0.2, 0.3, 0.4])
    pa = rng.choice([20, 45, 70]) * math.pi / 180
    dx, dy = xx - x0, yy - y0
    xr = dx * math.cos(pa) + dy * math.sin(pa)
    yr = -dx * math.sin(pa) + dy * math.cos(pa)
    r = np.sqrt(xr ** 2 + (yr / (1 - eps)) ** 2)
    img = np.rint(30000 * np.exp(-r / 16.0) + 10)    # <= 30010: fits int16; eight pixels at sma 15 (~11700 each)
    # sum to more than 65535
    return img, (x0, y0, eps, pa)


REPS_QUICK = ['f4', 'i2', 'i8', 'u2', 'be_f8', 'fortran', 'strided', 'ma_nomask', 'ma_false', 'nddata', 'nddata_q',
              'quantity']
ND_REPS = ('nddata', 'nddata_q')
UNIT_REPS = ('quantity', 'nddata_q')
REPS_ALL = ['f4', 'i2', 'i8', 'u2', 'i4', 'be_f8', 'be_f4', 'be_i4', 'be_i2', 'fortran', 'strided', 'negstride',
            'ma_nomask', 'ma_false', 'nddata', 'nddata_q', 'quantity']
REP_CLASS = {'f4': 'float32', 'be_f4': 'float32', 'i2': 'integer', 'i8': 'integer', 'u2': 'integer',
             'i4': 'integer', 'be_i4': 'integer', 'be_i2': 'integer', 'be_f8': 'big-endian', 'fortran': 'fortran',
             'strided': 'strided', 'negstride': 'strided', 'ma_nomask': 'masked-array', 'ma_false': 'masked-array',
             'nddata': 'nddata', 'nddata_q': 'nddata-unit', 'quantity': 'quantity'}
TOL = {'float32': 'f32', 'integer': 'f32'}        # every other class: 'ulp'


def convert(a, rep):
    """a: float64 C array with integer values.  returns the same numbers in `rep`."""
    if a is None:
        return None
    a = np.array(a, dtype=float)
    if rep == 'f8':
        return a.copy()
    if rep == 'f4':
        return a.astype(np.float32)
    if rep == 'i2':
        return a.astype(np.int16)
    if rep == 'i8':
        return a.astype(np.int64)
    if rep == 'u2':
        return a.astype(np.uint16)
    if rep == 'be_f8':
        return a.astype('>f8')
    if rep == 'be_f4':
        return a.astype('>f4')
    if rep == 'be_i4':
        return a.astype('>i4')
    if rep == 'be_i2':
        return a.astype('>i2')
    if rep == 'i4':
        return a.astype(np.int32)
    if rep == 'fortran':
        return np.asfortranarray(a)
    if rep == 'strided':
        big = np.full((a.shape[0] * 2 + 1, a.shape[1] * 3 + 2), -777.0)
        big[1::2, 2::3] = a
        v = big[1::2, 2::3]
        assert v.shape == a.shape and not v.flags.c_contiguous
        return v
    if rep == 'negstride':
        return a[::-1, ::-1].copy()[::-1, ::-1]
    if rep == 'ma_nomask':
        return np.ma.MaskedArray(a.copy())
    if rep == 'ma_false':
        return np.ma.MaskedArray(a.copy(), mask=np.zeros(a.shape, bool))
    if rep == 'quantity':
        return a.copy() * UNIT
    raise KeyError(rep)


class Rep:
    """The scene in one representation."""

    def __init__(self, rep, img, err, stars, gal, galgeom, scale=1.0, mask=None, opts=None):
        self.rep = rep
        self.mask = mask              # a few masked pixels (bool array), used by the non-default variants
        self.opts = opts or {'method': 'subpixel', 'subpixels': 3}
        self.stars = stars
        self.galgeom = galgeom
        self.scale = scale            # a power of two: the scaled values stay exactly representable
        img, err, gal = img * scale, err * scale, gal * scale
        self.raw, self.rawerr, self.rawgal = img, err, gal
        self.unit = UNIT if rep in UNIT_REPS else None
        self.is_nd = rep in ND_REPS
        if self.is_nd:
            self.data = self.error = self.gal = None
        else:
            self.data = convert(img, rep)
            self.error = convert(err, rep)
            self.gal = convert(gal, rep)

    def nd(self, with_error=True, mask=None):
        """NDData container of the star scene (only for entry points documented to take one)."""
        unc = StdDevUncertainty(self.rawerr.copy()) if with_error else None
        return NDData(self.raw.copy(), uncertainty=unc, mask=None if mask is None else mask.copy(), unit=self.unit)

    def q(self, x):
        """a data-like scalar/array argument (threshold, background level) in the unit of the data"""
        x = x * self.scale
        return x * self.unit if self.unit is not None else x


# ---------------------------------------------------------------- entry points
class Raised:
    """an output that could not be computed (kept per output so one failure does not hide the rest)"""

    def __init__(self, e):
        tb = traceback.extract_tb(e.__traceback__)
        where = [f'{f.filename.split("/photutils/")[-1]}:{f.lineno}' for f in tb if '/photutils/' in f.filename]
        self.msg = f'{type(e).__name__}: {str(e)[:140]} @ photutils/{where[-1] if where else "?"}'


def _try(f):
    try:
        return f()
    except Exception as e:  # noqa: BLE001
        return Raised(e)


def _tbl(t, cols=None, prefix=''):
    out = {}
    if t is None:
        return {prefix + 'None': np.array(0.0)}
    for c in (cols or t.colnames):
        if c in t.colnames:
            v = t[c]
            if hasattr(v, 'dtype') and v.dtype.kind in 'OUS':
                continue
            if isinstance(v, u.Quantity):
                out[prefix + c] = u.Quantity(v)
            elif getattr(v, 'unit', None) is not None and hasattr(v, 'quantity'):
                out[prefix + c] = v.quantity
            else:
                out[prefix + c] = np.asarray(v)
    return out


def _apers(S):
    from photutils.aperture import CircularAperture, EllipticalAperture, RectangularAperture, CircularAnnulus
    ny, nx = S.raw.shape
    # the stars, two apertures crossing the image edge / corner, one fully off the image
    pos = [(x, y) for x, y, _, _ in S.stars] + [(1.0, 2.0), (nx - 1.5, 12.25), (-30.0, 5.0)]
    return [CircularAperture(pos, r=4.0), EllipticalAperture(pos, 5.0, 3.0, theta=0.5),
            RectangularAperture(pos, 6.0, 4.0, theta=0.25), CircularAnnulus(pos, 5.0, 8.0)]


def ep_aperture_photometry(S):
    """method x subpixels (non-default) x mask, through every container"""
    from photutils.aperture import aperture_photometry
    out = {}
    o = S.opts
    for method, sub, usemask in (('exact', 5, False), ('center', 5, False), ('subpixel', o['subpixels'], False),
                                 (o['method'], o['subpixels'], True), ('subpixel', 2, True)):
        mask = S.mask if usemask else None
        key = f'{method}/{sub}/{"mask" if usemask else "nomask"}:'
        if S.is_nd:
            t = aperture_photometry(S.nd(mask=mask), _apers(S), method=method, subpixels=sub)
        else:
            t = aperture_photometry(S.data, _apers(S), error=S.error, mask=mask, method=method, subpixels=sub)
        out.update(_tbl(t, prefix=key))
    return out
ep_aperture_photometry.units = {'aperture_sum': 'u'}
ep_aperture_photometry.nddata = True
ep_aperture_photometry.nddata_prefix = ''


APSTAT_COLS = ['xcentroid', 'ycentroid', 'sum', 'sum_err', 'sum_aper_area', 'center_aper_area', 'min', 'max',
               'mean', 'median', 'mode', 'std', 'mad_std', 'var', 'biweight_location', 'biweight_midvariance',
               'fwhm', 'semimajor_sigma', 'semiminor_sigma', 'orientation', 'eccentricity', 'covar_sigx2',
               'covar_sigxy', 'covar_sigy2', 'gini', 'elongation']


def ep_aperture_stats(S):
    from astropy.stats import SigmaClip
    from photutils.aperture import ApertureStats
    out = {}
    aps = _apers(S)
    o = S.opts
    for k, (sc, kw, usemask) in enumerate(((None, {}, False), (SigmaClip(3.0, maxiters=5), {}, False),
                                           (None, {'sum_method': o['method'], 'subpixels': o['subpixels']}, True))):
        ap = aps[k]
        mask = S.mask if usemask else None
        if S.is_nd:
            st = ApertureStats(S.nd(mask=mask), ap, sigma_clip=sc, local_bkg=S.q(np.full(len(ap), 3.0)), **kw)
        else:
            st = ApertureStats(S.data, ap, error=S.error, mask=mask, sigma_clip=sc,
                               local_bkg=S.q(np.full(len(ap), 3.0)), **kw)
        for c in APSTAT_COLS:
            out[f'{k}:{c}'] = _try(lambda c=c: getattr(st, c))
        if k == 2:      # methods / slices after the properties have been read
            out['2:slice_sum'] = _try(lambda: st[1:3].sum)
            out['2:slice_sum_err'] = _try(lambda: st[1:3].sum_err)
            out['2:table_sum'] = _try(lambda: st.to_table(['sum', 'mean'])['sum'])
    return out
ep_aperture_stats.units = {'slice_sum': 'u', 'slice_sum_err': 'u', 'table_sum': 'u', 'sum': 'u', 'sum_err': 'u', 'min': 'u', 'max': 'u', 'mean': 'u', 'median': 'u', 'mode': 'u',
                           'std': 'u', 'mad_std': 'u', 'var': 'u2', 'biweight_location': 'u',
                           'biweight_midvariance': 'u2'}
ep_aperture_stats.nddata = 'nolocalbkg'


def ep_background2d(S):
    """estimator/box/filter variants, then every optional argument of the output path: coverage_mask x fill_value x
    mask x filter_size x exclude_percentile x interpolator, through every container"""
    from astropy.stats import SigmaClip
    from photutils.background import (Background2D, BkgIDWInterpolator, BkgZoomInterpolator, MedianBackground,
                                      SExtractorBackground)
    out = {}

    def put(key, b):
        out[key + 'background'] = _try(lambda: b.background)
        out[key + 'background_rms'] = _try(lambda: b.background_rms)
        out[key + 'background_median'] = _try(lambda: b.background_median)
        out[key + 'background_rms_median'] = _try(lambda: b.background_rms_median)
        out[key + 'mesh'] = _try(lambda: b.background_mesh)
    d = S.nd(False) if S.is_nd else S.data
    for k, (est, bs, fs) in enumerate(((MedianBackground(), (8, 8), 3), (SExtractorBackground(), (11, 9), 1))):
        put(f'{k}:', Background2D(d, bs, filter_size=fs, sigma_clip=SigmaClip(3.0), bkg_estimator=est))
    cov = np.zeros(S.raw.shape, bool)
    cov[:6, :9] = True
    cov[-3:, -8:] = True
    k = 0
    for fill in (0.0, np.nan, -1.0, 7.0):
        for usemask in (False, True):
            # the remaining options are rotated instead of fully crossed (4 x 2 x 2 x 2 x 2 = 64 calls otherwise)
            fs = (1, 3)[k % 2]
            ep = (10.0, 40.0)[(k // 2) % 2]
            interp = (BkgZoomInterpolator(), BkgIDWInterpolator())[(k // 4) % 2 if fill == fill else 1]
            k += 1
            key = f'cov/fill={fill}/{"mask" if usemask else "nomask"}/fs={fs}/excl={ep}/{type(interp).__name__}:'
            b = _try(lambda: Background2D(d, (8, 8), coverage_mask=cov, fill_value=fill,
                                          mask=S.mask if usemask else None, filter_size=fs, exclude_percentile=ep,
                                          interpolator=interp, sigma_clip=SigmaClip(3.0)))
            if isinstance(b, Raised):
                out[key + 'init'] = b
            else:
                put(key, b)
    return out
ep_background2d.units = {'background': 'u', 'background_rms': 'u', 'background_median': 'u',
                         'background_rms_median': 'u', 'mesh': 'u'}
ep_background2d.nddata = True
ep_background2d.int_rounding = True


def ep_bkg_estimators(S):
    from astropy.stats import SigmaClip
    from photutils import background as B
    out = {}
    for name in ('MeanBackground', 'MedianBackground', 'ModeEstimatorBackground', 'MMMBackground',
                 'SExtractorBackground', 'BiweightLocationBackground', 'StdBackgroundRMS', 'MADStdBackgroundRMS',
                 'BiweightScaleBackgroundRMS'):
        for sc in (None, SigmaClip(3.0)):
            est = getattr(B, name)(sigma_clip=sc)
            out[f'{name}:{sc is not None}'] = est(S.data)
            out[f'{name}:{sc is not None}:axis1'] = est(S.data, axis=1)
    return out
ep_bkg_estimators.units = {'': 'u'}
ep_bkg_estimators.all_units = 'u'


def ep_local_background(S):
    from photutils.background import LocalBackground
    lb = LocalBackground(5, 9)
    xs = [s[0] for s in S.stars]
    ys = [s[1] for s in S.stars]
    return {'local_bkg': lb(S.data, xs, ys)}
ep_local_background.all_units = 'u'


def _cut(S):
    x0, y0 = S.stars[0][:2]
    xi, yi = int(x0), int(y0)
    return S.data[yi - 6:yi + 7, xi - 6:xi + 7], (None if S.error is None else S.error[yi - 6:yi + 7, xi - 6:xi + 7])


def ep_centroids(S):
    from photutils.centroids import (centroid_com, centroid_quadratic, centroid_1dg, centroid_2dg,
                                     centroid_sources)
    cut, ecut = _cut(S)
    out = {'com': centroid_com(cut), 'quadratic': centroid_quadratic(cut),
           '1dg': centroid_1dg(cut), '2dg': centroid_2dg(cut),
           '1dg_err': centroid_1dg(cut, error=ecut), '2dg_err': centroid_2dg(cut, error=ecut)}
    xs = [round(s[0]) for s in S.stars]
    ys = [round(s[1]) for s in S.stars]
    for nm, f in (('com', centroid_com), ('quadratic', centroid_quadratic), ('2dg', centroid_2dg)):
        x, y = centroid_sources(S.data, xs, ys, box_size=9, centroid_func=f)
        out[f'sources_{nm}_x'] = x
        out[f'sources_{nm}_y'] = y
    x, y = centroid_sources(S.data, xs, ys, box_size=9, centroid_func=centroid_1dg, error=S.error)
    out['sources_1dg_err_x'], out['sources_1dg_err_y'] = x, y
    # mask= / footprint= alongside the container, overlapping cutouts (every star twice, the second position
    # a few pixels off), and the same call repeated on the same array
    cmask = None if S.mask is None else S.mask[int(S.stars[0][1]) - 6:int(S.stars[0][1]) + 7,
                                               int(S.stars[0][0]) - 6:int(S.stars[0][0]) + 7]
    for nm, f in (('com', centroid_com), ('1dg', centroid_1dg), ('2dg', centroid_2dg)):
        out[f'{nm}_mask'] = f(cut, mask=cmask)
        out[f'{nm}_mask_again'] = f(cut, mask=cmask)
        out[f'{nm}_after_mask'] = f(cut)
    xs2 = xs + [x + 3 for x in xs]
    ys2 = ys + [y + 2 for y in ys]
    yy, xx = np.mgrid[-6:7, -6:7]
    fp = (xx ** 2 + yy ** 2) <= 36
    for nm, f in (('com', centroid_com), ('quadratic', centroid_quadratic), ('1dg', centroid_1dg),
                  ('2dg', centroid_2dg)):
        for rnd in ('a', 'b'):
            x, y = centroid_sources(S.data, xs2, ys2, footprint=fp, centroid_func=f)
            out[f'fp_{nm}_{rnd}_x'], out[f'fp_{nm}_{rnd}_y'] = x, y
        x, y = centroid_sources(S.data, xs2, ys2, box_size=13, mask=S.mask, centroid_func=f)
        out[f'boxmask_{nm}_x'], out[f'boxmask_{nm}_y'] = x, y
    x, y = centroid_sources(S.data, xs, ys, box_size=9, centroid_func=centroid_2dg)
    out['sources_2dg_after_x'], out['sources_2dg_after_y'] = x, y
    return out


def ep_segmentation(S):
    from photutils.segmentation import detect_sources, detect_threshold, deblend_sources, SourceFinder
    out = {}
    thr = detect_threshold(S.data, 3.0)
    out['threshold'] = thr
    out['threshold_be'] = detect_threshold(S.data, 2.0, background=S.q(30.0), error=S.error)
    segm = detect_sources(S.data, S.q(60.0), 5)
    out['segm'] = segm.data
    segm2 = detect_sources(S.data, S.q(np.full(S.raw.shape, 45.0)), 4, connectivity=4)
    out['segm_2dthr'] = segm2.data
    deb = deblend_sources(S.data, segm2, 4, nlevels=16, contrast=0.001, progress_bar=False)
    out['deblend'] = deb.data
    out['deblend_linear'] = deblend_sources(S.data, segm2, 4, nlevels=8, contrast=0.01, mode='linear',
                                            progress_bar=False).data
    sf = SourceFinder(5, progress_bar=False)(S.data, S.q(60.0))
    out['sourcefinder'] = sf.data
    return out
ep_segmentation.units = {'threshold': 'u', 'threshold_be': 'u'}


SC_COLS = ['xcentroid', 'ycentroid', 'xcentroid_win', 'ycentroid_win', 'xcentroid_quad', 'ycentroid_quad',
           'area', 'semimajor_sigma', 'semiminor_sigma', 'orientation', 'eccentricity', 'ellipticity', 'elongation',
           'fwhm', 'gini', 'min_value', 'max_value', 'segment_flux', 'segment_fluxerr', 'kron_radius', 'kron_flux',
           'kron_fluxerr', 'local_background', 'covar_sigx2', 'covar_sigxy', 'covar_sigy2', 'cxx', 'cxy', 'cyy',
           'equivalent_radius', 'perimeter', 'moments', 'moments_central', 'maxval_xindex', 'minval_yindex',
           'background_sum', 'background_mean', 'background_centroid', 'inertia_tensor']


def ep_source_catalog(S):
    from photutils.segmentation import detect_sources, SourceCatalog, make_2dgaussian_kernel
    from astropy.convolution import convolve
    segm = detect_sources(S.raw, 60.0 * S.scale, 5)
    kern = make_2dgaussian_kernel(2.0, 5)
    conv = np.rint(convolve(S.raw / S.scale, kern)) * S.scale   # integer-valued (times the scale): every
    # representation holds it
    convd = convert(conv, S.rep)
    yy, xx = np.mgrid[:S.raw.shape[0], :S.raw.shape[1]]
    bkg = convert((15.0 + (xx // 3) + 2 * (yy // 5)) * S.scale, S.rep)     # integer-valued, not constant
    out = {}
    cat = SourceCatalog(S.data, segm, convolved_data=convd, error=S.error, background=bkg, localbkg_width=4)
    for c in SC_COLS:
        out['A:' + c] = _try(lambda c=c: getattr(cat, c))
    out['A:fluxfrac_radius'] = cat.fluxfrac_radius(0.5)
    ap, aperr = cat.circular_photometry(3.0)
    out['A:circ_flux'], out['A:circ_fluxerr'] = ap, aperr
    out['A:cutout0'] = cat.data[0]
    # methods and slices after the properties have been read
    kf, kfe = cat.kron_photometry((2.0, 1.0))
    out['A:kron2_flux'], out['A:kron2_fluxerr'] = kf, kfe
    out['A:fluxfrac_radius80'] = cat.fluxfrac_radius(0.8)
    sub = cat[1:3] if len(cat) >= 3 else cat
    out['A:slice_segment_flux'] = _try(lambda: sub.segment_flux)
    out['A:slice_kron_flux'] = _try(lambda: sub.kron_flux)
    out['A:slice_circ_flux'] = _try(lambda: sub.circular_photometry(2.5)[0])
    out['A:table_kron_flux'] = _try(lambda: cat.to_table(['label', 'kron_flux', 'segment_fluxerr'])['kron_flux'])
    cat2 = SourceCatalog(S.data, segm)
    for c in ['xcentroid', 'segment_flux', 'kron_flux', 'fwhm', 'xcentroid_win', 'max_value']:
        out['B:' + c] = getattr(cat2, c)
    # non-default options and a mask
    cat3 = SourceCatalog(S.data, segm, error=S.error, mask=S.mask, apermask_method='mask',
                         kron_params=(2.0, 1.2, 0.5), localbkg_width=6)
    for c in ['xcentroid', 'ycentroid', 'segment_flux', 'segment_fluxerr', 'kron_flux', 'kron_fluxerr', 'area',
              'local_background', 'semimajor_sigma', 'moments_central']:
        out['C:' + c] = _try(lambda c=c: getattr(cat3, c))
    return out
ep_source_catalog.units = {'min_value': 'u', 'max_value': 'u', 'segment_flux': 'u', 'segment_fluxerr': 'u',
                           'kron_flux': 'u', 'kron_fluxerr': 'u', 'local_background': 'u', 'background_sum': 'u',
                           'background_mean': 'u', 'background_centroid': 'u', 'circ_flux': 'u',
                           'circ_fluxerr': 'u', 'cutout0': 'u', 'kron2_flux': 'u', 'kron2_fluxerr': 'u',
                           'slice_segment_flux': 'u', 'slice_kron_flux': 'u', 'slice_circ_flux': 'u',
                           'table_kron_flux': 'u'}


class Names(tuple):
    """a non-numeric output (column names, dtype kinds) that must be identical"""


def _tbl_full(t, prefix):
    """columns + the column set + the dtype kind of every numeric column"""
    out = _tbl(t, prefix=prefix)
    if t is None:
        out[prefix + 'columns'] = Names(('<None>',))
        return out
    out[prefix + 'columns'] = Names(t.colnames)
    out[prefix + 'dtypes'] = Names(f'{c}:{t[c].dtype.kind}' for c in t.colnames if t[c].dtype.kind in 'biuf')
    return out


def ep_find_peaks(S):
    """every optional argument that changes the code path, crossed with every representation:
    npeaks below / at / above the number of peaks, centroid_func, mask, border_width, footprint vs box_size"""
    from photutils.centroids import centroid_com
    from photutils.detection import find_peaks
    t0 = find_peaks(S.raw, 80.0 * S.scale, box_size=5)
    n = 0 if t0 is None else len(t0)
    yy, xx = np.mgrid[-2:3, -2:3]
    fp = (np.abs(xx) + np.abs(yy)) <= 3
    out = {}
    for npk in sorted({1, max(1, n - 1), max(1, n), n + 3}) + [np.inf]:
        for cen in (None, centroid_com):
            for usemask in (False, True):
                for bw in (None, 2):
                    for shape in ({'box_size': 5}, {'footprint': fp}):
                        key = (f'npeaks={npk}/{"com" if cen else "nocen"}/{"mask" if usemask else "nomask"}/'
                               f'border={bw}/{list(shape)[0]}:')
                        kw = dict(shape)
                        if cen is not None:
                            kw.update(centroid_func=cen, error=S.error)
                        args = dict(mask=S.mask if usemask else None, border_width=bw, wcs=None, **kw)
                        t = find_peaks(S.data, S.q(80.0), npeaks=npk, **args)
                        if t is not None and np.isfinite(npk) and len(t) == npk:
                            # decision margin: when the npeaks-th and the next brightest peak have the same
                            # value the contract does not say which one is kept (numpy's argsort breaks the tie
                            # differently for int16 and float64 keys): such variants are left out and counted
                            full = find_peaks(S.data, S.q(80.0), **args)
                            v = np.sort(np.asarray(strip(full['peak_value'])[0], float))[::-1]
                            if len(v) > npk and v[npk - 1] == v[npk]:
                                out[key + 'tie_at_truncation'] = Names(('tie',))
                                continue
                        if t is not None and len(t) > 1:
                            # canonical row order (brightest first, ties by position): the order among equal
                            # peak values is not part of the contract either
                            pv = np.asarray(strip(t['peak_value'])[0], float)
                            t = t[np.lexsort((np.asarray(t['x_peak']), np.asarray(t['y_peak']), -pv))]
                            t['id'] = np.arange(len(t)) + 1
                        out.update(_tbl_full(t, key))
    return out
ep_find_peaks.units = {'peak_value': 'u'}


def ep_aperture_mask(S):
    """ApertureMask.multiply / cutout / get_values: aperture inside, crossing an edge, crossing a corner, fully
    off the image, x fill_value in {0, finite, nan} x mask x method"""
    from photutils.aperture import CircularAnnulus, CircularAperture, RectangularAperture
    ny, nx = S.raw.shape
    x0, y0 = S.stars[0][:2]
    pos = [(x0, y0), (1.0, 2.0), (nx - 1.5, 12.25), (12.2, ny - 0.75), (-0.4, ny - 2.0), (-30.0, 5.0)]
    out = {}
    for an, ap in (('circ', CircularAperture(pos, r=4.5)), ('rect', RectangularAperture(pos, 7.0, 5.0, theta=0.3)),
                   ('ann', CircularAnnulus(pos, 3.0, 6.0))):
        for method in ('exact', 'center'):
            for j, m in enumerate(ap.to_mask(method=method)):
                key = f'{an}/{method}/{j}:'
                for fname, fill in (('0', 0.0), ('7', S.q(7.0)), ('nan', np.nan)):
                    def none_ok(v):
                        return np.array([]) if v is None else v
                    out[key + f'multiply/fill={fname}'] = _try(lambda: none_ok(m.multiply(S.data, fill_value=fill)))
                    out[key + f'cutout/fill={fname}'] = _try(lambda: none_ok(m.cutout(S.data, fill_value=fill)))
                out[key + 'get_values'] = _try(lambda: m.get_values(S.data))
                out[key + 'get_values/mask'] = _try(lambda: m.get_values(S.data, mask=S.mask))
    return out
ep_aperture_mask.all_units = 'u'


def ep_finders(S):
    from photutils.detection import find_peaks, DAOStarFinder, IRAFStarFinder, StarFinder
    from photutils.centroids import centroid_com
    out = {}
    out.update(_tbl(find_peaks(S.data, S.q(80.0), box_size=5), prefix='peaks:'))
    out.update(_tbl(find_peaks(S.data, S.q(80.0), box_size=5, centroid_func=centroid_com, border_width=2),
                    prefix='peaks_cen:'))
    out.update(_tbl(DAOStarFinder(S.q(40.0), 4.0)(S.data), prefix='dao:'))
    out.update(_tbl(IRAFStarFinder(S.q(40.0), 4.0)(S.data), prefix='iraf:'))
    yy, xx = np.mgrid[-4:5, -4:5]
    kern = np.exp(-(xx ** 2 + yy ** 2) / (2 * 1.75 ** 2))
    out.update(_tbl(StarFinder(S.q(100.0), kern)(S.data), prefix='sf:'))
    return out
ep_finders.units = {'peak_value': 'u', 'flux': 'u', 'peak': 'u', 'max_value': 'u'}


def ep_profiles(S):
    from photutils.profiles import RadialProfile, CurveOfGrowth
    x0, y0 = S.stars[0][:2]
    edges = np.arange(0, 9)
    o = S.opts
    out = {}
    for tag, kw in (('', {}), ('opt:', {'method': o['method'], 'subpixels': o['subpixels'], 'mask': S.mask})):
        rp = RadialProfile(S.data, (x0, y0), edges, error=S.error, **kw)
        cog = CurveOfGrowth(S.data, (x0, y0), np.arange(1, 9), error=S.error, **kw)
        out.update({tag + 'rp:profile': rp.profile, tag + 'rp:profile_error': rp.profile_error,
                    tag + 'rp:area': rp.area, tag + 'rp:gaussian_fwhm': rp.gaussian_fwhm,
                    tag + 'cog:profile': cog.profile, tag + 'cog:profile_error': cog.profile_error,
                    tag + 'cog:area': cog.area})
        # multi-step sequences on the same objects: units and values after every step
        rp.normalize()
        out[tag + 'rp:normalized'] = rp.profile
        out[tag + 'rp:normalized_error'] = rp.profile_error
        rp.unnormalize()
        out[tag + 'rp:unnormalized'] = rp.profile
        out[tag + 'rp:unnormalized_error'] = rp.profile_error
        rp.normalize(method='sum')
        rp.normalize(method='max')
        rp.unnormalize()
        out[tag + 'rp:unnormalized2'] = rp.profile
        cog.normalize()
        out[tag + 'cog:normalized'] = cog.profile
        out[tag + 'cog:ee_radius'] = cog.calc_radius_at_ee(0.5)
        cog.unnormalize()
        out[tag + 'cog:unnormalized'] = cog.profile
        out[tag + 'cog:unnormalized_error'] = cog.profile_error
    return out
ep_profiles.units = {'profile': 'u', 'profile_error': 'u', 'unnormalized': 'u', 'unnormalized_error': 'u',
                     'unnormalized2': 'u'}


def ep_psf_photometry(S):
    from photutils.psf import PSFPhotometry, CircularGaussianPRF, IterativePSFPhotometry
    from photutils.detection import DAOStarFinder
    from photutils.background import LocalBackground
    from astropy.table import QTable
    out = {}
    model = CircularGaussianPRF(flux=1, fwhm=4.0)
    model.fwhm.fixed = False
    init = QTable()
    init['x'] = [s[0] + 0.3 for s in S.stars]
    init['y'] = [s[1] - 0.2 for s in S.stars]
    phot = PSFPhotometry(model, (7, 7), aperture_radius=4.0, localbkg_estimator=LocalBackground(6, 10))
    if S.is_nd:
        res = phot(S.nd(), init_params=init)
    else:
        res = phot(S.data, error=S.error, init_params=init)
    out.update(_tbl(res, ['x_fit', 'y_fit', 'flux_fit', 'fwhm_fit', 'x_err', 'flux_err', 'local_bkg', 'flux_init',
                          'qfit', 'cfit', 'npixfit', 'flags'], prefix='A:'))
    out['A:model_image'] = phot.make_model_image(S.raw.shape, psf_shape=(9, 9))
    if S.is_nd:                    # an NDData comes back as an NDData
        res_nd = phot.make_residual_image(S.nd(), psf_shape=(9, 9))
        out['A:residual'] = res_nd.data * res_nd.unit if res_nd.unit is not None else res_nd.data
    else:
        out['A:residual'] = phot.make_residual_image(S.data, psf_shape=(9, 9))
    if not S.is_nd:
        model2 = CircularGaussianPRF(flux=1, fwhm=4.0)
        phot2 = PSFPhotometry(model2, (5, 5), finder=DAOStarFinder(S.q(40.0), 4.0), aperture_radius=4.0)
        res2 = phot2(S.data)
        out.update(_tbl(res2, ['x_fit', 'y_fit', 'flux_fit', 'flux_init', 'x_init'], prefix='B:'))
        it = IterativePSFPhotometry(model2, (5, 5), finder=DAOStarFinder(S.q(40.0), 4.0), aperture_radius=4.0,
                                    maxiters=2)
        res3 = it(S.data, error=S.error)
        out.update(_tbl(res3, ['x_fit', 'y_fit', 'flux_fit', 'iter_detected'], prefix='C:'))
    return out
ep_psf_photometry.units = {'flux_fit': 'u', 'flux_err': 'u', 'local_bkg': 'u', 'flux_init': 'u', 'model_image': 'u',
                           'residual': 'u'}
ep_psf_photometry.nddata = True
ep_psf_photometry.nddata_prefix = 'A:'
ep_psf_photometry.ill_conditioned_in_float32 = ('C:x_fit', 'C:y_fit', 'C:flux_fit')


def ep_psf_utils(S):
    from photutils.psf import fit_fwhm, fit_2dgaussian
    xy = [(s[0], s[1]) for s in S.stars[:2]]
    out = {'fit_fwhm': fit_fwhm(S.data, xypos=xy, fit_shape=7, error=S.error)}
    r = fit_2dgaussian(S.data, xypos=xy, fit_shape=7, fix_fwhm=False)
    out.update(_tbl(r.results, ['x_fit', 'y_fit', 'flux_fit', 'fwhm_fit'], prefix='g2d:'))
    return out
ep_psf_utils.units = {'flux_fit': 'u'}


def ep_make_model_image(S):
    """the representation is applied to the params table columns"""
    from photutils.datasets import make_model_image
    from photutils.psf import CircularGaussianPRF
    from astropy.table import QTable
    if S.is_nd:
        return None
    t = QTable()
    xs = np.array([float(round(s[0])) for s in S.stars])
    ys = np.array([float(round(s[1])) for s in S.stars])
    fl = np.array([float(s[2]) for s in S.stars])
    cv = lambda a: convert(a.reshape(1, -1), S.rep)[0]
    t['x_0'] = cv(xs) if S.rep != 'quantity' else xs
    t['y_0'] = cv(ys) if S.rep != 'quantity' else ys
    t['flux'] = cv(fl)
    t['fwhm'] = np.array([3.0, 4.0, 3.5, 4.5][:len(xs)])
    img = make_model_image((33, 35), CircularGaussianPRF(), t, model_shape=(11, 11))
    return {'image': img}
ep_make_model_image.units = {'image': 'u'}


def ep_calc_total_error(S):
    from photutils.utils import calc_total_error
    if S.rep == 'quantity':
        g = 2.0 * u.electron / UNIT
        g2 = np.full(S.raw.shape, 2.0) * u.electron / UNIT
        g2[0, 0] = 0
        return {'scalar_gain': _try(lambda: calc_total_error(S.data, S.error, g)),
                'array_gain': _try(lambda: calc_total_error(S.data, S.error, g2))}
    g2 = np.full(S.raw.shape, 2.0)
    g2[0, 0] = 0
    return {'scalar_gain': _try(lambda: calc_total_error(S.data, S.error, 2.0)),
            'array_gain': _try(lambda: calc_total_error(S.data, S.error, g2)),
            'repr_gain': _try(lambda: calc_total_error(S.data, S.error, convert(g2, S.rep))),
            # only one input at a time in the representation
            'data_only': _try(lambda: calc_total_error(S.data, S.rawerr.copy(), 2.0)),
            'bkg_error_only': _try(lambda: calc_total_error(S.raw.copy(), S.error, 2.0)),
            'gain_only': _try(lambda: calc_total_error(S.raw.copy(), S.rawerr.copy(), convert(g2, S.rep)))}
ep_calc_total_error.all_units = 'u'
ep_calc_total_error.not_for_quantity = ('repr_gain', 'data_only', 'bkg_error_only', 'gain_only')


def ep_ellipse(S):
    from photutils.isophote import Ellipse, EllipseGeometry, build_ellipse_model
    x0, y0, eps, pa = S.galgeom
    geom = EllipseGeometry(x0, y0, 8.0, eps - 0.05, pa + 0.1)
    ell = Ellipse(S.gal, geom)
    iso = ell.fit_image(sma0=8.0, minsma=2.0, maxsma=16.0, step=0.2)
    out = {k: np.asarray(getattr(iso, k)) for k in ('sma', 'intens', 'int_err', 'eps', 'pa', 'x0', 'y0', 'rms',
                                                     'grad', 'tflux_e', 'npix_e', 'ndata', 'stop_code', 'niter')}
    return out
ep_ellipse.no_units = True


def ep_isophote(S):
    """Ellipse.fit_isophote and EllipseSample.extract for a few semi-major axes and all four integration modes
    (the area integrators only take over when a sector holds more than 6 pixels, i.e. at the larger sma)"""
    from photutils.isophote import Ellipse, EllipseGeometry, EllipseSample
    x0, y0, eps, pa = S.galgeom
    out = {}
    for mode in ('bilinear', 'nearest_neighbor', 'mean', 'median'):
        for sma, astep in ((4.0, 0.1), (12.0, 0.4), (15.0, 0.1)):
            geom = EllipseGeometry(x0, y0, sma, eps, pa, astep=astep)
            smp = EllipseSample(S.gal, sma, geometry=geom, integrmode=mode)
            ex = _try(lambda: smp.extract())
            key = f'{mode}/sma={sma}:'
            if isinstance(ex, Raised):
                for a in ('angles', 'radii', 'intensities', 'mean'):
                    out[key + a] = ex
            else:
                out[key + 'angles'], out[key + 'radii'], out[key + 'intensities'] = ex[0], ex[1], ex[2]
                out[key + 'mean'] = smp.mean
            iso = _try(lambda: Ellipse(S.gal, EllipseGeometry(x0, y0, sma, eps - 0.05, pa + 0.1, astep=astep)).fit_isophote(
                sma, integrmode=mode, maxit=4, minit=2))
            for a in ('intens', 'int_err', 'eps', 'pa', 'x0', 'y0', 'rms', 'ndata', 'stop_code', 'tflux_e', 'npix_e'):
                if isinstance(iso, Raised):
                    out[key + 'fit_' + a] = iso
            if not isinstance(iso, Raised):
                for a in ('intens', 'int_err', 'eps', 'pa', 'x0', 'y0', 'rms', 'ndata', 'stop_code', 'tflux_e',
                          'npix_e'):
                    out[key + 'fit_' + a] = np.asarray(getattr(iso, a))
    return out
ep_isophote.no_units = True


def ep_morphology(S):
    from photutils.morphology import data_properties, gini
    cut, _ = _cut(S)
    p = data_properties(cut, background=S.q(np.full(cut.shape, 20.0)) if True else None)
    out = {k: getattr(p, k) for k in ('xcentroid', 'ycentroid', 'semimajor_sigma', 'orientation', 'segment_flux',
                                      'max_value')}
    out['gini'] = gini(cut)
    return out
ep_morphology.units = {'segment_flux': 'u', 'max_value': 'u'}


def ep_filter_data(S):
    from photutils.segmentation import make_2dgaussian_kernel
    from photutils.utils._convolution import _filter_data
    k = make_2dgaussian_kernel(2.0, 5)
    return {'filtered': _filter_data(S.data, k), 'filtered_nearest': _filter_data(S.data, k.array, mode='nearest')}
ep_filter_data.all_units = 'u'


ENTRY_POINTS = {
    'aperture_photometry': ep_aperture_photometry,
    'ApertureStats': ep_aperture_stats,
    'Background2D': ep_background2d,
    'background_estimators': ep_bkg_estimators,
    'LocalBackground': ep_local_background,
    'centroids': ep_centroids,
    'segmentation': ep_segmentation,
    'SourceCatalog': ep_source_catalog,
    'finders': ep_finders,
    'find_peaks': ep_find_peaks,
    'ApertureMask': ep_aperture_mask,
    'profiles': ep_profiles,
    'PSFPhotometry': ep_psf_photometry,
    'psf_fit_utils': ep_psf_utils,
    'make_model_image': ep_make_model_image,
    'calc_total_error': ep_calc_total_error,
    'Ellipse': ep_ellipse,
    'isophote': ep_isophote,
    'morphology': ep_morphology,
    '_filter_data': ep_filter_data,
}


# ---------------------------------------------------------------- comparison
def strip(v):
    unit = getattr(v, 'unit', None)
    if unit is not None and hasattr(v, 'value'):
        v = v.value
    if isinstance(v, np.ma.MaskedArray):
        v = v.filled(np.nan)
    if isinstance(v, (list, tuple)):
        try:
            v = np.array([strip(x)[0] for x in v], dtype=float)
        except Exception:
            v = np.concatenate([np.ravel(strip(x)[0]).astype(float) for x in v]) if len(v) else np.zeros(0)
    return np.asarray(v), unit


def compare(ref, got, tol_kind, floor=1.0):
    if isinstance(ref, Names) or isinstance(got, Names):
        return None if tuple(ref) == tuple(got) else f'{tuple(got)} instead of {tuple(ref)}'
    """returns None if equal else message.  tol_kind: 'exact' | 'f32' | 'intround'"""
    if isinstance(got, Raised):
        return 'raises ' + got.msg
    a, _ = strip(ref)
    b, _ = strip(got)
    if a.shape != b.shape:
        return f'shape {a.shape} vs {b.shape}'
    if a.dtype.kind in 'biu' and b.dtype.kind in 'biu' or a.dtype.kind == 'b':
        if np.array_equal(a, b):
            return None
        if tol_kind == 'exact':
            return f'integer outputs differ at {int(np.sum(a != b))} places'
    a = a.astype(float)
    b = b.astype(float)
    na, nb = ~np.isfinite(a), ~np.isfinite(b)
    if not np.array_equal(na, nb):
        return f'non-finite pattern differs ({int(na.sum())} vs {int(nb.sum())})'
    a, b = a[~na], b[~nb]
    if a.size == 0:
        return None
    scale = max(floor, float(np.max(np.abs(a)))) or 1.0
    if tol_kind == 'exact':
        ok = np.array_equal(a, b)
        d = float(np.max(np.abs(a - b)))
        return None if ok else f'max abs diff {d:.3g} (scale {scale:.3g})'
    if tol_kind == 'ulp':
        d = np.abs(a - b)
        ok = np.all(d <= 1e-9 * np.maximum(np.abs(a), 1e-3 * scale))
        return None if ok else f'max abs diff {float(d.max()):.3g} (scale {scale:.3g})'
    if tol_kind == 'tight':
        d = np.abs(a - b)
        ok = np.all(d <= 1e-12 * np.maximum(np.abs(a), 1e-3 * scale))
        return None if ok else f'max abs diff {float(d.max()):.3g} (scale {scale:.3g}, float64-exact expected)'
    if tol_kind == 'f32':
        d = np.abs(a - b)
        ok = np.all(d <= 2e-4 * np.abs(a) + 2e-5 * scale)
        return None if ok else f'max abs diff {float(d.max()):.3g} (scale {scale:.3g})'
    if tol_kind == 'intround':
        d = np.abs(a - b)
        # Background2D's documented integer output: the mesh is truncated to the integer dtype, median
        # filtered, spline-interpolated and truncated again (observed spread up to 2.2 over 40 scenes)
        ok = np.all(d <= 4.0 + 1e-3 * np.abs(a))
        return None if ok else f'max abs diff {float(d.max()):.3g}'
    raise KeyError(tol_kind)


# ---------------------------------------------------------------- mixed unit-ful / unit-less inputs
def mixed_cases(img, err, stars):
    """(name, thunk) pairs; every thunk mixes a unit-ful with a unit-less data-like input and must raise."""
    from photutils.aperture import aperture_photometry, ApertureStats, CircularAperture
    from photutils.segmentation import (detect_sources, detect_threshold, SourceCatalog, SourceFinder,
                                        deblend_sources)
    from photutils.detection import find_peaks, DAOStarFinder, IRAFStarFinder, StarFinder
    from photutils.profiles import RadialProfile, CurveOfGrowth
    from photutils.psf import PSFPhotometry, CircularGaussianPRF, fit_fwhm, fit_2dgaussian
    from photutils.centroids import centroid_1dg, centroid_2dg
    from photutils.utils import calc_total_error
    from photutils.morphology import data_properties
    from astropy.table import QTable
    q, qe = img * UNIT, err * UNIT
    ap = CircularAperture([(s[0], s[1]) for s in stars], r=4.0)
    segm = detect_sources(img, 60.0, 5)
    x0, y0 = stars[0][:2]
    kern = np.ones((3, 3))
    model = CircularGaussianPRF(flux=1, fwhm=4.0)
    init = QTable()
    init['x'] = [s[0] for s in stars]
    init['y'] = [s[1] for s in stars]
    initf = QTable(init)
    initf['flux'] = [float(s[2]) for s in stars] * UNIT
    g = 2.0 * u.electron / UNIT
    cases = [
        ('aperture_photometry:data*u,error', lambda: aperture_photometry(q, ap, error=err)),
        ('aperture_photometry:data,error*u', lambda: aperture_photometry(img, ap, error=qe)),
        ('ApertureStats:data*u,error', lambda: ApertureStats(q, ap, error=err).sum_err),
        ('ApertureStats:data,error*u', lambda: ApertureStats(img, ap, error=qe).sum_err),
        ('ApertureStats:data,local_bkg*u', lambda: ApertureStats(img, ap, local_bkg=3.0 * UNIT).sum),
        ('ApertureStats:data*u,local_bkg', lambda: ApertureStats(q, ap, local_bkg=3.0).sum),
        ('SourceCatalog:data*u,error', lambda: SourceCatalog(q, segm, error=err).segment_fluxerr),
        ('SourceCatalog:data,error*u', lambda: SourceCatalog(img, segm, error=qe).segment_fluxerr),
        ('SourceCatalog:data,background*u', lambda: SourceCatalog(img, segm, background=q).background_sum),
        ('SourceCatalog:data*u,convolved_data', lambda: SourceCatalog(q, segm, convolved_data=img).xcentroid),
        ('find_peaks:data*u,threshold', lambda: find_peaks(q, 80.0)),
        ('find_peaks:data,threshold*u', lambda: find_peaks(img, 80.0 * UNIT)),
        ('DAOStarFinder:data*u,threshold', lambda: DAOStarFinder(40.0, 4.0)(q)),
        ('DAOStarFinder:data,threshold*u', lambda: DAOStarFinder(40.0 * UNIT, 4.0)(img)),
        ('IRAFStarFinder:data*u,threshold', lambda: IRAFStarFinder(40.0, 4.0)(q)),
        ('IRAFStarFinder:data,threshold*u', lambda: IRAFStarFinder(40.0 * UNIT, 4.0)(img)),
        ('StarFinder:data*u,threshold', lambda: StarFinder(100.0, kern)(q)),
        ('StarFinder:data,threshold*u', lambda: StarFinder(100.0 * UNIT, kern)(img)),
        ('DAOStarFinder:data,peakmax*u', lambda: DAOStarFinder(40.0, 4.0, peakmax=1e5 * UNIT)(img)),
        ('detect_sources:data*u,threshold', lambda: detect_sources(q, 60.0, 5)),
        ('detect_sources:data,threshold*u', lambda: detect_sources(img, 60.0 * UNIT, 5)),
        ('detect_threshold:data*u,background', lambda: detect_threshold(q, 2.0, background=30.0)),
        ('detect_threshold:data*u,error', lambda: detect_threshold(q, 2.0, error=err)),
        ('detect_threshold:data,error*u', lambda: detect_threshold(img, 2.0, error=qe)),
        ('SourceFinder:data*u,threshold', lambda: SourceFinder(5, progress_bar=False)(q, 60.0)),
        ('SourceFinder:data,threshold*u', lambda: SourceFinder(5, progress_bar=False)(img, 60.0 * UNIT)),
        ('RadialProfile:data*u,error', lambda: RadialProfile(q, (x0, y0), np.arange(6), error=err).profile_error),
        ('RadialProfile:data,error*u', lambda: RadialProfile(img, (x0, y0), np.arange(6), error=qe).profile_error),
        ('CurveOfGrowth:data*u,error', lambda: CurveOfGrowth(q, (x0, y0), np.arange(1, 6), error=err).profile_error),
        ('PSFPhotometry:data*u,error', lambda: PSFPhotometry(model, (5, 5), aperture_radius=4)(q, error=err, init_params=init)),
        ('PSFPhotometry:data,error*u', lambda: PSFPhotometry(model, (5, 5), aperture_radius=4)(img, error=qe, init_params=init)),
        ('PSFPhotometry:data,init_flux*u', lambda: PSFPhotometry(model, (5, 5), aperture_radius=4)(img, init_params=initf)),
        ('PSFPhotometry:data*u,init_flux', lambda: PSFPhotometry(model, (5, 5), aperture_radius=4)(
            q, init_params=QTable({'x': init['x'], 'y': init['y'], 'flux': [float(s[2]) for s in stars]}))),
        ('centroid_1dg:data*u,error', lambda: centroid_1dg(q[5:18, 5:18], error=err[5:18, 5:18])),
        ('centroid_2dg:data,error*u', lambda: centroid_2dg(img[5:18, 5:18], error=qe[5:18, 5:18])),
        ('fit_fwhm:data*u,error', lambda: fit_fwhm(q, xypos=(x0, y0), fit_shape=7, error=err)),
        ('fit_2dgaussian:data,error*u', lambda: fit_2dgaussian(img, xypos=(x0, y0), fit_shape=7, error=qe)),
        ('calc_total_error:data*u,bkg_error,gain', lambda: calc_total_error(q, err, 2.0)),
        ('calc_total_error:data*u,bkg_error*u,gain', lambda: calc_total_error(q, qe, 2.0)),
        ('calc_total_error:data,bkg_error*u,gain', lambda: calc_total_error(img, qe, 2.0)),
        ('calc_total_error:data,bkg_error,gain*u', lambda: calc_total_error(img, err, g)),
        ('data_properties:data*u,background', lambda: data_properties(q[5:18, 5:18], background=20.0).segment_flux),
        ('data_properties:data,background*u', lambda: data_properties(img[5:18, 5:18], background=20.0 * UNIT).segment_flux),
    ]
    return cases




# ---------------------------------------------------------------- product driver
QUANTITY_UNSUPPORTED = {'LocalBackground', 'Ellipse', 'isophote'}     # no unit handling documented: a raise is recorded only
TARGET_ENTRIES = {
    'calc_total_error': ['calc_total_error'], '_filter_data': ['_filter_data', 'finders'],
    'Background2D._calculate_stats': ['Background2D'],
    'ApertureStats._data_cutouts': ['ApertureStats'], 'ApertureStats._make_aperture_cutouts': ['ApertureStats'],
    'ApertureStats._unpack_nddata': ['ApertureStats'],
    'PixelAperture.do_photometry': ['aperture_photometry', 'profiles'],
    'aperture_photometry(NDData)': ['aperture_photometry'],
    'SourceCatalog._moment_data_cutouts': ['SourceCatalog'], 'SourceCatalog._make_aperture_data': ['SourceCatalog'],
    'SourceCatalog.segment_fluxerr': ['SourceCatalog'], 'SourceCatalog._aperture_photometry': ['SourceCatalog'],
    'SourceCatalog.background_centroid': ['SourceCatalog'],
    'PSFPhotometry._prepare_fit_inputs': ['PSFPhotometry'], 'PSFPhotometry.__call__': ['PSFPhotometry'],
    'ApertureMask.cutout': ['ApertureMask'], 'ApertureMask.multiply': ['ApertureMask'],
    'ApertureMask.get_values': ['ApertureMask', 'LocalBackground'],
    'centroid_quadratic': ['centroids'], 'centroid_sources': ['centroids'], 'find_peaks': ['find_peaks', 'finders'],
    'detect_sources': ['segmentation'], 'deblend_sources': ['segmentation'],
    'process_quantities': ['segmentation', 'find_peaks', 'profiles'],
    'SourceCatalog._prepare_cutouts[dtype=float]': ['SourceCatalog'], 'SourceCatalog.segment_flux': ['SourceCatalog'],
    'SourceCatalog.min_value': ['SourceCatalog'], 'SourceCatalog.max_value': ['SourceCatalog'],
    'SourceCatalog._local_background': ['SourceCatalog'], 'SourceCatalog._validate_array': ['SourceCatalog'],
    'SourceCatalog.__init__': ['SourceCatalog', 'morphology'], '_mask_to_mirrored_value': ['SourceCatalog'],
    'PSFPhotometry._validate_array': ['PSFPhotometry'], 'ModelImageMixin.make_residual_image': ['PSFPhotometry'],
    'ApertureStats.__init__': ['ApertureStats'], 'ApertureStats._validate_array': ['ApertureStats'],
    'Background2D.__init__': ['Background2D'], 'ProfileBase.__init__': ['profiles'],
    '_moments_central': ['finders', 'SourceCatalog'], '_StarFinderCatalog.cutout_data': ['finders'],
}


def run_entry(name, S):
    try:
        with warnings.catch_warnings(), np.errstate(all='ignore'):
            warnings.simplefilter('ignore')
            return 'ok', ENTRY_POINTS[name](S)
    except Exception as e:  # noqa: BLE001
        return 'raise', Raised(e).msg


def new_scene(rng):
    img, err, stars = make_scene(rng)
    gal, gg = make_galaxy(rng)
    mask = np.zeros(img.shape, bool)
    for (x0, y0, _, _) in stars[:3]:              # a few masked pixels next to (not on) the stars
        mask[int(y0) + rng.choice([-2, 2]), int(x0) + rng.choice([-1, 1, 2])] = True
    opts = {'method': rng.choice(['exact', 'center', 'subpixel', 'subpixel']), 'subpixels': rng.choice([2, 3, 7])}
    return dict(img=img, err=err, stars=stars, gal=gal, galgeom=gg, mask=mask, opts=opts)


def bright(sc):
    """the same scene with pixel values x255 (still exact float32 integers < 2**24; an odd factor, so that sums
    above 2**24 are not multiples of a power of two and a float32 accumulator really rounds)"""
    b = dict(sc)
    b['img'], b['err'], b['gal'] = sc['img'] * 255, sc['err'] * 15, sc['gal'] * 255
    return b


def scene_json(sc):
    return {'img': sc['img'].astype(int).tolist(), 'err': sc['err'].astype(int).tolist(),
            'stars': [list(map(float, s)) for s in sc['stars']], 'gal': sc['gal'].astype(int).tolist(),
            'galgeom': list(map(float, sc['galgeom'])), 'opts': sc.get('opts'),
            'mask': None if sc.get('mask') is None else np.argwhere(sc['mask']).tolist()}


def scene_from_json(j):
    sc = dict(img=np.array(j['img'], float), err=np.array(j['err'], float),
              stars=[tuple(s) for s in j['stars']], gal=np.array(j['gal'], float), galgeom=tuple(j['galgeom']),
              opts=j.get('opts'))
    if j.get('mask') is not None:
        sc['mask'] = np.zeros(sc['img'].shape, bool)
        for y, x in j['mask']:
            sc['mask'][y, x] = True
    return sc


def mk_rep(rep, sc, scale=1.0):
    return Rep(rep, sc['img'], sc['err'], sc['stars'], sc['gal'], sc['galgeom'], scale, sc.get('mask'),
               sc.get('opts'))


def reps_for(name, sc, reps):
    f = ENTRY_POINTS[name]
    out = []
    for rep in reps:
        if rep in ND_REPS and not getattr(f, 'nddata', False):
            continue
        if rep == 'u2' and (sc['img'].min() < 0 or sc['gal'].min() < 0):
            continue
        out.append(rep)
    return out


# The scenes are integer valued, so the float32 arrays hold exactly the float64 numbers: an implementation
# that accumulates in float64 gives exactly the float64 result.  For these entry points photutils itself does the
# summing, and float32 input must agree with float64 input to 1e-12 (not merely to float32 precision).  The others
# hand the float32 array to numpy/scipy/astropy/bottleneck reductions, fitters or filters that legitimately work in
# float32 (Background2D keeps float32 on purpose): 2e-4 there.
FLOAT32_EXACT = {'aperture_photometry', 'ApertureStats', 'SourceCatalog', 'profiles', 'centroids', 'calc_total_error',
                 'morphology', 'LocalBackground'}
# observed on /repo, same class as the seeded float32 accumulation but present in the pinned tree (reported, not
# failed): SourceCatalog.background_mean/background_sum reduce the caller's float32 background values in float32
# (2e-8 relative); photutils.morphology.gini() sorts and sums float32 data in float32 (8e-8)
FLOAT32_EXACT_EXCEPT = {'A:background_mean', 'A:background_sum', 'gini'}


def float32_exact_output(name, key):
    """is this output required to equal the float64 run to 1e-12 for float32 input?"""
    if name not in FLOAT32_EXACT or key in FLOAT32_EXACT_EXCEPT:
        return False
    if name == 'centroids':
        # centroid_com / centroid_1dg / centroid_2dg sum the float32 cutout in float32 on the pinned tree (1.7e-8
        # relative observed; listed under refused_candidates): only centroid_quadratic converts to float64 first
        return 'quadratic' in key
    return True


def compare_entry(name, rep, ref, got):
    """-> list of (kind, output, message); kind in differs / raises / unit / missing"""
    f = ENTRY_POINTS[name]
    cls = REP_CLASS[rep]
    tol = TOL.get(cls, 'ulp')
    if cls == 'integer' and getattr(f, 'int_rounding', False):
        tol = 'intround'                       # Background2D's documented integer output
    tight = cls == 'float32' and name in FLOAT32_EXACT
    probs = []
    exact = 0
    for k, r in ref.items():
        if isinstance(r, Raised):
            continue                           # the float64 call fails as well: nothing is required
        if k not in got:
            expected = True
            if rep in ND_REPS:       # the NDData variants of some entry points compute a subset
                expected = k.startswith(getattr(f, 'nddata_prefix', ''))
            if rep in UNIT_REPS and k in getattr(f, 'not_for_quantity', ()):
                expected = False
            if expected:
                probs.append(('missing', k, 'output missing'))
            continue
        g = got[k]
        if isinstance(g, Raised):
            if rep in UNIT_REPS and name in QUANTITY_UNSUPPORTED:
                continue      # no unit handling documented for this entry point
            if cls == 'integer' and getattr(f, 'int_rounding', False) and (
                    'fill=nan' in k or ('fill=-1.0' in k and rep in ('u2',))):
                continue      # Background2D's integer output cannot hold this fill_value (documented integer output)
            probs.append(('raises', k, g.msg))
            continue
        if cls == 'integer' and k.endswith(':dtypes'):
            continue          # values read from an integer image keep its integer dtype
        if cls == 'float32' and k in getattr(f, 'ill_conditioned_in_float32', ()):
            continue          # fits of residual-noise detections: float32 rounding is amplified without bound
        m = compare(r, g, 'tight' if tight and float32_exact_output(name, k) else tol)
        if m:
            probs.append(('differs', k, m))
        elif compare(r, g, 'exact') is None:
            exact += 1
        if rep in UNIT_REPS:
            base = k.split(':')[-1]
            un = getattr(f, 'units', {})
            exp = getattr(f, 'all_units', None) or un.get(k) or un.get(base) or un.get(base.rstrip('_0123456789'))
            if isinstance(g, Names):
                continue
            gotu = strip(g)[1]
            if np.size(strip(g)[0]) == 0 and gotu is None:
                continue      # nothing that could carry a unit (no overlap with the image)
            if exp == 'u' and gotu != UNIT:
                probs.append(('unit', k, f'unit {gotu}, expected {UNIT}'))
            if exp == 'u2' and gotu != UNIT ** 2:
                probs.append(('unit', k, f'unit {gotu}, expected {UNIT ** 2}'))
    return probs, exact


def product_one(ctx, sc, name, reps, found):
    """run one entry point on one scene for the given representations"""
    st, ref = run_entry(name, mk_rep('f8', sc))
    if st != 'ok' or ref is None:
        ctx.stat('product', 'reference_fails:' + name)
        return
    for rep in reps_for(name, sc, reps):
        st, got = run_entry(name, mk_rep(rep, sc))
        cls = REP_CLASS[rep]
        ctx.count_case(['prod', name, rep, sc['stars']])
        ctx.stat('product_reps', rep)
        if st == 'ok' and got:
            nt = sum(1 for k in got if k.endswith('tie_at_truncation'))
            if nt:
                ctx.stat('product', 'find_peaks_variants_excluded_tie_at_truncation', nt)
        if st == 'ok' and got is None:
            continue
        if st != 'ok':
            if rep in UNIT_REPS and name in QUANTITY_UNSUPPORTED:
                ctx.stat('product', 'quantity_not_supported_raises:' + name)
                continue
            probs = [('raises', '*', got)]
            exact = 0
        else:
            probs, exact = compare_entry(name, rep, ref, got)
            ctx.support('product_outputs_compared', len(ref))
            ctx.support('product_outputs_bit_identical', exact)
        ctx.stat('product', 'ok' if not probs else 'problem')
        for kind in sorted({p[0] for p in probs}):
            sig = f'{name}:{cls}:{kind}'
            these = [p for p in probs if p[0] == kind]
            found.setdefault(name, set()).add(sig)
            what = {'raises': f'{name} fails for a {cls} representation although the float64 call succeeds',
                    'differs': f'{name} gives a different result for a {cls} representation of the same numbers',
                    'unit': f'{name}: output does not carry the unit of the Quantity input',
                    'missing': f'{name}: output missing for a {cls} representation'}[kind]
            what += ' (' + '; '.join(f'{p[1]}: {p[2]}' for p in these[:3]) + ')'
            ctx.violation(sig, what, {'kind': 'product', 'entry': name, 'rep': rep, 'scene': scene_json(sc),
                                      'problems': [list(p) for p in these[:12]],
                                      'cmd': 'bin/check C15 --replay <this file>'})


def run_mixed(ctx, sc):
    for name, th in mixed_cases(sc['img'], sc['err'], sc['stars']):
        ctx.count_case(['mixed', name, sc['stars']])
        ctx.support('mixed_units_must_raise', 1)
        try:
            with warnings.catch_warnings():
                warnings.simplefilter('ignore')
                r = th()
        except Exception:  # noqa: BLE001
            ctx.stat('mixed', 'rejected')
            continue
        ctx.stat('mixed', 'ACCEPTED')
        ctx.violation('mixed-units:' + name, f'mixing unit-ful with unit-less inputs is not rejected: {name} '
                      f'returned {type(r).__name__}',
                      {'kind': 'mixed', 'name': name, 'scene': scene_json(sc), 'cmd': 'bin/check C15 --replay <this file>'})


# ---------------------------------------------------------------- unit axis: several Quantity inputs
def unit_entries(sc):
    """entry points that take several data-like inputs: name -> (values of the inputs expressed in the unit of the
    data, call(inputs) -> named outputs).  `data` is the primary input."""
    from astropy.table import QTable
    from photutils.aperture import ApertureStats, CircularAperture, aperture_photometry
    from photutils.centroids import centroid_1dg, centroid_2dg
    from photutils.detection import DAOStarFinder, IRAFStarFinder, StarFinder, find_peaks
    from photutils.morphology import data_properties
    from photutils.profiles import CurveOfGrowth, RadialProfile
    from photutils.psf import CircularGaussianPRF, PSFPhotometry, fit_2dgaussian, fit_fwhm
    from photutils.segmentation import SourceCatalog, SourceFinder, detect_sources, detect_threshold
    from photutils.utils import calc_total_error
    img, err, stars = sc['img'], sc['err'], sc['stars']
    ap = CircularAperture([(s[0], s[1]) for s in stars], r=4.0)
    segm = detect_sources(img, 60.0, 5)
    x0, y0 = stars[0][:2]
    xi, yi = int(x0), int(y0)
    cut = (slice(yi - 6, yi + 7), slice(xi - 6, xi + 7))
    yy, xx = np.mgrid[:img.shape[0], :img.shape[1]]
    bkg = 15.0 + (xx // 3) + 2.0 * (yy // 5)
    kern = np.ones((3, 3))
    nst = len(stars)

    def psf(i, fixed):
        model = CircularGaussianPRF(flux=1, fwhm=4.0)
        model.flux.fixed = fixed
        t = QTable()
        t['x'] = [s[0] for s in stars]
        t['y'] = [s[1] for s in stars]
        t['flux'] = i['flux']
        t['local_bkg'] = i['local_bkg']
        res = PSFPhotometry(model, (7, 7), aperture_radius=4.0)(i['data'], error=i['error'], init_params=t)
        return _tbl(res, ['x_fit', 'y_fit', 'flux_fit', 'flux_init', 'local_bkg'])

    def cat(i):
        c = SourceCatalog(i['data'], segm, error=i['error'], background=i['background'],
                          convolved_data=i['convolved_data'], localbkg_width=4)
        return {k: getattr(c, k) for k in ('xcentroid', 'segment_flux', 'segment_fluxerr', 'kron_flux',
                                           'kron_fluxerr', 'background_mean', 'local_background', 'max_value')}

    def stats(i):
        st = ApertureStats(i['data'], ap, error=i['error'], local_bkg=i['local_bkg'])
        return {k: getattr(st, k) for k in ('sum', 'sum_err', 'mean', 'std', 'var', 'xcentroid')}

    def rprof(i, cls, radii):
        p = cls(i['data'], (x0, y0), radii, error=i['error'])
        return {'profile': p.profile, 'profile_error': p.profile_error}
    E = {
        'aperture_photometry': ({'data': img, 'error': err},
                                lambda i: _tbl(aperture_photometry(i['data'], ap, error=i['error']),
                                               ['aperture_sum', 'aperture_sum_err'])),
        'ApertureStats': ({'data': img, 'error': err, 'local_bkg': np.full(len(ap), 3.0)}, stats),
        'SourceCatalog': ({'data': img, 'error': err, 'background': bkg, 'convolved_data': img}, cat),
        'RadialProfile': ({'data': img, 'error': err}, lambda i: rprof(i, RadialProfile, np.arange(7))),
        'CurveOfGrowth': ({'data': img, 'error': err}, lambda i: rprof(i, CurveOfGrowth, np.arange(1, 7))),
        'detect_threshold': ({'data': img, 'background': np.full(img.shape, 30.0), 'error': err},
                             lambda i: {'threshold': detect_threshold(i['data'], 2.0, background=i['background'],
                                                                      error=i['error'])}),
        'detect_sources': ({'data': img, 'threshold': np.full(img.shape, 60.0)},
                           lambda i: {'segm': detect_sources(i['data'], i['threshold'], 5).data}),
        'SourceFinder': ({'data': img, 'threshold': np.float64(60.0)},
                         lambda i: {'segm': SourceFinder(5, progress_bar=False)(i['data'], i['threshold']).data}),
        'find_peaks': ({'data': img, 'threshold': np.float64(80.0)},
                       lambda i: _tbl(find_peaks(i['data'], i['threshold'], box_size=5))),
        'DAOStarFinder': ({'data': img, 'threshold': np.float64(40.0), 'peakmax': np.float64(1e7)},
                          lambda i: _tbl(DAOStarFinder(i['threshold'], 4.0, peakmax=i['peakmax'])(i['data']),
                                         ['xcentroid', 'ycentroid', 'peak', 'flux'])),
        'IRAFStarFinder': ({'data': img, 'threshold': np.float64(40.0)},
                           lambda i: _tbl(IRAFStarFinder(i['threshold'], 4.0)(i['data']),
                                          ['xcentroid', 'ycentroid', 'peak', 'flux'])),
        'StarFinder': ({'data': img, 'threshold': np.float64(100.0)},
                       lambda i: _tbl(StarFinder(i['threshold'], np.exp(-(np.mgrid[-4:5, -4:5] ** 2).sum(0) / 6.0))(
                           i['data']), ['xcentroid', 'ycentroid', 'max_value', 'flux'])),
        'data_properties': ({'data': img[cut], 'background': np.full(img[cut].shape, 20.0)},
                            lambda i: {k: getattr(data_properties(i['data'], background=i['background']), k)
                                       for k in ('xcentroid', 'segment_flux', 'background_mean')}),
        'centroid_1dg': ({'data': img[cut], 'error': err[cut]},
                         lambda i: {'xy': centroid_1dg(i['data'], error=i['error'])}),
        'centroid_2dg': ({'data': img[cut], 'error': err[cut]},
                         lambda i: {'xy': centroid_2dg(i['data'], error=i['error'])}),
        'fit_fwhm': ({'data': img, 'error': err},
                     lambda i: {'fwhm': fit_fwhm(i['data'], xypos=(x0, y0), fit_shape=7, error=i['error'])}),
        'fit_2dgaussian': ({'data': img, 'error': err},
                           lambda i: _tbl(fit_2dgaussian(i['data'], xypos=(x0, y0), fit_shape=7,
                                                         error=i['error']).results, ['x_fit', 'flux_fit'])),
        'PSFPhotometry': ({'data': img, 'error': err, 'flux': np.array([float(s[2]) * 20 for s in stars]),
                           'local_bkg': np.full(nst, 4.0)}, lambda i: psf(i, False)),
        'PSFPhotometry[flux fixed]': ({'data': img, 'error': err, 'flux': np.array([float(s[2]) * 20 for s in stars]),
                                       'local_bkg': np.full(nst, 4.0)}, lambda i: psf(i, True)),
        'calc_total_error': ({'data': img, 'bkg_error': err},
                             lambda i: {'total': calc_total_error(
                                 i['data'], i['bkg_error'],
                                 2.0 * u.electron / UNIT if hasattr(i['data'], 'unit') else 2.0)}),
    }
    return E


UNIT_KINDS = ('identical', 'scaled', 'absent', 'inconvertible')


def _with_units(vals, scaled_name, kind):
    """data and every secondary input in Jy, except `scaled_name` which is given in the unit kind under test"""
    out = {}
    for k, v in vals.items():
        v = float(v) if np.ndim(v) == 0 else np.array(v, dtype=float)
        if k != scaled_name or kind == 'identical':
            out[k] = v * UNIT
        elif kind == 'scaled':
            out[k] = (v * 1000.0) * u.mJy
        elif kind == 'absent':
            out[k] = v
        else:
            out[k] = v * u.s
    return out


def _physical(g):
    """a result as plain numbers in the unit system of the unit-less run (Jy = 1)"""
    un = getattr(g, 'unit', None)
    if un is None or not hasattr(g, 'to'):
        return g
    for p in (1, 2, -1, -2):
        if un.is_equivalent(UNIT ** p):
            return g.to(UNIT ** p).value
    return g.value


def unit_case(sc, name, sec, kind):
    """-> (verdict, message): the unit-less float64 run defines the expected numbers"""
    vals, call = unit_entries(sc)[name]
    st0, r0 = _call(lambda d, e: call({k: (float(v) if np.ndim(v) == 0 else np.array(v, dtype=float))
                                        for k, v in vals.items()}), None, None)
    if st0 != 'ok':
        return 'reference-fails', r0
    st, r = _call(lambda d, e: call(_with_units(vals, sec, kind)), None, None)
    if kind in ('absent', 'inconvertible'):
        return ('ok', 'rejected') if st != 'ok' else (
            'VIOLATION', f'{sec} {("without a unit" if kind == "absent" else "in an inconvertible unit (s)")} next to '
                         f'data in Jy is accepted')
    if st != 'ok':
        if kind == 'scaled':
            return 'ok', 'rejected'          # the documented "must all have the same units" error
        return 'VIOLATION', f'all inputs in Jy: the call raises {r}'
    tol = 'f32' if name.startswith(('PSFPhotometry', 'fit_', 'centroid_')) else 'ulp'
    for k, a in r0.items():
        if k not in r:
            return 'VIOLATION', f'{k}: missing'
        m = compare(a, _physical(r[k]), tol, floor=0.0 if tol == 'ulp' else 1.0)
        if m:
            return 'VIOLATION', (f'{sec} given in mJy (same physical values) next to data in Jy is accepted but the '
                                 f'result is not the one of the unit-less run: {k}: {m}' if kind == 'scaled'
                                 else f'all inputs in Jy: result differs from the unit-less run: {k}: {m}')
    return 'ok', 'converted' if kind == 'scaled' else 'same'


def run_unit_axis(ctx, sc):
    for name, (vals, _) in unit_entries(sc).items():
        for sec in [k for k in vals if k != 'data']:
            for kind in UNIT_KINDS:
                verdict, msg = unit_case(sc, name, sec, kind)
                ctx.count_case(['units', name, sec, kind, sc['stars']])
                ctx.support('unit_axis_cases', 1)
                ctx.stat('unit_axis', f'{kind}:{verdict}' + (f':{msg}' if verdict == 'ok' else ''))
                if verdict == 'VIOLATION':
                    ctx.violation(f'{name}:units:{sec}={kind}', f'{name}: {msg}',
                                  {'kind': 'units', 'entry': name, 'input': sec, 'unit_kind': kind,
                                   'scene': scene_json(sc), 'cmd': 'bin/check C15 --replay <this file>'})


def check_annotations(ctx, sc, reps):
    """the dtype annotations the extractor trusts (`known` in TARGETS), observed on real objects"""
    from photutils.aperture import ApertureStats, CircularAperture
    from photutils.segmentation import SourceCatalog, detect_sources
    bad = []
    for rep in reps:
        if rep in ND_REPS:
            continue
        S = mk_rep(rep, sc)
        ap = CircularAperture([(s[0], s[1]) for s in sc['stars']], r=4.0)
        st = ApertureStats(S.data, ap, error=S.error)
        if any(c is not None and c.dtype != np.float64 for c in st._data_cutouts):
            bad.append((rep, 'ApertureStats._data_cutouts not float64'))
        for m in ap.to_mask(method='exact'):
            if m.data.dtype != np.float64:
                bad.append((rep, 'ApertureMask.data not float64'))
        segm = detect_sources(sc['img'], 60.0, 5)
        cat = SourceCatalog(S.data, segm, error=S.error)
        r = cat._make_aperture_data(cat.labels[0], float(cat.xcentroid[0]), float(cat.ycentroid[0]),
                                    ap.to_mask(method='exact')[0].bbox, 0.0)
        if r[0] is not None and (r[0].dtype != np.float64 or r[2].dtype != np.bool_):
            bad.append((rep, '_make_aperture_data returns (data, mask) not (float64, bool)'))
        ctx.support('extractor_annotations_observed', 3)
    for rep, msg in bad:
        ctx.violation('correspondence:annotation', 'a dtype annotation used by the extractor does not hold: ' + msg,
                      {'rep': rep}, found_input=False)



# ---------------------------------------------------------------- float32 axis: the scene scaled by 2**k
SCALED_ENTRIES = ['aperture_photometry', 'ApertureStats', 'SourceCatalog', 'profiles', 'calc_total_error',
                  'centroids', 'morphology', '_filter_data', 'finders']
# these hand float32 data to astropy.stats.SigmaClip, whose float32 variance (numpy/bottleneck) underflows to 0
# below ~2**-75 and overflows above ~2**63 (observed: SigmaClip(3)(x.astype('f4') * 2**-100) clips nothing / all):
# library numerics outside photutils, so the scale axis is restricted to 2**-30 .. 2**30 for them
SCALED_ENTRIES_SIGMACLIP = ['background_estimators', 'LocalBackground', 'segmentation', 'Background2D']


def product_scaled(ctx, sc, name, k, found, ref_unscaled=None):
    """float32 vs float64 on the scene multiplied by 2**k (data, error, thresholds, backgrounds): the
    float32 arrays hold exactly the same (normal) numbers, so the results must agree to float32 precision.
    Dimension-ful outputs are compared relative to their own magnitude (no absolute floor)."""
    scale = 2.0 ** k
    st, ref = run_entry(name, mk_rep('f8', sc, scale))
    if st != 'ok' or ref is None:
        ctx.stat('scaled', 'reference_fails:' + name)
        return
    if ref_unscaled is None:
        st0, ref_unscaled = run_entry(name, mk_rep('f8', sc))
        if st0 != 'ok':
            ref_unscaled = {}
    st, got = run_entry(name, mk_rep('f4', sc, scale))
    ctx.count_case(['scaled', name, k, sc['stars']])
    ctx.stat('scaled_exponents', str(k))
    probs = []
    if st != 'ok':
        probs.append(('raises', '*', got))
    else:
        f = ENTRY_POINTS[name]
        for key, r in ref.items():
            if isinstance(r, Raised) or key in getattr(f, 'ill_conditioned_in_float32', ()):
                continue
            g = got.get(key)
            if g is None:
                probs.append(('missing', key, 'output missing'))
                continue
            if isinstance(g, Raised):
                probs.append(('raises', key, g.msg))
                continue
            r0 = ref_unscaled.get(key)
            dimless = r0 is not None and not isinstance(r0, Raised) and compare(r0, r, 'f32') is None
            m = compare(r, g, 'f32', floor=1.0 if dimless else 0.0)
            ctx.support('scaled_outputs_compared', 1)
            if m:
                probs.append(('differs', key, m))
    ctx.stat('scaled', 'ok' if not probs else 'problem')
    for kind in sorted({p[0] for p in probs}):
        sig = f'{name}:float32-scaled:{kind}'
        these = [p for p in probs if p[0] == kind]
        found.setdefault(name, set()).add(sig)
        ctx.violation(sig, f'{name}: float32 arrays holding the scene times 2**{k} (normal float32 numbers) do not '
                      f'give the float64 result ({"; ".join(f"{p[1]}: {p[2]}" for p in these[:3])})',
                      {'kind': 'scaled', 'entry': name, 'exp': k, 'scene': scene_json(sc),
                       'problems': [list(p) for p in these[:12]], 'cmd': 'bin/check C15 --replay <this file>'})


# ---------------------------------------------------------------- container axis: NDData units
def _nd_calls(sc):
    """entry points with an NDData path: name -> f(data, error) returning named outputs"""
    from astropy.table import QTable
    from photutils.aperture import ApertureStats, CircularAperture, aperture_photometry
    from photutils.background import Background2D
    from photutils.psf import CircularGaussianPRF, PSFPhotometry
    ap = CircularAperture([(s[0], s[1]) for s in sc['stars']], r=4.0)
    init = QTable()
    init['x'] = [s[0] for s in sc['stars']]
    init['y'] = [s[1] for s in sc['stars']]

    def f_ap(d, e):
        return _tbl(aperture_photometry(d, ap, error=e), ['aperture_sum', 'aperture_sum_err'])

    def f_stats(d, e):
        st = ApertureStats(d, ap, error=e)
        return {c: getattr(st, c) for c in ('sum', 'sum_err', 'mean', 'std', 'xcentroid')}

    def f_psf(d, e):
        model = CircularGaussianPRF(flux=1, fwhm=4.0)
        res = PSFPhotometry(model, (7, 7), aperture_radius=4.0)(d, error=e, init_params=init.copy())
        return _tbl(res, ['x_fit', 'flux_fit', 'flux_err'])

    def f_bkg(d, e):
        b = Background2D(d, (8, 8), filter_size=3)
        return {'background': b.background, 'background_rms': b.background_rms}
    def f_ipsf(d, e):
        from photutils.detection import DAOStarFinder
        from photutils.psf import IterativePSFPhotometry
        model = CircularGaussianPRF(flux=1, fwhm=4.0)
        thr = 40.0 * d.unit if getattr(d, 'unit', None) is not None else 40.0
        res = IterativePSFPhotometry(model, (7, 7), finder=DAOStarFinder(thr, 4.0), aperture_radius=4.0,
                                     maxiters=1)(d, error=e, init_params=init.copy())
        return _tbl(res, ['x_fit', 'flux_fit', 'flux_err'])
    return {'aperture_photometry': f_ap, 'ApertureStats': f_stats, 'PSFPhotometry': f_psf,
            'IterativePSFPhotometry': f_ipsf, 'Background2D': f_bkg}


ND_VARIANTS = [('Jy', 'absent'), ('Jy', 'none'), ('Jy', 'Jy'), ('Jy', 'mJy'), ('Jy', 's'), ('none', 'Jy'),
               ('none', 'none')]


UNC_CLASSES = ('StdDevUncertainty', 'VarianceUncertainty', 'InverseVariance', 'UnknownUncertainty')


def _nd_variant(sc, dunit, uunit, ucls='StdDevUncertainty'):
    """(NDData, equivalent data argument, equivalent sigma argument, sigma converted to the data unit)"""
    import astropy.nddata as nddata
    units = {'Jy': u.Jy, 'mJy': u.mJy, 's': u.s, 'none': None}
    img, err = sc['img'].copy(), sc['err'].copy()
    du = units[dunit]
    if uunit == 'absent':
        unc = None
    elif ucls == 'StdDevUncertainty':
        unc = StdDevUncertainty(err * (1000.0 if uunit == 'mJy' else 1.0), unit=units[uunit])
    else:
        # the same errors as a variance / inverse variance / of unknown kind (only with the unit of the data)
        arr = {'VarianceUncertainty': err ** 2, 'InverseVariance': 1.0 / err ** 2, 'UnknownUncertainty': err}[ucls]
        uu = units[uunit]
        if uu is not None:
            uu = {'VarianceUncertainty': uu ** 2, 'InverseVariance': uu ** -2, 'UnknownUncertainty': uu}[ucls]
        unc = getattr(nddata, ucls)(arr, unit=uu)
    nd = NDData(img, unit=du, uncertainty=unc)                  # astropy itself may reject or normalise this
    d = img * du if du is not None else img
    e = econv = None
    if nd.uncertainty is not None and ucls != 'StdDevUncertainty':
        e = econv = err * du if du is not None else err.copy()   # the sigma the container stands for
    elif nd.uncertainty is not None:
        uu = nd.uncertainty.unit                               # as astropy resolved it
        e = nd.uncertainty.array * uu if uu is not None else nd.uncertainty.array.copy()
        econv = e
        if uu is not None and du is not None and uu != du:
            try:
                econv = e.to(du)
            except Exception:  # noqa: BLE001
                econv = None
    return nd, d, e, econv


def _call(f, d, e):
    try:
        with warnings.catch_warnings(), np.errstate(all='ignore'):
            warnings.simplefilter('ignore')
            return 'ok', f(d, e)
    except Exception as ex:  # noqa: BLE001
        return 'raise', f'{type(ex).__name__}: {str(ex)[:100]}'


def _same_quantities(a, b):
    for k in a:
        if k not in b:
            return f'{k}: missing'
        x, y = a[k], b[k]
        ux, uy = getattr(x, 'unit', None), getattr(y, 'unit', None)
        if (ux is None) != (uy is None):
            return f'{k}: unit {uy} vs {ux}'
        if ux is not None:
            try:
                y = y.to(ux)
            except Exception:  # noqa: BLE001
                return f'{k}: unit {uy} not convertible to {ux}'
        m = compare(x, y, 'ulp', floor=0.0)
        if m:
            return f'{k}: {m}'
    return None


# entry points whose documentation requires the NDData uncertainty to be a StdDevUncertainty (aperture_photometry:
# "it must be defined in the uncertainty attribute with a StdDevUncertainty instance"); ApertureStats shares that
# unpacking code but does not say so
STDDEV_ONLY_DOCUMENTED = {'aperture_photometry', 'ApertureStats'}


def nddata_unit_case(sc, name, dunit, uunit, ucls='StdDevUncertainty'):
    """-> (verdict, message); verdict in ok / not-constructible / VIOLATION"""
    f = _nd_calls(sc)[name]
    try:
        nd, d, e, econv = _nd_variant(sc, dunit, uunit, ucls)
    except Exception as ex:  # noqa: BLE001
        return 'not-constructible', type(ex).__name__
    st_nd, r_nd = _call(f, nd, None)
    st_a, r_a = _call(f, d, e)
    if ucls != 'StdDevUncertainty' and st_a == 'ok':
        # expected: the call with the equivalent sigma.  A container whose uncertainty cannot be turned into a
        # sigma (UnknownUncertainty) may be rejected; where the documentation restricts the uncertainty to
        # StdDevUncertainty the other classes may be ignored (= the call without error)
        if st_nd != 'ok':
            return ('ok', 'rejected') if ucls == 'UnknownUncertainty' else (
                'VIOLATION', f'the NDData call raises ({r_nd}) although its {ucls} is equivalent to a sigma')
        m = _same_quantities(r_a, r_nd)
        if m is None:
            return 'ok', 'as sigma'
        if name in STDDEV_ONLY_DOCUMENTED:
            st_n, r_n = _call(f, d, None)
            if st_n == 'ok' and _same_quantities({k: v for k, v in r_n.items() if k in r_nd}, r_nd) is None:
                return 'ok', 'uncertainty class ignored'
        return 'VIOLATION', f'NDData with {ucls} is accepted but the result is not the one for the equivalent sigma: ' + m
    if st_a == 'ok':
        if st_nd != 'ok':
            return 'VIOLATION', f'the NDData call raises ({r_nd}) although the call with the same Quantities succeeds'
        m = _same_quantities(r_a, r_nd)
        return ('ok', '') if m is None else ('VIOLATION', 'NDData result differs from the call with the same '
                                                           'Quantities: ' + m)
    # the array call rejects these Quantities: the container must be rejected too, or be evaluated
    # correctly (uncertainty converted to the unit of the data)
    if st_nd != 'ok':
        return 'ok', 'both rejected'
    if econv is not None and econv is not e:
        st_c, r_c = _call(f, d, econv)
        if st_c == 'ok':
            m = _same_quantities(r_c, r_nd)
            return ('ok', 'converted') if m is None else (
                'VIOLATION', 'the call with the same Quantities is rejected (' + r_a + ') but the NDData is accepted '
                'and its result is not the one for the converted uncertainty: ' + m)
    return 'VIOLATION', f'the call with the same Quantities is rejected ({r_a}) but the NDData is accepted'


def run_nddata_units(ctx, sc):
    for name in _nd_calls(sc):
        variants = [(d, uu, 'StdDevUncertainty') for d, uu in ND_VARIANTS]
        variants += [(d, d, c) for c in UNC_CLASSES[1:] for d in ('none', 'Jy')]
        for dunit, uunit, ucls in variants:
            if name == 'Background2D' and uunit != 'absent':
                continue
            verdict, msg = nddata_unit_case(sc, name, dunit, uunit, ucls)
            ctx.count_case(['ndunits', name, dunit, uunit, ucls, sc['stars']])
            ctx.support('nddata_unit_variants', 1)
            ctx.stat('nddata_units', f'{verdict}{":" + msg if verdict == "ok" and msg else ""}')
            if msg == 'uncertainty class ignored':
                ctx.stat('nddata_units_observed', f'{name}: {ucls} silently ignored')
            if verdict == 'VIOLATION':
                ctx.violation(f'{name}:nddata-units:data={dunit},uncertainty={uunit},{ucls}',
                              f'{name}: NDData(data unit {dunit}, {ucls} unit {uunit}): {msg}',
                              {'kind': 'ndunits', 'entry': name, 'data_unit': dunit, 'uncertainty_unit': uunit,
                               'uncertainty_class': ucls, 'scene': scene_json(sc),
                               'cmd': 'bin/check C15 --replay <this file>'})


# ---------------------------------------------------------------- obligations
def check_call_sites(file, src, callee, kw, val):
    """every call of `callee` in the file that passes keyword `kw` passes the name `val`"""
    for node in ast.walk(ast.parse(src)):
        if isinstance(node, ast.Call) and (dotted(node.func) or '').endswith(callee):
            for k in node.keywords:
                if k.arg == kw and dotted(k.value) != val:
                    raise Untranslatable(f'{file}:{node.lineno}', f'{callee}({kw}={ast.unparse(k.value)}) is not '
                                                                   f'{kw}={val}')


def obligation_cases(t, root):
    """one target -> (list of (coq term, meta), extractor); raises Untranslatable"""
    path = root / t['file']
    src = path.read_text()
    ex = Extractor(t['file'], src, t['func'], t['inputs'], t['known'], t['opaque'], bind=t.get('bind'))
    progs = ex.programs()
    for callee, kw, val in t.get('call_sites', ()):      # the binding must hold at every call site
        check_call_sites(t['file'], src, callee, kw, val)
    out = []
    for p in progs:
        ins, names, nv = renumber(p)
        if not ins:
            continue
        prog = f'[{"; ".join(ins)}]%nat'
        typed = t.get('typed', {})
        sets = '[' + '; '.join('[' + '; '.join(typed[nm]) + ']' if nm in typed else 'allowed_inputs'
                               for nm in names) + ']'
        meta = ('obligation', t['name'], names, ins)
        if t.get('returns') and getattr(p, 'returned_var', None) is not None:
            out.append((f"CReturns {prog} {sets} {p.returned_var}%nat {t['returns']}", meta))
        elif typed:
            out.append((f'CObligationT {prog} {sets}', meta))
        else:
            out.append((f'CObligation {prog} {len(names)}', meta))
    return out, ex


def extract_obligations(ctx, cases):
    """IR programs of the anchored mechanisms from the current source -> obligation cases"""
    for t in TARGETS:
        try:
            cs, ex = obligation_cases(t, REPO)
        except Untranslatable as e:
            ctx.stat('obligations', 'untranslatable')
            cases.append((None, ('untranslatable', t['name'], str(e))))
            ctx.obligations += 1
            continue
        except (OSError, SyntaxError) as e:
            cases.append((None, ('untranslatable', t['name'], f'{type(e).__name__}: {e}')))
            ctx.obligations += 1
            continue
        cases.extend(cs)
        n = len(cs)
        t = dict(t, lines=f'{ex.fn.lineno}-{ex.fn.end_lineno}')
        ctx.stat('obligations', 'programs', n)
        ctx.stat('obligation_paths', t['name'], n)
        ctx.obligations += 1
        ctx.cov.setdefault('extracted', {})[t['name']] = {
            'file': t['file'], 'lines': t.get('lines'), 'paths': n,
            'opaque_callees_assumed_dtype_agnostic': sorted(ex.assumed),
            'trusted_annotations': sorted(t['known']), 'typed_inputs': t.get('typed', {}),
            'returns': t.get('returns')}


def evaluate_refused(ctx):
    """the candidates that are not obligations: what the extractor / the analysis say about them today"""
    terms, owners = [], []
    out = ctx.cov.setdefault('refused_candidates', {})
    for t in REFUSED:
        try:
            cs, ex = obligation_cases(t, REPO)
        except Untranslatable as e:
            out[t['name']] = {'file': t['file'], 'reason': t['reason'], 'today': 'untranslatable: ' + str(e)[:160]}
            continue
        except (OSError, SyntaxError) as e:
            out[t['name']] = {'file': t['file'], 'reason': t['reason'], 'today': type(e).__name__}
            continue
        out[t['name']] = {'file': t['file'], 'lines': f'{ex.fn.lineno}-{ex.fn.end_lineno}', 'reason': t['reason'],
                          'paths': len(cs), 'today': 'accepted'}
        for term, _ in cs:
            terms.append(term)
            owners.append(t['name'])
    if terms:
        for i in ctx.coq_eval_cases(['C15_Model'], 'check_case', terms, case_type='case', tag='refused'):
            out[owners[i]]['today'] = 'rejected by the analysis'
    for k, v in NOT_ATTEMPTED.items():
        out[k] = {'reason': v, 'today': 'not attempted'}
    ctx.stat('obligations', 'refused_candidates_listed', len(out))


def run(ctx):
    ctx.build(FILES)
    quick = ctx.tier == 'quick'
    ctx.cov['rule'] = (
        'K: all (ufunc, dtype, dtype|weak scalar) combinations over 9 dtypes (out-of-place result dtype, in-place '
        'outcome), promote_types, can_cast(same_kind), _dtype_dispatch branch per dtype and byte order, random '
        'process_quantities calls (None / plain / Quantity in 6 units, equal, mixed, all-None, wrong name count), '
        'random IR programs interpreted on numpy (exception kind, final dtypes, values vs the float64 run). '
        'O: IR programs extracted from the current source of 40 functions (input handling and array arithmetic of the '
        'entry points of the product test), analysed for all combinations of {f8,f4,i2,i8,u2,i4} input dtypes (typed '
        'inputs where another obligation fixes the dtype a function returns); candidates that are not obligations are '
        'listed under refused_candidates with what the analysis says about them today. V: product test entry points x representations on seeded scenes '
        '(integer-valued star field with amplitudes up to 30000 and errors up to ~350 so that int16 products '
        'overflow, elliptical galaxy); distinct = distinct (entry, representation, scene) / table cell / program')
    ctx.cov['partial_clauses'] = [
        'that numpy, scipy, bottleneck and astropy kernels compute the same numbers for every byte order, stride, '
        'memory order and container is NOT proved: decided at exploration strength by the product test only',
        'repr_value_independent_partial: float arithmetic idealised (float dtypes exact); reductions, library '
        'calls listed as opaque and values taken out of containers are not tracked by the extractor',
        'dtype_dispatch_transparent_partial: assumes the bottleneck and numpy kernels agree extensionally',
        'float32 / integer inputs are compared with the float64 run to float32 precision (2e-4 relative), '
        'layout/byte-order/container/unit representations to 1e-9 relative (bit-identical outputs are counted)',
        'float32 scale axis: entry points that pass float32 data to astropy.stats.SigmaClip (background estimator '
        'classes, LocalBackground, detect_threshold, Background2D) are only exercised for 2**-30..2**30: beyond, '
        'astropy/numpy compute the float32 variance as 0 or inf and the clipped statistics differ from float64 '
        '(observed, library numerics, not reported as a photutils violation)',
        'IterativePSFPhotometry fit results of second-pass (residual-noise) detections are not compared for '
        'float32 input (ill-conditioned fits amplify float32 rounding); the number of detections still is',
    ]
    ctx.assumptions += [
        'units are atomic identifiers in the process_quantities model (distinct astropy units compare unequal, '
        'equal units hash equal); names passed by the callers are distinct',
        'the extractor analyses one representative loop iteration; error paths (raise) are dropped; '
        'dtype annotations of untracked names (weights float64, masks bool) are trusted and spot-checked at run time',
        'Quantity support is required only where photutils documents or implements unit handling '
        '(LocalBackground and isophote.Ellipse do not: a raise there is recorded, not reported)',
    ]
    cases = []
    k_numpy_tables(ctx, cases)
    k_reductions(ctx, cases)
    k_dispatch(ctx, cases)
    pq_meta = {}
    for _ in range(150 if quick else 1200):
        vals, names = gen_pq(ctx.rng)
        exp, desc = run_pq(vals, names)
        pq_meta[len(cases)] = (vals, names, desc)
        cases.append((pq_term(vals, names, exp), ('pq', vals, names, desc)))
        ctx.stat('pq', desc.get('raises', 'ok'))
        ctx.count_case(['pq', vals, names], nontrivial=len(vals) > 0)
        if not pq_oracle(vals, names, desc):
            ctx.violation('process_quantities:spec', 'process_quantities contradicts its contract (same unit -> '
                          'stripped values + unit; mixed -> ValueError)', {'kind': 'pq', 'values': vals, 'names': names,
                                                                          'got': desc})
    k_ir(ctx, cases, 250 if quick else 2500)
    extract_obligations(ctx, cases)
    terms = [(i, c[0]) for i, c in enumerate(cases) if c[0] is not None]
    bad = ctx.coq_eval_cases(['C15_Model'], 'check_case', [t for _, t in terms], case_type='case')
    bad = [terms[b][0] for b in bad]
    ctx.stat('coq', 'disagreements', len(bad))
    rejected = {}
    for i, c in enumerate(cases):
        if c[0] is None:
            rejected.setdefault(c[1][1], []).append({'untranslatable': c[1][2]})
    shown = 0
    for i in bad:
        meta = cases[i][1]
        if meta[0] == 'obligation':
            detail = {'inputs': meta[2], 'program': meta[3]}
            if shown < 6:
                shown += 1
                detail['rejected_input_dtypes'] = ctx.coq_eval_term(['C15_Model'], f'model_out ({cases[i][0]})')[:600]
            rejected.setdefault(meta[1], []).append(detail)
        elif meta[0] == 'pq':
            ctx.violation('correspondence:C15_Model.process_quantities', 'model and process_quantities disagree',
                          {'case': list(meta[1:]), 'term': cases[i][0]}, found_input=False)
        else:
            ctx.violation('correspondence:C15_Model.' + meta[0], 'the Coq model of numpy/photutils behaviour disagrees '
                          'with the installed library', {'case': [str(m) for m in meta], 'term': cases[i][0][:400],
                                                         'model': ctx.coq_eval_term(['C15_Model'], f'model_out ({cases[i][0]})')[:300]},
                          found_input=False)
    ctx.discharged += sum(1 for t in TARGETS if t['name'] not in rejected)
    evaluate_refused(ctx)
    # ---- product test
    reps = REPS_QUICK if quick else REPS_ALL
    nscenes = 2 if quick else 8
    found = {}
    scenes = [new_scene(ctx.rng) for _ in range(nscenes)]
    ctx.sample({'scene_stars': scenes[0]['stars'], 'img_max': float(scenes[0]['img'].max()),
                'err_max': float(scenes[0]['err'].max()), 'reps': reps, 'entries': sorted(ENTRY_POINTS)})
    for k, sc in enumerate(scenes):
        for name in ENTRY_POINTS:
            if name in ('Ellipse', 'isophote') and k >= (1 if quick else 4):
                continue
            use = reps
            if name == 'centroids' and k >= 1 and quick:
                # the fit-heavy entry: from the second scene on only the representations that take other code
                # paths inside the centroid functions (containers with masks, integers, float32)
                use = [r for r in reps if r in ('ma_false', 'ma_nomask', 'i2', 'f4', 'quantity')]
            product_one(ctx, sc, name, use, found)
        run_mixed(ctx, sc) if k < 2 else None
    check_annotations(ctx, scenes[0], [r for r in reps if r not in ND_REPS])
    # ---- float32 exactness on a bright scene (pixel values < 2**24, sums far above 2**24)
    for sc in scenes[:1 if quick else 3]:
        for name in sorted(FLOAT32_EXACT):
            product_one(ctx, bright(sc), name, ['f4'] if quick else ['f4', 'be_f4'], found)
    # ---- float32 axis: the scene times 2**k; container axis: NDData unit combinations
    exps = [-100, 100] if quick else [-100, -64, -30, 30, 64, 100]
    for k, sc in enumerate(scenes[:1 if quick else 3]):
        for name in SCALED_ENTRIES:
            for e in exps:
                product_scaled(ctx, sc, name, e, found)
        for name in SCALED_ENTRIES_SIGMACLIP:
            for e in ([-30, 30] if quick else [-30, -12, 12, 30]):
                product_scaled(ctx, sc, name, e, found)
        run_nddata_units(ctx, sc)
        run_unit_axis(ctx, sc)
    # ---- rejected obligations: a concrete failing input, or a no-failing-input-found report
    for tname, details in sorted(rejected.items()):
        entries = TARGET_ENTRIES.get(tname, [])
        if not any(found.get(e) for e in entries):
            for _ in range(3):                    # seeded neighbourhood: more scenes for these entry points
                sc = new_scene(ctx.rng)
                for e in entries:
                    product_one(ctx, sc, e, REPS_ALL, found)
                if any(found.get(e) for e in entries):
                    break
        if any(found.get(e) for e in entries):
            ctx.stat('obligations', 'rejected_with_concrete_input')
            ctx.notes.append(f'obligation {tname} rejected by the analysis; concrete failing input reported under '
                             f'{sorted(set().union(*[found.get(e, set()) for e in entries]))}')
        else:
            ctx.violation('obligation:' + tname, 'the representation-safety analysis no longer accepts the current '
                          f'source of {tname} (in-place / integer arithmetic on an un-converted input, or a construct '
                          'the extractor does not understand)', {'target': tname, 'details': details[:4]},
                          found_input=False)


def replay(obj):
    from .core import setup_repo_path
    setup_repo_path()
    r = obj['replay']
    kind = r.get('kind')
    if kind == 'pq':
        vals = [None if v is None else tuple(v) for v in r['values']]
        exp, desc = run_pq(vals, r['names'])
        ok = pq_oracle(vals, r['names'], desc)
        print('process_quantities ->', desc)
    elif kind == 'mixed':
        sc = scene_from_json(r['scene'])
        th = dict(mixed_cases(sc['img'], sc['err'], sc['stars']))[r['name']]
        try:
            with warnings.catch_warnings():
                warnings.simplefilter('ignore')
                out = th()
            print(r['name'], 'returned', type(out).__name__)
            ok = False
        except Exception as e:  # noqa: BLE001
            print(r['name'], 'raised', type(e).__name__, str(e)[:100])
            ok = True
    elif kind == 'scaled':
        sc = scene_from_json(r['scene'])

        class _C:
            def __init__(self):
                self.n = 0

            def count_case(self, *a, **k): pass
            def stat(self, *a, **k): pass
            def support(self, *a, **k): pass

            def violation(self, sig, what, rp, found_input=True):
                self.n += 1
                print(sig, '::', what[:400])
        c = _C()
        product_scaled(c, sc, r['entry'], r['exp'], {})
        ok = c.n == 0
    elif kind == 'units':
        sc = scene_from_json(r['scene'])
        verdict, msg = unit_case(sc, r['entry'], r['input'], r['unit_kind'])
        print(r['entry'], r['input'], r['unit_kind'], '->', verdict, msg)
        ok = verdict != 'VIOLATION'
    elif kind == 'ndunits':
        sc = scene_from_json(r['scene'])
        verdict, msg = nddata_unit_case(sc, r['entry'], r['data_unit'], r['uncertainty_unit'],
                                        r.get('uncertainty_class', 'StdDevUncertainty'))
        print(r['entry'], r['data_unit'], r['uncertainty_unit'], '->', verdict, msg)
        ok = verdict != 'VIOLATION'
    elif kind == 'product':
        sc = scene_from_json(r['scene'])
        st, ref = run_entry(r['entry'], mk_rep('f8', sc))
        st2, got = run_entry(r['entry'], mk_rep(r['rep'], sc))
        if st != 'ok':
            print('float64 reference fails:', ref)
            return 0
        if st2 != 'ok':
            print(f"{r['entry']} [{r['rep']}] raises: {got}")
            ok = False
        else:
            probs, _ = compare_entry(r['entry'], r['rep'], ref, got)
            for p in probs[:20]:
                print(f"{r['entry']} [{r['rep']}] {p[0]} {p[1]}: {p[2]}")
            ok = not probs
    else:
        print('nothing to re-run for this record (obligation / correspondence): see its detail')
        return 1
    print('property holds on this input' if ok else 'property FAILS on this input')
    return 0 if ok else 1
