"""Regenerate coq/gen/Gen_*.v from the CURRENT source text of $VERIF_REPO (default /repo).

    generate_all()      -> {'gen/Gen_bbox.v': text, ...}   (also fills LAST_REPORT)
    generated_for(pid)  -> ({relpath: text}, [extra FILES in build order])  for harness/cNN.py:
                               gen, extra = generated_for(PID)
                               ctx.build(FILES_BEFORE + extra + [property file], generated=gen)
    main()              -> writes coq/gen/*.v (bin/setup); one line per target; always exit 0.

A target that cannot be translated gets NO definition in its generated file (only a comment), so the
committed CNN_GenEq.v that mentions it fails to build = a broken proof obligation (fail closed).
The sorts below are the declared Python types of the arguments (the precondition of each tie).
"""
import ast
import os
import sys
from pathlib import Path

from harness.py2coq import B, LIST, OBJ, OPT, PREAMBLE, Q, S, TUP, Z, Translator, Untranslatable, find_def

VERIF = Path(__file__).resolve().parent.parent
COQ = Path(os.environ.get('VERIF_COQ_DIR') or VERIF / 'coq')

BBOX = 'photutils/aperture/bounding_box.py'
CLASSES = {
    'BoundingBox': {'fields': [('ixmin', Z), ('ixmax', Z), ('iymin', Z), ('iymax', Z)]},
    'EllipseGeometry': {'fields': [('sma', Q), ('linear_growth', B)]},
    'Background2D': {'fields': [('exclude_percentile', Q), ('_box_npixels', Z)]},
    # argument sorts that are not photutils classes
    'ndarray2': {'fields': [('shape', TUP(Z, Z))], 'pytypes': ['np.ndarray']},          # a 2-D numpy array: only .shape is read
    'SegmentationImage': {'fields': [('shape', TUP(Z, Z)), ('nlabels', Z)]},
    # a row of the PSF-photometry results table; the keys are the column-name variables of _define_flags
    'flags_row': {'rec': True, 'fields': [('npixfit', Z), ('xcolname', Q), ('ycolname', Q), ('fluxcolname', Q)]},
    'CircularAperture': {'fields': [('r', Q)]},
    'CircularAnnulus': {'fields': [('r_out', Q)]},
    'ApertureStats': {'fields': [('bbox_xmin', Z), ('bbox_ymin', Z)]},
    'ProfileBase': {'fields': [('normalization_value', Q), ('profile', Q), ('profile_error', Q)]},
    'SourceCatalog': {'fields': [('isscalar', B)]},
    'StarFinderKernel': {'fields': [('yradius', Z), ('xradius', Z)], 'pytypes': ['_StarFinderKernel']},
}

# kind 'def': a whole function / method; `sorts` = the sorts of its parameters after self / cls, in order.  kind 'var': the value of a local after its assignments
# (py2coq.Translator.var_chain).  Order matters: callees before callers.
TARGETS = [
    # ---- Gen_bbox.v (C01, C02) ----
    dict(gen='Gen_bbox', file=BBOX, qual='BoundingBox.__init__', name='gen_bbox_init',
         sorts=[Z, Z, Z, Z]),
    dict(gen='Gen_bbox', file=BBOX, qual='BoundingBox.from_float', name='gen_from_float',
         sorts=[Q, Q, Q, Q]),
    dict(gen='Gen_bbox', file=BBOX, qual='BoundingBox.center', name='gen_bbox_center', sorts=[]),
    dict(gen='Gen_bbox', file=BBOX, qual='BoundingBox.shape', name='gen_bbox_shape', sorts=[]),
    dict(gen='Gen_bbox', file=BBOX, qual='BoundingBox.extent', name='gen_bbox_extent', sorts=[]),
    dict(gen='Gen_bbox', file=BBOX, qual='BoundingBox.get_overlap_slices', name='gen_get_overlap_slices',
         sorts=[TUP(Z, Z)]),
    dict(gen='Gen_bbox', file=BBOX, qual='BoundingBox.union', name='gen_bbox_union',
         sorts=[OBJ('BoundingBox')]),
    dict(gen='Gen_bbox', file=BBOX, qual='BoundingBox.intersection', name='gen_bbox_intersection',
         sorts=[OBJ('BoundingBox')]),
    dict(gen='Gen_bbox', file=BBOX, qual='BoundingBox.__or__', name='gen_bbox_or',
         sorts=[OBJ('BoundingBox')]),
    dict(gen='Gen_bbox', file=BBOX, qual='BoundingBox.__and__', name='gen_bbox_and',
         sorts=[OBJ('BoundingBox')]),
    # ---- Gen_apcore.v (C01) ----
    dict(gen='Gen_apcore', file='photutils/aperture/core.py', qual='PixelAperture._translate_mask_mode',
         name='gen_translate_mask_mode', sorts=[S, Z, B]),
    # ---- Gen_round.v (C17) ----
    dict(gen='Gen_round', file='photutils/utils/_round.py', qual='py2intround', name='gen_py2intround',
         sorts=[Q], elementwise=True),
    # ---- Gen_psf.v (C13) ----
    dict(gen='Gen_psf', file='photutils/psf/gridded_models.py', qual='GriddedPSFModel._calc_bilinear_weights',
         name='gen_calc_bilinear_weights', sorts=[Q, Q, TUP(Q, Q, Q, Q)], no_self=True),
    dict(gen='Gen_psf', kind='var', var='xi', file='photutils/psf/image_models.py', qual='ImagePSF.evaluate',
         name='gen_imagepsf_xi', sorts={'x': Q, 'x_0': Q}, elementwise=True,
         fields=[('oversampling', TUP(Z, Z)), ('_origin', TUP(Q, Q))]),
    dict(gen='Gen_psf', kind='var', var='yi', file='photutils/psf/image_models.py', qual='ImagePSF.evaluate',
         name='gen_imagepsf_yi', sorts={'y': Q, 'y_0': Q}, elementwise=True,
         fields=[('oversampling', TUP(Z, Z)), ('_origin', TUP(Q, Q))]),
    dict(gen='Gen_psf', kind='var', var='invalid', file='photutils/psf/image_models.py', qual='ImagePSF.evaluate',
         name='gen_imagepsf_invalid', sorts={'nx': Z, 'ny': Z, 'xi': Q, 'yi': Q}, elementwise=True),
    dict(gen='Gen_psf', kind='var', var='xi', file='photutils/psf/gridded_models.py', qual='GriddedPSFModel.evaluate',
         name='gen_gridded_xi', sorts={'x': Q, 'x_0': Q}, elementwise=True,
         fields=[('oversampling', TUP(Z, Z)), ('origin', TUP(Q, Q))]),
    dict(gen='Gen_psf', kind='var', var='yi', file='photutils/psf/gridded_models.py', qual='GriddedPSFModel.evaluate',
         name='gen_gridded_yi', sorts={'y': Q, 'y_0': Q}, elementwise=True,
         fields=[('oversampling', TUP(Z, Z)), ('origin', TUP(Q, Q))]),
    dict(gen='Gen_psf', kind='var', var='invalid', file='photutils/psf/gridded_models.py',
         qual='GriddedPSFModel.evaluate', name='gen_gridded_invalid',
         sorts={'nx': Z, 'ny': Z, 'xi': Q, 'yi': Q}, elementwise=True),
    # ---- Gen_isophote.v (C20) ----
    dict(gen='Gen_isophote', file='photutils/isophote/geometry.py', qual='EllipseGeometry.update_sma',
         name='gen_update_sma', sorts=[Q]),
    dict(gen='Gen_isophote', file='photutils/isophote/geometry.py', qual='EllipseGeometry.reset_sma',
         name='gen_reset_sma', sorts=[Q]),
    # ---- Gen_bkg.v (C11) ----
    dict(gen='Gen_bkg', file='photutils/background/background_2d.py', qual='Background2D._good_npixels_threshold',
         name='gen_good_npixels_threshold', sorts=[]),
    dict(gen='Gen_bkg', kind='var', var='box_mask', file='photutils/background/background_2d.py',
         qual='Background2D._compute_box_statistics', name='gen_box_mask', sorts={'ngood': Z}, elementwise=True),
]

TARGETS += [
    # ---- Gen_detection.v (C14) ----
    dict(gen='Gen_detection', kind='block', file='photutils/detection/core.py', qual='StarFinderBase._find_stars',
         name='gen_find_stars_border', vars=['border_width'], ret=['border_width'],
         sorts={'exclude_border': B, 'kernel': OBJ('ndarray2')}),
    dict(gen='Gen_detection', kind='block', file='photutils/detection/core.py', qual='StarFinderBase._find_stars',
         name='gen_find_stars_border_kernel', vars=['border_width'], ret=['border_width'],
         sorts={'exclude_border': B, 'kernel': OBJ('StarFinderKernel')}),
    dict(gen='Gen_detection', kind='var', var='size', file='photutils/detection/core.py', qual='StarFinderBase._find_stars',
         name='gen_find_stars_size', sorts={'min_separation': Q}),
    dict(gen='Gen_detection', kind='block', file='photutils/detection/core.py', qual='StarFinderBase._find_stars',
         name='gen_find_stars_fp_elem', vars=['footprint'], ret=['footprint'], occurrences=[2],
         sorts={'xx': Z, 'yy': Z, 'min_separation': Q}, elementwise=True),
    dict(gen='Gen_detection', kind='write', file='photutils/detection/peakfinder.py', qual='find_peaks',
         name='gen_find_peaks_border_hit', write=('peak_goodmask', 2), sorts={'ny': Z, 'nx': Z}),
]

SEGCORE = 'photutils/segmentation/core.py'
TARGETS += [
    # ---- Gen_segm.v (C05) ----
    dict(gen='Gen_segm', kind='write', file=SEGCORE, qual='SegmentationImage.remove_border_labels',
         name='gen_border_axis_hit', write=('border_mask', 1), sorts={'border_width': Z}),
    dict(gen='Gen_segm', kind='test', file=SEGCORE, qual='SegmentationImage.remove_border_labels',
         name='gen_border_width_guard', reads='border_width', sorts={'border_width': Z}),
    dict(gen='Gen_segm', kind='test', file=SEGCORE, qual='SegmentationImage.reassign_labels',
         name='gen_reassign_new_label_guard', reads='new_label', sorts={'new_label': Z}),
    dict(gen='Gen_segm', kind='test', file=SEGCORE, qual='SegmentationImage.relabel_consecutive',
         name='gen_relabel_start_guard', reads='start_label', occurrence=0, sorts={'start_label': Z}),
    dict(gen='Gen_segm', kind='test', file=SEGCORE, qual='SegmentationImage.relabel_consecutive',
         name='gen_relabel_overflow_guard', reads='start_label', occurrence=1, sorts={'start_label': Z},
         abstract={'np.iinfo(self.data.dtype).max': ('dtype_max', Z)}),
    dict(gen='Gen_segm', kind='test', file=SEGCORE, qual='SegmentationImage.relabel_consecutive',
         name='gen_relabel_already_consecutive', reads='start_label', occurrence=2, sorts={'start_label': Z},
         abstract={'self.labels[0]': ('labels_first', Z), 'self.labels[-1]': ('labels_last', Z)}),
]

PSFPHOT = 'photutils/psf/photometry.py'
TARGETS += [
    # ---- Gen_psfphot.v (C12) ----
    dict(gen='Gen_psfphot', kind='block', file=PSFPHOT, qual='PSFPhotometry._define_flags', name='gen_flags_1_2_4',
         vars=['flags[index]'], ret=['flags[index]'], occurrences=[0, 1, 2], cells={'flags[index]': Z},
         sorts={'flags[index]': Z, 'row': OBJ('flags_row'), 'shape': TUP(Z, Z)}, fields=[('fit_shape', TUP(Z, Z))]),
    dict(gen='Gen_psfphot', file=PSFPHOT, qual='PSFPhotometry._get_invalid_positions', name='gen_invalid_position',
         sorts={'init_params': None, 'shape': TUP(Z, Z)}, elementwise=True, self_fields=[('fit_shape', TUP(Z, Z))],
         abstract={"init_params[self._param_maps['init_cols']['x']]": ('x', Q),
                   "init_params[self._param_maps['init_cols']['y']]": ('y', Q)},
         vec=['self.fit_shape', 'shape']),
]

TARGETS += [
    # ---- Gen_detect.v (C04) ----
    dict(gen='Gen_detect', kind='block', file='photutils/segmentation/utils.py', qual='_make_binary_structure',
         name='gen_binary_structure_2d', vars=['footprint'], ret=['footprint'], occurrences=[1, 2],
         sorts={'connectivity': Z}),
    dict(gen='Gen_detect', kind='block', file='photutils/segmentation/detect.py', qual='_detect_sources',
         name='gen_segment_pixel', vars=['segment_img'], ret=['segment_img'], occurrences=[0, 1],
         sorts={'data': Z, 'threshold': Z, 'inverse_mask': OPT(B)}, elementwise=True),
    dict(gen='Gen_detect', kind='test', file='photutils/segmentation/detect.py', qual='_detect_sources',
         name='gen_segment_too_small', reads='segment_mask', sorts={'npixels': Z},
         abstract={'np.count_nonzero(segment_mask)': ('count', Z)}),
    dict(gen='Gen_detect', kind='test', file='photutils/segmentation/detect.py', qual='detect_sources',
         name='gen_npixels_invalid', reads='npixels', sorts={'npixels': Q}),
]

TARGETS += [
    # ---- Gen_apshape.v (C01): centred edges of one aperture position, extents of the three shape families ----
    dict(gen='Gen_apshape', kind='block', file='photutils/aperture/core.py', qual='PixelAperture._centered_edges',
         name='gen_centered_edges', vars=['xmin', 'xmax', 'ymin', 'ymax'], ret=['xmin', 'xmax', 'ymin', 'ymax'],
         sorts={'position': TUP(Q, Q), 'bbox': OBJ('BoundingBox')}),
    dict(gen='Gen_apshape', file='photutils/aperture/circle.py', qual='CircularAperture._xy_extents',
         name='gen_circle_extents', sorts=[]),
    dict(gen='Gen_apshape', file='photutils/aperture/circle.py', qual='CircularAnnulus._xy_extents',
         name='gen_circular_annulus_extents', sorts=[]),
    dict(gen='Gen_apshape', file='photutils/aperture/ellipse.py', qual='EllipticalMaskMixin._calc_extents',
         name='gen_ellipse_extents', sorts={'semimajor_axis': Q, 'semiminor_axis': Q, 'theta': None},
         abstract={'theta.to(u.radian).value': ('theta_rad', Q)}, elementwise=True,
         funcs={'np.cos': ('cos_', 1), 'np.sin': ('sin_', 1), 'np.sqrt': ('sqrt_', 1)}),
    dict(gen='Gen_apshape', file='photutils/aperture/rectangle.py', qual='RectangularMaskMixin._calc_extents',
         name='gen_rectangle_extents', sorts={'width': Q, 'height': Q, 'theta': None},
         abstract={'theta.to(u.radian).value': ('theta_rad', Q)},
         funcs={'math.cos': ('cos_', 1), 'math.sin': ('sin_', 1)}),
    # ---- Gen_apstats.v (C16) ----
    dict(gen='Gen_apstats', kind='var', var='origin', file='photutils/aperture/stats.py', qual='ApertureStats.centroid',
         name='gen_centroid_origin', sorts={}, elementwise=True),
]

SL2 = TUP(TUP(Z, Z), TUP(Z, Z))        # a pair of slices (y, x), each slice(start, stop)
IMAGES = 'photutils/datasets/images.py'
TARGETS += [
    # ---- Gen_render.v (C18) ----
    # photutils' wrapper of astropy's overlap_slices: the zero-size-slice patch.  The astropy call itself is a
    # declared abstract argument (its result: (slices_large, slices_small)).
    dict(gen='Gen_render', file='photutils/utils/cutouts.py', qual='_overlap_slices', name='gen_overlap_slices_patch',
         sorts={'large_array_shape': None, 'small_array_shape': None, 'position': None, 'mode': None},
         abstract={'overlap_slices(large_array_shape, small_array_shape, position, mode=mode)': ('astropy', TUP(SL2, SL2))}),
    # which model shape a source is rendered with (images.py, loop body of make_model_image)
    dict(gen='Gen_render', kind='block', file=IMAGES, qual='make_model_image', name='gen_mod_shape',
         vars=['mod_shape'], ret=['mod_shape'],
         sorts={'variable_shape': B, 'model_shape': OPT(TUP(Z, Z))},
         abstract={'model_shape[i]': ('row_shape', TUP(Z, Z)),
                   '_model_shape_from_bbox(model, bbox_factor=bbox_factor)': ('bbox_shape', TUP(Z, Z))}),
    dict(gen='Gen_render', kind='ret', file=IMAGES, qual='_model_shape_from_bbox', name='gen_shape_from_bbox',
         occurrence=0, sorts={'bbox': TUP(TUP(Q, Q), TUP(Q, Q))}, elementwise=True),
    dict(gen='Gen_render', kind='block', file=IMAGES, qual='make_model_image', name='gen_discretize_ranges',
         vars=['x_range', 'y_range'], ret=['x_range', 'y_range'], sorts={'slc_lg': SL2}),
]

PROF = 'photutils/profiles/core.py'
NV, DP, DE = 'self.normalization_value', "self.__dict__['profile']", "self.__dict__['profile_error']"
TARGETS += [
    # ---- Gen_profiles.v (C19) ----
    dict(gen='Gen_profiles', kind='test', file=PROF, qual='ProfileBase.normalize', name='gen_normalize_skipped',
         reads='normalization', sorts={'normalization': Q}),
    dict(gen='Gen_profiles', kind='block', file=PROF, qual='ProfileBase.normalize', name='gen_normalize_apply',
         vars=[NV, DP, DE], ret=[NV, DP, DE], cells={NV: Q, DP: Q, DE: Q}, sorts={NV: Q, 'normalization': Q},
         elementwise=True),
    dict(gen='Gen_profiles', kind='block', file=PROF, qual='ProfileBase.unnormalize', name='gen_unnormalize',
         vars=[NV, DP, DE], ret=[NV, DP, DE], cells={NV: Q, DP: Q, DE: Q}, sorts={NV: Q}, elementwise=True),
    dict(gen='Gen_profiles', kind='test', file=PROF, qual='ProfileBase._circular_apertures',
         name='gen_radius_has_no_aperture', reads='radius', sorts={'radius': Q}),
    dict(gen='Gen_profiles', kind='block', file=PROF, qual='ProfileBase._photometry', name='gen_photometry_one',
         vars=['flux', 'fluxerr', 'area'], ret=['flux', 'fluxerr', 'area'], sorts={'aperture': OPT(Z)},
         abstract={'aperture.do_photometry(self.data, error=self.error, mask=self.mask, method=self.method, '
                   'subpixels=self.subpixels)': ('phot', TUP(LIST(Q), LIST(Q))),
                   'aperture.area_overlap(self.data, mask=self.mask, method=self.method, subpixels=self.subpixels)':
                   ('area_overlap', Q)}),
    dict(gen='Gen_profiles', file='photutils/profiles/radial_profile.py', qual='RadialProfile.profile',
         name='gen_radial_profile_elem', sorts=[], elementwise=True, self_fields=[('_flux', Q), ('area', Q)]),
    dict(gen='Gen_profiles', file='photutils/profiles/radial_profile.py', qual='RadialProfile.profile_error',
         name='gen_radial_profile_error_elem', sorts=[], elementwise=True,
         self_fields=[('_fluxerr', Q), ('area', Q), ('error', OPT(Z))]),
]

DEBLEND = 'photutils/segmentation/deblend.py'
TARGETS += [
    # ---- Gen_deblend.v (C06): the argument guards, the 2*npixels selection, the label bookkeeping ----
    dict(gen='Gen_deblend', kind='test', file=DEBLEND, qual='deblend_sources', name='gen_nlevels_invalid',
         reads='nlevels', occurrence=0, sorts={'nlevels': Z}),
    dict(gen='Gen_deblend', kind='test', file=DEBLEND, qual='deblend_sources', name='gen_contrast_invalid',
         reads='contrast', occurrence=0, sorts={'contrast': Q}),
    dict(gen='Gen_deblend', kind='test', file=DEBLEND, qual='deblend_sources', name='gen_contrast_no_deblending',
         reads='contrast', occurrence=1, sorts={'contrast': Q}),
    dict(gen='Gen_deblend', kind='test', file=DEBLEND, qual='deblend_sources', name='gen_mode_invalid',
         reads='mode', occurrence=0, sorts={'mode': S}),
    dict(gen='Gen_deblend', kind='block', vars=['mask'], ret=['mask'], file=DEBLEND, qual='deblend_sources',
         name='gen_label_selected', sorts={'npixels': Z}, elementwise=True,
         abstract={'segment_img.areas[segment_img.get_indices(labels)]': ('area', Z)}),
    dict(gen='Gen_deblend', kind='block', file=DEBLEND, qual='deblend_sources', name='gen_max_label_serial',
         vars=['max_label'], ret=['max_label'], occurrences=[1], sorts={'max_label': Z},
         abstract={'len(new_labels)': ('n_new', Z)}),
    dict(gen='Gen_deblend', kind='block', file=DEBLEND, qual='deblend_sources', name='gen_max_label_parallel',
         vars=['max_label'], ret=['max_label'], occurrences=[2], sorts={'max_label': Z},
         abstract={'len(new_labels)': ('n_new', Z)}),
    dict(gen='Gen_deblend', kind='test', file=DEBLEND, qual='deblend_sources', name='gen_labels_overflow',
         reads='np.iinfo(segm_deblended.dtype).max', sorts={'max_label': Z},
         abstract={'np.iinfo(segm_deblended.dtype).max': ('dtype_max', Z)}),
    dict(gen='Gen_deblend', kind='test', file=DEBLEND, qual='_create_relabel_map', name='gen_relabel_no_labels',
         reads='labels', occurrence=0, sorts={}, abstract={'len(labels)': ('n', Z)}),
    dict(gen='Gen_deblend', kind='test', file=DEBLEND, qual='_create_relabel_map', name='gen_relabel_consecutive',
         reads='labels', occurrence=1, sorts={'start_label': Z},
         abstract={'len(labels)': ('n', Z), 'labels[0]': ('first', Z), 'labels[-1]': ('last', Z)}),
    dict(gen='Gen_deblend', kind='test', file=DEBLEND, qual='_SingleSourceDeblender.deblend_source',
         name='gen_single_marker', reads='len(_get_labels(markers)) == 1', sorts={},
         abstract={'len(_get_labels(markers))': ('n', Z)}),
]

CATALOG = 'photutils/segmentation/catalog.py'
TARGETS += [
    # ---- Gen_catindex.v (C08): the decision structure of SourceCatalog.__getitem__ ----
    dict(gen='Gen_catindex', kind='test', file=CATALOG, qual='SourceCatalog.__getitem__', name='gen_getitem_rejects_scalar',
         reads='self.isscalar', sorts={}),
    # keys = set(__dict__) & (set(_lazyproperties) | set(_extra_properties)), read as the membership predicate of one
    # key: each set(...) is a declared abstract bool "the key is in that set"; & and | on sets are and / or of memberships
    dict(gen='Gen_catindex', kind='block', file=CATALOG, qual='SourceCatalog.__getitem__', name='gen_getitem_key_copied',
         vars=['keys'], ret=['keys'], sorts={},
         abstract={'set(self.__dict__.keys())': ('in_dict', B), 'set(self._lazyproperties)': ('in_lazy', B),
                   'set(self._extra_properties)': ('in_extras', B)}),
    # which of the three indexing forms a cached value gets; the forms themselves are abstract tokens
    dict(gen='Gen_catindex', kind='block', file=CATALOG, qual='SourceCatalog.__getitem__', name='gen_getitem_value_form',
         vars=['val'], ret=['val'], occurrences=[0, 1, 2], sorts={'newcls': OBJ('SourceCatalog')},
         abstract={"key.startswith('_')": ('key_private', B), 'isinstance(value, np.ndarray)': ('value_is_ndarray', B),
                   'value[:, np.newaxis][index]': ('form_newaxis', Z), '[value[index]]': ('form_list', Z),
                   'value[index]': ('form_plain', Z)}),
]

TARGETS += [
    # ---- Gen_catalog.v (C07): per-source index arithmetic of SourceCatalog (the decorators as_scalar / use_detcat
    #      are declared transparent for the value of ONE source) ----
    dict(gen='Gen_catalog', kind='block', file=CATALOG, qual='SourceCatalog.cutout_centroid', name='gen_cutout_centroid',
         vars=['ycentroid', 'xcentroid'], ret=['xcentroid', 'ycentroid'], sorts={}, elementwise=True,
         abstract={'moments[:, 1, 0]': ('m10', Z), 'moments[:, 0, 1]': ('m01', Z), 'moments[:, 0, 0]': ('m00', Z)}),
    dict(gen='Gen_catalog', kind='ret', occurrence=0, file=CATALOG, qual='SourceCatalog.cutout_centroid',
         name='gen_cutout_centroid_pair', sorts={'xcentroid': Q, 'ycentroid': Q}, elementwise=True),
    dict(gen='Gen_catalog', file=CATALOG, qual='SourceCatalog.centroid', name='gen_centroid', sorts=[], elementwise=True,
         decorators_ok=['use_detcat', 'as_scalar'],
         self_fields=[('bbox_xmin', Z), ('bbox_ymin', Z), ('cutout_centroid', TUP(Q, Q))], vec=['self.cutout_centroid']),
    dict(gen='Gen_catalog', kind='ret', append='out', occurrence=0, file=CATALOG, qual='SourceCatalog.minval_index',
         name='gen_minval_index', sorts={'idx': TUP(Z, Z), 'slc': SL2}),
    dict(gen='Gen_catalog', kind='ret', append='out', occurrence=0, file=CATALOG, qual='SourceCatalog.maxval_index',
         name='gen_maxval_index', sorts={'idx': TUP(Z, Z), 'slc': SL2}),
    dict(gen='Gen_catalog', kind='block', file=CATALOG, qual='SourceCatalog._covariance', name='gen_covariance_delta',
         vars=['delta', 'delta2'], ret=['delta', 'delta2'], sorts={}),
]

# which generated files (in build order) + GenEq file each property's harness adds to its FILES
PROPERTY_FILES = {
    'C01': (['Gen_bbox', 'Gen_apcore', 'Gen_apshape'], ['C01_GenEq.v', 'C01_Shape_GenEq.v']),
    'C02': (['Gen_bbox'], ['C02_GenEq.v']),
    'C04': (['Gen_detect'], ['C04_GenEq.v']),
    'C05': (['Gen_segm'], ['C05_GenEq.v']),
    'C06': (['Gen_deblend'], ['C06_GenEq.v']),
    'C07': (['Gen_catalog'], ['C07_GenEq.v']),
    'C08': (['Gen_catindex'], ['C08_GenEq.v']),
    'C11': (['Gen_bkg'], ['C11_GenEq.v']),
    'C12': (['Gen_psfphot'], ['C12_GenEq.v']),
    'C13': (['Gen_psf'], ['C13_GenEq.v']),
    'C14': (['Gen_detection'], ['C14_GenEq.v']),
    'C16': (['Gen_bbox', 'Gen_apstats'], ['C16_GenEq.v']),
    'C17': (['Gen_round'], ['C17_GenEq.v']),
    'C18': (['Gen_render'], ['C18_GenEq.v']),
    'C19': (['Gen_profiles'], ['C19_GenEq.v']),
    'C20': (['Gen_isophote'], ['C20_GenEq.v']),
}

LAST_REPORT = []     # [(gen, name, 'ok' | 'UNTRANSLATABLE: ...', file, span, sha)]


def repo():
    return Path(os.environ.get('VERIF_REPO', '/repo'))


def translate_target(t, registry, cache):
    path = repo() / t['file']
    if t['file'] not in cache:
        try:
            src = path.read_text()
            cache[t['file']] = (src.splitlines(), ast.parse(src))
        except (OSError, SyntaxError) as e:
            raise Untranslatable(t['file'], getattr(e, 'lineno', 0) or 0, type(e).__name__, str(e))
    lines, tree = cache[t['file']]
    fdef, cls = find_def(tree, t['qual'], t['file'])
    classes = CLASSES
    if t.get('self_fields') is not None and cls is not None:       # a `def` target whose class is not in CLASSES
        classes = dict(CLASSES)
        classes[cls] = {'fields': list(t['self_fields'])}
    tr = Translator(t['file'], classes, registry, elementwise=t.get('elementwise', False), funcs=t.get('funcs'))
    if t.get('kind') == 'var':
        return tr.var_chain(fdef, t['var'], lines, t['name'], cls, t['sorts'], t.get('fields')), cls
    if t.get('kind') in ('block', 'write'):
        return tr.stmt_block(fdef, lines, t['name'], cls, t['sorts'], fields=t.get('fields'), vars=t.get('vars', ()),
                             ret=t.get('ret'), occurrences=t.get('occurrences'), cells=t.get('cells'),
                             abstract=t.get('abstract'), vec=t.get('vec', ()), write=t.get('write')), cls
    if t.get('kind') == 'ret':
        return tr.ret_expr(fdef, lines, t['name'], cls, t['sorts'], fields=t.get('fields'),
                           occurrence=t.get('occurrence', 0), append=t.get('append'), abstract=t.get('abstract'),
                           vec=t.get('vec', ())), cls
    if t.get('kind') == 'test':
        return tr.if_test(fdef, lines, t['name'], cls, t['sorts'], fields=t.get('fields'), reads=t['reads'],
                          occurrence=t.get('occurrence'), abstract=t.get('abstract'), vec=t.get('vec', ())), cls
    if t.get('no_self'):
        # a method that never reads self: translate it as a plain function of its other arguments
        for n in ast.walk(fdef):
            if isinstance(n, ast.Name) and n.id == 'self':
                raise Untranslatable(t['file'], n.lineno, n, 'method declared no_self reads self')
        fdef2 = ast.FunctionDef(name=fdef.name, args=ast.arguments(
            posonlyargs=[], args=fdef.args.args[1:], vararg=fdef.args.vararg, kwonlyargs=fdef.args.kwonlyargs,
            kw_defaults=fdef.args.kw_defaults, kwarg=fdef.args.kwarg, defaults=[]),
            body=fdef.body, decorator_list=fdef.decorator_list, lineno=fdef.lineno, end_lineno=fdef.end_lineno,
            col_offset=fdef.col_offset)
        fn = tr.function(fdef2, lines, t['name'], None, t['sorts'], abstract=t.get('abstract'), vec=t.get('vec', ()))
        fn.kind = 'function'
        return fn, None
    return tr.function(fdef, lines, t['name'], cls, t['sorts'], abstract=t.get('abstract'), vec=t.get('vec', ()),
                       decorators_ok=t.get('decorators_ok', ())), cls


def generate_all():
    """{relpath under coq/: text}; never raises for an untranslatable target (its definition is omitted)"""
    LAST_REPORT.clear()
    registry, cache, texts = {}, {}, {}
    for t in TARGETS:
        rel = f"gen/{t['gen']}.v"
        texts.setdefault(rel, [f"(* GENERATED by harness/translate_all.py from the source text of $VERIF_REPO -- do not edit,\n"
                               f"   do not commit.  Tied to the hand-written models by the committed coq/CNN_GenEq.v files. *)\n"
                               + PREAMBLE])
        try:
            fn, cls = translate_target(t, registry, cache)
        except Untranslatable as e:
            texts[rel].append(f"(* {t['name']}: NOT TRANSLATED -- {str(e).replace('*)', '* )')} *)\n")
            LAST_REPORT.append((t['gen'], t['name'], f'UNTRANSLATABLE: {e}', t['file'], None, None))
            continue
        except RecursionError as e:      # pragma: no cover
            texts[rel].append(f"(* {t['name']}: NOT TRANSLATED -- {type(e).__name__} *)\n")
            LAST_REPORT.append((t['gen'], t['name'], f'UNTRANSLATABLE: {type(e).__name__}', t['file'], None, None))
            continue
        if t.get('kind', 'def') == 'def':
            registry[(cls, t['qual'].split('.')[-1])] = fn
        texts[rel].append(fn.text)
        LAST_REPORT.append((t['gen'], t['name'], 'ok', t['file'], fn.span, fn.sha))
    return {rel: '\n'.join(parts) for rel, parts in texts.items()}


def generated_for(pid):
    """({relpath: text}, [files to add to FILES, in build order: generated files then the GenEq file])"""
    gens, eqs = PROPERTY_FILES[pid]
    allg = generate_all()
    gen = {f'gen/{g}.v': allg[f'gen/{g}.v'] for g in gens}
    return gen, ['lib/PyGen.v'] + [f'gen/{g}.v' for g in gens] + eqs


def untranslatable_for(pid):
    """[(target name, message)] of the targets of property `pid` that could not be translated by the last
    generate_all() / generated_for() call -- for a `translator:<target>` report; their definitions are absent
    from the generated files, so the GenEq file of the property does not build either."""
    gens, _ = PROPERTY_FILES[pid]
    return [(name, status) for gen, name, status, _, _, _ in LAST_REPORT if gen in gens and status != 'ok']


def write_all(outdir=None):
    outdir = Path(outdir) if outdir else COQ
    texts = generate_all()
    for rel, text in texts.items():
        p = outdir / rel
        p.parent.mkdir(parents=True, exist_ok=True)
        if (not p.exists()) or p.read_text() != text:
            p.write_text(text)
    return texts


def main(argv=None):
    argv = sys.argv[1:] if argv is None else argv
    write_all(argv[0] if argv else None)
    for gen, name, status, file, span, sha in LAST_REPORT:
        where = f'{file}:{span[0]}-{span[1]} sha1={sha[:12]}' if span else file
        print(f'translate: {gen}.{name}: {status}  [{where}]')
    return 0


if __name__ == '__main__':
    sys.exit(main())
