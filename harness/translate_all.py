"""Regenerate coq/gen/Gen_*.v from the CURRENT source text of $VERIF_REPO (default /repo).

    generate_all()      -> {'gen/Gen_bbox.v': text, ...}   (also fills LAST_REPORT)
    generated_for(pid)  -> ({relpath: text}, [extra FILES in build order])  for harness/cNN.py:
                               gen, extra = generated_for(PID)
                               ctx.build(FILES_BEFORE + extra + [property file], generated=gen)
    main()              -> writes coq/gen/*.v (bin/setup); one line per target; always exit 0.

A target that cannot be translated gets NO definition in its generated file (only a comment), so the
committed CNN_GenEq.v that mentions it fails to build = a broken proof obligation (fail closed).
The sorts below are the declared Python types of the arguments (the precondition of each tie).
"""
import ast
import os
import sys
from pathlib import Path

from harness.py2coq import B, OBJ, OPT, PREAMBLE, Q, S, TUP, Z, Translator, Untranslatable, find_def

VERIF = Path(__file__).resolve().parent.parent
COQ = Path(os.environ.get('VERIF_COQ_DIR') or VERIF / 'coq')

BBOX = 'photutils/aperture/bounding_box.py'
CLASSES = {
    'BoundingBox': {'fields': [('ixmin', Z), ('ixmax', Z), ('iymin', Z), ('iymax', Z)]},
    'EllipseGeometry': {'fields': [('sma', Q), ('linear_growth', B)]},
    'Background2D': {'fields': [('exclude_percentile', Q), ('_box_npixels', Z)]},
    # argument sorts that are not photutils classes
    'ndarray2': {'fields': [('shape', TUP(Z, Z))], 'pytypes': ['np.ndarray']},          # a 2-D numpy array: only .shape is read
    'SegmentationImage': {'fields': [('shape', TUP(Z, Z)), ('nlabels', Z)]},
    # a row of the PSF-photometry results table; the keys are the column-name variables of _define_flags
    'flags_row': {'rec': True, 'fields': [('npixfit', Z), ('xcolname', Q), ('ycolname', Q), ('fluxcolname', Q)]},
    'CircularAperture': {'fields': [('r', Q)]},
    'CircularAnnulus': {'fields': [('r_out', Q)]},
    'ApertureStats': {'fields': [('bbox_xmin', Z), ('bbox_ymin', Z)]},
    'StarFinderKernel': {'fields': [('yradius', Z), ('xradius', Z)], 'pytypes': ['_StarFinderKernel']},
}

# kind 'def': a whole function / method; `sorts` = the sorts of its parameters after self / cls, in order.  kind 'var': the value of a local after its assignments
# (py2coq.Translator.var_chain).  Order matters: callees before callers.
TARGETS = [
    # ---- Gen_bbox.v (C01, C02) ----
    dict(gen='Gen_bbox', file=BBOX, qual='BoundingBox.__init__', name='gen_bbox_init',
         sorts=[Z, Z, Z, Z]),
    dict(gen='Gen_bbox', file=BBOX, qual='BoundingBox.from_float', name='gen_from_float',
         sorts=[Q, Q, Q, Q]),
    dict(gen='Gen_bbox', file=BBOX, qual='BoundingBox.center', name='gen_bbox_center', sorts=[]),
    dict(gen='Gen_bbox', file=BBOX, qual='BoundingBox.shape', name='gen_bbox_shape', sorts=[]),
    dict(gen='Gen_bbox', file=BBOX, qual='BoundingBox.extent', name='gen_bbox_extent', sorts=[]),
    dict(gen='Gen_bbox', file=BBOX, qual='BoundingBox.get_overlap_slices', name='gen_get_overlap_slices',
         sorts=[TUP(Z, Z)]),
    dict(gen='Gen_bbox', file=BBOX, qual='BoundingBox.union', name='gen_bbox_union',
         sorts=[OBJ('BoundingBox')]),
    dict(gen='Gen_bbox', file=BBOX, qual='BoundingBox.intersection', name='gen_bbox_intersection',
         sorts=[OBJ('BoundingBox')]),
    dict(gen='Gen_bbox', file=BBOX, qual='BoundingBox.__or__', name='gen_bbox_or',
         sorts=[OBJ('BoundingBox')]),
    dict(gen='Gen_bbox', file=BBOX, qual='BoundingBox.__and__', name='gen_bbox_and',
         sorts=[OBJ('BoundingBox')]),
    # ---- Gen_apcore.v (C01) ----
    dict(gen='Gen_apcore', file='photutils/aperture/core.py', qual='PixelAperture._translate_mask_mode',
         name='gen_translate_mask_mode', sorts=[S, Z, B]),
    # ---- Gen_round.v (C17) ----
    dict(gen='Gen_round', file='photutils/utils/_round.py', qual='py2intround', name='gen_py2intround',
         sorts=[Q], elementwise=True),
    # ---- Gen_psf.v (C13) ----
    dict(gen='Gen_psf', file='photutils/psf/gridded_models.py', qual='GriddedPSFModel._calc_bilinear_weights',
         name='gen_calc_bilinear_weights', sorts=[Q, Q, TUP(Q, Q, Q, Q)], no_self=True),
    dict(gen='Gen_psf', kind='var', var='xi', file='photutils/psf/image_models.py', qual='ImagePSF.evaluate',
         name='gen_imagepsf_xi', sorts={'x': Q, 'x_0': Q}, elementwise=True,
         fields=[('oversampling', TUP(Z, Z)), ('_origin', TUP(Q, Q))]),
    dict(gen='Gen_psf', kind='var', var='yi', file='photutils/psf/image_models.py', qual='ImagePSF.evaluate',
         name='gen_imagepsf_yi', sorts={'y': Q, 'y_0': Q}, elementwise=True,
         fields=[('oversampling', TUP(Z, Z)), ('_origin', TUP(Q, Q))]),
    dict(gen='Gen_psf', kind='var', var='invalid', file='photutils/psf/image_models.py', qual='ImagePSF.evaluate',
         name='gen_imagepsf_invalid', sorts={'nx': Z, 'ny': Z, 'xi': Q, 'yi': Q}, elementwise=True),
    dict(gen='Gen_psf', kind='var', var='xi', file='photutils/psf/gridded_models.py', qual='GriddedPSFModel.evaluate',
         name='gen_gridded_xi', sorts={'x': Q, 'x_0': Q}, elementwise=True,
         fields=[('oversampling', TUP(Z, Z)), ('origin', TUP(Q, Q))]),
    dict(gen='Gen_psf', kind='var', var='yi', file='photutils/psf/gridded_models.py', qual='GriddedPSFModel.evaluate',
         name='gen_gridded_yi', sorts={'y': Q, 'y_0': Q}, elementwise=True,
         fields=[('oversampling', TUP(Z, Z)), ('origin', TUP(Q, Q))]),
    dict(gen='Gen_psf', kind='var', var='invalid', file='photutils/psf/gridded_models.py',
         qual='GriddedPSFModel.evaluate', name='gen_gridded_invalid',
         sorts={'nx': Z, 'ny': Z, 'xi': Q, 'yi': Q}, elementwise=True),
    # ---- Gen_isophote.v (C20) ----
    dict(gen='Gen_isophote', file='photutils/isophote/geometry.py', qual='EllipseGeometry.update_sma',
         name='gen_update_sma', sorts=[Q]),
    dict(gen='Gen_isophote', file='photutils/isophote/geometry.py', qual='EllipseGeometry.reset_sma',
         name='gen_reset_sma', sorts=[Q]),
    # ---- Gen_bkg.v (C11) ----
    dict(gen='Gen_bkg', file='photutils/background/background_2d.py', qual='Background2D._good_npixels_threshold',
         name='gen_good_npixels_threshold', sorts=[]),
    dict(gen='Gen_bkg', kind='var', var='box_mask', file='photutils/background/background_2d.py',
         qual='Background2D._compute_box_statistics', name='gen_box_mask', sorts={'ngood': Z}, elementwise=True),
]

TARGETS += [
    # ---- Gen_detection.v (C14) ----
    dict(gen='Gen_detection', kind='block', file='photutils/detection/core.py', qual='StarFinderBase._find_stars',
         name='gen_find_stars_border', vars=['border_width'], ret=['border_width'],
         sorts={'exclude_border': B, 'kernel': OBJ('ndarray2')}),
    dict(gen='Gen_detection', kind='block', file='photutils/detection/core.py', qual='StarFinderBase._find_stars',
         name='gen_find_stars_border_kernel', vars=['border_width'], ret=['border_width'],
         sorts={'exclude_border': B, 'kernel': OBJ('StarFinderKernel')}),
    dict(gen='Gen_detection', kind='var', var='size', file='photutils/detection/core.py', qual='StarFinderBase._find_stars',
         name='gen_find_stars_size', sorts={'min_separation': Q}),
    dict(gen='Gen_detection', kind='block', file='photutils/detection/core.py', qual='StarFinderBase._find_stars',
         name='gen_find_stars_fp_elem', vars=['footprint'], ret=['footprint'], occurrences=[2],
         sorts={'xx': Z, 'yy': Z, 'min_separation': Q}, elementwise=True),
    dict(gen='Gen_detection', kind='write', file='photutils/detection/peakfinder.py', qual='find_peaks',
         name='gen_find_peaks_border_hit', write=('peak_goodmask', 2), sorts={'ny': Z, 'nx': Z}),
]

SEGCORE = 'photutils/segmentation/core.py'
TARGETS += [
    # ---- Gen_segm.v (C05) ----
    dict(gen='Gen_segm', kind='write', file=SEGCORE, qual='SegmentationImage.remove_border_labels',
         name='gen_border_axis_hit', write=('border_mask', 1), sorts={'border_width': Z}),
    dict(gen='Gen_segm', kind='test', file=SEGCORE, qual='SegmentationImage.remove_border_labels',
         name='gen_border_width_guard', reads='border_width', sorts={'border_width': Z}),
    dict(gen='Gen_segm', kind='test', file=SEGCORE, qual='SegmentationImage.reassign_labels',
         name='gen_reassign_new_label_guard', reads='new_label', sorts={'new_label': Z}),
    dict(gen='Gen_segm', kind='test', file=SEGCORE, qual='SegmentationImage.relabel_consecutive',
         name='gen_relabel_start_guard', reads='start_label', occurrence=0, sorts={'start_label': Z}),
    dict(gen='Gen_segm', kind='test', file=SEGCORE, qual='SegmentationImage.relabel_consecutive',
         name='gen_relabel_overflow_guard', reads='start_label', occurrence=1, sorts={'start_label': Z},
         abstract={'np.iinfo(self.data.dtype).max': ('dtype_max', Z)}),
    dict(gen='Gen_segm', kind='test', file=SEGCORE, qual='SegmentationImage.relabel_consecutive',
         name='gen_relabel_already_consecutive', reads='start_label', occurrence=2, sorts={'start_label': Z},
         abstract={'self.labels[0]': ('labels_first', Z), 'self.labels[-1]': ('labels_last', Z)}),
]

PSFPHOT = 'photutils/psf/photometry.py'
TARGETS += [
    # ---- Gen_psfphot.v (C12) ----
    dict(gen='Gen_psfphot', kind='block', file=PSFPHOT, qual='PSFPhotometry._define_flags', name='gen_flags_1_2_4',
         vars=['flags[index]'], ret=['flags[index]'], occurrences=[0, 1, 2], cells={'flags[index]': Z},
         sorts={'flags[index]': Z, 'row': OBJ('flags_row'), 'shape': TUP(Z, Z)}, fields=[('fit_shape', TUP(Z, Z))]),
    dict(gen='Gen_psfphot', file=PSFPHOT, qual='PSFPhotometry._get_invalid_positions', name='gen_invalid_position',
         sorts={'init_params': None, 'shape': TUP(Z, Z)}, elementwise=True, self_fields=[('fit_shape', TUP(Z, Z))],
         abstract={"init_params[self._param_maps['init_cols']['x']]": ('x', Q),
                   "init_params[self._param_maps['init_cols']['y']]": ('y', Q)},
         vec=['self.fit_shape', 'shape']),
]

TARGETS += [
    # ---- Gen_detect.v (C04) ----
    dict(gen='Gen_detect', kind='block', file='photutils/segmentation/utils.py', qual='_make_binary_structure',
         name='gen_binary_structure_2d', vars=['footprint'], ret=['footprint'], occurrences=[1, 2],
         sorts={'connectivity': Z}),
    dict(gen='Gen_detect', kind='block', file='photutils/segmentation/detect.py', qual='_detect_sources',
         name='gen_segment_pixel', vars=['segment_img'], ret=['segment_img'], occurrences=[0, 1],
         sorts={'data': Z, 'threshold': Z, 'inverse_mask': OPT(B)}, elementwise=True),
    dict(gen='Gen_detect', kind='test', file='photutils/segmentation/detect.py', qual='_detect_sources',
         name='gen_segment_too_small', reads='segment_mask', sorts={'npixels': Z},
         abstract={'np.count_nonzero(segment_mask)': ('count', Z)}),
    dict(gen='Gen_detect', kind='test', file='photutils/segmentation/detect.py', qual='detect_sources',
         name='gen_npixels_invalid', reads='npixels', sorts={'npixels': Q}),
]

TARGETS += [
    # ---- Gen_apshape.v (C01): centred edges of one aperture position, extents of the three shape families ----
    dict(gen='Gen_apshape', kind='block', file='photutils/aperture/core.py', qual='PixelAperture._centered_edges',
         name='gen_centered_edges', vars=['xmin', 'xmax', 'ymin', 'ymax'], ret=['xmin', 'xmax', 'ymin', 'ymax'],
         sorts={'position': TUP(Q, Q), 'bbox': OBJ('BoundingBox')}),
    dict(gen='Gen_apshape', file='photutils/aperture/circle.py', qual='CircularAperture._xy_extents',
         name='gen_circle_extents', sorts=[]),
    dict(gen='Gen_apshape', file='photutils/aperture/circle.py', qual='CircularAnnulus._xy_extents',
         name='gen_circular_annulus_extents', sorts=[]),
    dict(gen='Gen_apshape', file='photutils/aperture/ellipse.py', qual='EllipticalMaskMixin._calc_extents',
         name='gen_ellipse_extents', sorts={'semimajor_axis': Q, 'semiminor_axis': Q, 'theta': None},
         abstract={'theta.to(u.radian).value': ('theta_rad', Q)}, elementwise=True,
         funcs={'np.cos': ('cos_', 1), 'np.sin': ('sin_', 1), 'np.sqrt': ('sqrt_', 1)}),
    dict(gen='Gen_apshape', file='photutils/aperture/rectangle.py', qual='RectangularMaskMixin._calc_extents',
         name='gen_rectangle_extents', sorts={'width': Q, 'height': Q, 'theta': None},
         abstract={'theta.to(u.radian).value': ('theta_rad', Q)},
         funcs={'math.cos': ('cos_', 1), 'math.sin': ('sin_', 1)}),
    # ---- Gen_apstats.v (C16) ----
    dict(gen='Gen_apstats', kind='var', var='origin', file='photutils/aperture/stats.py', qual='ApertureStats.centroid',
         name='gen_centroid_origin', sorts={}, elementwise=True),
]

# which generated files (in build order) + GenEq file each property's harness adds to its FILES
PROPERTY_FILES = {
    'C01': (['Gen_bbox', 'Gen_apcore', 'Gen_apshape'], ['C01_GenEq.v', 'C01_Shape_GenEq.v']),
    'C02': (['Gen_bbox'], ['C02_GenEq.v']),
    'C04': (['Gen_detect'], ['C04_GenEq.v']),
    'C05': (['Gen_segm'], ['C05_GenEq.v']),
    'C11': (['Gen_bkg'], ['C11_GenEq.v']),
    'C12': (['Gen_psfphot'], ['C12_GenEq.v']),
    'C13': (['Gen_psf'], ['C13_GenEq.v']),
    'C14': (['Gen_detection'], ['C14_GenEq.v']),
    'C16': (['Gen_bbox', 'Gen_apstats'], ['C16_GenEq.v']),
    'C17': (['Gen_round'], ['C17_GenEq.v']),
    'C20': (['Gen_isophote'], ['C20_GenEq.v']),
}

LAST_REPORT = []     # [(gen, name, 'ok' | 'UNTRANSLATABLE: ...', file, span, sha)]


def repo():
    return Path(os.environ.get('VERIF_REPO', '/repo'))


def translate_target(t, registry, cache):
    path = repo() / t['file']
    if t['file'] not in cache:
        try:
            src = path.read_text()
            cache[t['file']] = (src.splitlines(), ast.parse(src))
        except (OSError, SyntaxError) as e:
            raise Untranslatable(t['file'], getattr(e, 'lineno', 0) or 0, type(e).__name__, str(e))
    lines, tree = cache[t['file']]
    fdef, cls = find_def(tree, t['qual'], t['file'])
    classes = CLASSES
    if t.get('self_fields') is not None and cls is not None:       # a `def` target whose class is not in CLASSES
        classes = dict(CLASSES)
        classes[cls] = {'fields': list(t['self_fields'])}
    tr = Translator(t['file'], classes, registry, elementwise=t.get('elementwise', False), funcs=t.get('funcs'))
    if t.get('kind') == 'var':
        return tr.var_chain(fdef, t['var'], lines, t['name'], cls, t['sorts'], t.get('fields')), cls
    if t.get('kind') in ('block', 'write'):
        return tr.stmt_block(fdef, lines, t['name'], cls, t['sorts'], fields=t.get('fields'), vars=t.get('vars', ()),
                             ret=t.get('ret'), occurrences=t.get('occurrences'), cells=t.get('cells'),
                             abstract=t.get('abstract'), vec=t.get('vec', ()), write=t.get('write')), cls
    if t.get('kind') == 'test':
        return tr.if_test(fdef, lines, t['name'], cls, t['sorts'], fields=t.get('fields'), reads=t['reads'],
                          occurrence=t.get('occurrence'), abstract=t.get('abstract'), vec=t.get('vec', ())), cls
    if t.get('no_self'):
        # a method that never reads self: translate it as a plain function of its other arguments
        for n in ast.walk(fdef):
            if isinstance(n, ast.Name) and n.id == 'self':
                raise Untranslatable(t['file'], n.lineno, n, 'method declared no_self reads self')
        fdef2 = ast.FunctionDef(name=fdef.name, args=ast.arguments(
            posonlyargs=[], args=fdef.args.args[1:], vararg=fdef.args.vararg, kwonlyargs=fdef.args.kwonlyargs,
            kw_defaults=fdef.args.kw_defaults, kwarg=fdef.args.kwarg, defaults=[]),
            body=fdef.body, decorator_list=fdef.decorator_list, lineno=fdef.lineno, end_lineno=fdef.end_lineno,
            col_offset=fdef.col_offset)
        fn = tr.function(fdef2, lines, t['name'], None, t['sorts'], abstract=t.get('abstract'), vec=t.get('vec', ()))
        fn.kind = 'function'
        return fn, None
    return tr.function(fdef, lines, t['name'], cls, t['sorts'], abstract=t.get('abstract'), vec=t.get('vec', ())), cls


def generate_all():
    """{relpath under coq/: text}; never raises for an untranslatable target (its definition is omitted)"""
    LAST_REPORT.clear()
    registry, cache, texts = {}, {}, {}
    for t in TARGETS:
        rel = f"gen/{t['gen']}.v"
        texts.setdefault(rel, [f"(* GENERATED by harness/translate_all.py from the source text of $VERIF_REPO -- do not edit,\n"
                               f"   do not commit.  Tied to the hand-written models by the committed coq/CNN_GenEq.v files. *)\n"
                               + PREAMBLE])
        try:
            fn, cls = translate_target(t, registry, cache)
        except Untranslatable as e:
            texts[rel].append(f"(* {t['name']}: NOT TRANSLATED -- {str(e).replace('*)', '* )')} *)\n")
            LAST_REPORT.append((t['gen'], t['name'], f'UNTRANSLATABLE: {e}', t['file'], None, None))
            continue
        except RecursionError as e:      # pragma: no cover
            texts[rel].append(f"(* {t['name']}: NOT TRANSLATED -- {type(e).__name__} *)\n")
            LAST_REPORT.append((t['gen'], t['name'], f'UNTRANSLATABLE: {type(e).__name__}', t['file'], None, None))
            continue
        if t.get('kind', 'def') == 'def':
            registry[(cls, t['qual'].split('.')[-1])] = fn
        texts[rel].append(fn.text)
        LAST_REPORT.append((t['gen'], t['name'], 'ok', t['file'], fn.span, fn.sha))
    return {rel: '\n'.join(parts) for rel, parts in texts.items()}


def generated_for(pid):
    """({relpath: text}, [files to add to FILES, in build order: generated files then the GenEq file])"""
    gens, eqs = PROPERTY_FILES[pid]
    allg = generate_all()
    gen = {f'gen/{g}.v': allg[f'gen/{g}.v'] for g in gens}
    return gen, ['lib/PyGen.v'] + [f'gen/{g}.v' for g in gens] + eqs


def write_all(outdir=None):
    outdir = Path(outdir) if outdir else COQ
    texts = generate_all()
    for rel, text in texts.items():
        p = outdir / rel
        p.parent.mkdir(parents=True, exist_ok=True)
        if (not p.exists()) or p.read_text() != text:
            p.write_text(text)
    return texts


def main(argv=None):
    argv = sys.argv[1:] if argv is None else argv
    write_all(argv[0] if argv else None)
    for gen, name, status, file, span, sha in LAST_REPORT:
        where = f'{file}:{span[0]}-{span[1]} sha1={sha[:12]}' if span else file
        print(f'translate: {gen}.{name}: {status}  [{where}]')
    return 0


if __name__ == '__main__':
    sys.exit(main())
