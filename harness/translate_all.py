"""Regenerate coq/gen/Gen_*.v from the CURRENT source text of $VERIF_REPO (default /repo).

    generate_all()      -> {'gen/Gen_bbox.v': text, ...}   (also fills LAST_REPORT)
    generated_for(pid)  -> ({relpath: text}, [extra FILES in build order])  for harness/cNN.py:
                               gen, extra = generated_for(PID)
                               ctx.build(FILES_BEFORE + extra + [property file], generated=gen)
    main()              -> writes coq/gen/*.v (bin/setup); one line per target; always exit 0.

A target that cannot be translated gets NO definition in its generated file (only a comment), so the
committed CNN_GenEq.v that mentions it fails to build = a broken proof obligation (fail closed).
The sorts below are the declared Python types of the arguments (the precondition of each tie).
"""
import ast
import os
import sys
from pathlib import Path

from harness.py2coq import B, OBJ, PREAMBLE, Q, S, TUP, Z, Translator, Untranslatable, find_def

VERIF = Path(__file__).resolve().parent.parent
COQ = Path(os.environ.get('VERIF_COQ_DIR') or VERIF / 'coq')

BBOX = 'photutils/aperture/bounding_box.py'
CLASSES = {
    'BoundingBox': {'fields': [('ixmin', Z), ('ixmax', Z), ('iymin', Z), ('iymax', Z)]},
    'EllipseGeometry': {'fields': [('sma', Q), ('linear_growth', B)]},
    'Background2D': {'fields': [('exclude_percentile', Q), ('_box_npixels', Z)]},
}

# kind 'def': a whole function / method; `sorts` = the sorts of its parameters after self / cls, in order.  kind 'var': the value of a local after its assignments
# (py2coq.Translator.var_chain).  Order matters: callees before callers.
TARGETS = [
    # ---- Gen_bbox.v (C01, C02) ----
    dict(gen='Gen_bbox', file=BBOX, qual='BoundingBox.__init__', name='gen_bbox_init',
         sorts=[Z, Z, Z, Z]),
    dict(gen='Gen_bbox', file=BBOX, qual='BoundingBox.from_float', name='gen_from_float',
         sorts=[Q, Q, Q, Q]),
    dict(gen='Gen_bbox', file=BBOX, qual='BoundingBox.center', name='gen_bbox_center', sorts=[]),
    dict(gen='Gen_bbox', file=BBOX, qual='BoundingBox.shape', name='gen_bbox_shape', sorts=[]),
    dict(gen='Gen_bbox', file=BBOX, qual='BoundingBox.extent', name='gen_bbox_extent', sorts=[]),
    dict(gen='Gen_bbox', file=BBOX, qual='BoundingBox.get_overlap_slices', name='gen_get_overlap_slices',
         sorts=[TUP(Z, Z)]),
    dict(gen='Gen_bbox', file=BBOX, qual='BoundingBox.union', name='gen_bbox_union',
         sorts=[OBJ('BoundingBox')]),
    dict(gen='Gen_bbox', file=BBOX, qual='BoundingBox.intersection', name='gen_bbox_intersection',
         sorts=[OBJ('BoundingBox')]),
    dict(gen='Gen_bbox', file=BBOX, qual='BoundingBox.__or__', name='gen_bbox_or',
         sorts=[OBJ('BoundingBox')]),
    dict(gen='Gen_bbox', file=BBOX, qual='BoundingBox.__and__', name='gen_bbox_and',
         sorts=[OBJ('BoundingBox')]),
    # ---- Gen_apcore.v (C01) ----
    dict(gen='Gen_apcore', file='photutils/aperture/core.py', qual='PixelAperture._translate_mask_mode',
         name='gen_translate_mask_mode', sorts=[S, Z, B]),
    # ---- Gen_round.v (C17) ----
    dict(gen='Gen_round', file='photutils/utils/_round.py', qual='py2intround', name='gen_py2intround',
         sorts=[Q], elementwise=True),
    # ---- Gen_psf.v (C13) ----
    dict(gen='Gen_psf', file='photutils/psf/gridded_models.py', qual='GriddedPSFModel._calc_bilinear_weights',
         name='gen_calc_bilinear_weights', sorts=[Q, Q, TUP(Q, Q, Q, Q)], no_self=True),
    dict(gen='Gen_psf', kind='var', var='xi', file='photutils/psf/image_models.py', qual='ImagePSF.evaluate',
         name='gen_imagepsf_xi', sorts={'x': Q, 'x_0': Q}, elementwise=True,
         fields=[('oversampling', TUP(Z, Z)), ('_origin', TUP(Q, Q))]),
    dict(gen='Gen_psf', kind='var', var='yi', file='photutils/psf/image_models.py', qual='ImagePSF.evaluate',
         name='gen_imagepsf_yi', sorts={'y': Q, 'y_0': Q}, elementwise=True,
         fields=[('oversampling', TUP(Z, Z)), ('_origin', TUP(Q, Q))]),
    dict(gen='Gen_psf', kind='var', var='invalid', file='photutils/psf/image_models.py', qual='ImagePSF.evaluate',
         name='gen_imagepsf_invalid', sorts={'nx': Z, 'ny': Z, 'xi': Q, 'yi': Q}, elementwise=True),
    dict(gen='Gen_psf', kind='var', var='xi', file='photutils/psf/gridded_models.py', qual='GriddedPSFModel.evaluate',
         name='gen_gridded_xi', sorts={'x': Q, 'x_0': Q}, elementwise=True,
         fields=[('oversampling', TUP(Z, Z)), ('origin', TUP(Q, Q))]),
    dict(gen='Gen_psf', kind='var', var='yi', file='photutils/psf/gridded_models.py', qual='GriddedPSFModel.evaluate',
         name='gen_gridded_yi', sorts={'y': Q, 'y_0': Q}, elementwise=True,
         fields=[('oversampling', TUP(Z, Z)), ('origin', TUP(Q, Q))]),
    dict(gen='Gen_psf', kind='var', var='invalid', file='photutils/psf/gridded_models.py',
         qual='GriddedPSFModel.evaluate', name='gen_gridded_invalid',
         sorts={'nx': Z, 'ny': Z, 'xi': Q, 'yi': Q}, elementwise=True),
    # ---- Gen_isophote.v (C20) ----
    dict(gen='Gen_isophote', file='photutils/isophote/geometry.py', qual='EllipseGeometry.update_sma',
         name='gen_update_sma', sorts=[Q]),
    dict(gen='Gen_isophote', file='photutils/isophote/geometry.py', qual='EllipseGeometry.reset_sma',
         name='gen_reset_sma', sorts=[Q]),
    # ---- Gen_bkg.v (C11) ----
    dict(gen='Gen_bkg', file='photutils/background/background_2d.py', qual='Background2D._good_npixels_threshold',
         name='gen_good_npixels_threshold', sorts=[]),
    dict(gen='Gen_bkg', kind='var', var='box_mask', file='photutils/background/background_2d.py',
         qual='Background2D._compute_box_statistics', name='gen_box_mask', sorts={'ngood': Z}, elementwise=True),
]

# which generated files (in build order) + GenEq file each property's harness adds to its FILES
PROPERTY_FILES = {
    'C01': (['Gen_bbox', 'Gen_apcore'], ['C01_GenEq.v']),
    'C02': (['Gen_bbox'], ['C02_GenEq.v']),
    'C11': (['Gen_bkg'], ['C11_GenEq.v']),
    'C13': (['Gen_psf'], ['C13_GenEq.v']),
    'C17': (['Gen_round'], ['C17_GenEq.v']),
    'C20': (['Gen_isophote'], ['C20_GenEq.v']),
}

LAST_REPORT = []     # [(gen, name, 'ok' | 'UNTRANSLATABLE: ...', file, span, sha)]


def repo():
    return Path(os.environ.get('VERIF_REPO', '/repo'))


def translate_target(t, registry, cache):
    path = repo() / t['file']
    if t['file'] not in cache:
        try:
            src = path.read_text()
            cache[t['file']] = (src.splitlines(), ast.parse(src))
        except (OSError, SyntaxError) as e:
            raise Untranslatable(t['file'], getattr(e, 'lineno', 0) or 0, type(e).__name__, str(e))
    lines, tree = cache[t['file']]
    fdef, cls = find_def(tree, t['qual'], t['file'])
    tr = Translator(t['file'], CLASSES, registry, elementwise=t.get('elementwise', False))
    if t.get('kind') == 'var':
        return tr.var_chain(fdef, t['var'], lines, t['name'], cls, t['sorts'], t.get('fields')), cls
    if t.get('no_self'):
        # a method that never reads self: translate it as a plain function of its other arguments
        for n in ast.walk(fdef):
            if isinstance(n, ast.Name) and n.id == 'self':
                raise Untranslatable(t['file'], n.lineno, n, 'method declared no_self reads self')
        fdef2 = ast.FunctionDef(name=fdef.name, args=ast.arguments(
            posonlyargs=[], args=fdef.args.args[1:], vararg=fdef.args.vararg, kwonlyargs=fdef.args.kwonlyargs,
            kw_defaults=fdef.args.kw_defaults, kwarg=fdef.args.kwarg, defaults=[]),
            body=fdef.body, decorator_list=fdef.decorator_list, lineno=fdef.lineno, end_lineno=fdef.end_lineno,
            col_offset=fdef.col_offset)
        fn = tr.function(fdef2, lines, t['name'], None, t['sorts'])
        fn.kind = 'function'
        return fn, None
    return tr.function(fdef, lines, t['name'], cls, t['sorts']), cls


def generate_all():
    """{relpath under coq/: text}; never raises for an untranslatable target (its definition is omitted)"""
    LAST_REPORT.clear()
    registry, cache, texts = {}, {}, {}
    for t in TARGETS:
        rel = f"gen/{t['gen']}.v"
        texts.setdefault(rel, [f"(* GENERATED by harness/translate_all.py from the source text of $VERIF_REPO -- do not edit,\n"
                               f"   do not commit.  Tied to the hand-written models by the committed coq/CNN_GenEq.v files. *)\n"
                               + PREAMBLE])
        try:
            fn, cls = translate_target(t, registry, cache)
        except Untranslatable as e:
            texts[rel].append(f"(* {t['name']}: NOT TRANSLATED -- {str(e).replace('*)', '* )')} *)\n")
            LAST_REPORT.append((t['gen'], t['name'], f'UNTRANSLATABLE: {e}', t['file'], None, None))
            continue
        except RecursionError as e:      # pragma: no cover
            texts[rel].append(f"(* {t['name']}: NOT TRANSLATED -- {type(e).__name__} *)\n")
            LAST_REPORT.append((t['gen'], t['name'], f'UNTRANSLATABLE: {type(e).__name__}', t['file'], None, None))
            continue
        if t.get('kind') != 'var':
            registry[(cls, t['qual'].split('.')[-1])] = fn
        texts[rel].append(fn.text)
        LAST_REPORT.append((t['gen'], t['name'], 'ok', t['file'], fn.span, fn.sha))
    return {rel: '\n'.join(parts) for rel, parts in texts.items()}


def generated_for(pid):
    """({relpath: text}, [files to add to FILES, in build order: generated files then the GenEq file])"""
    gens, eqs = PROPERTY_FILES[pid]
    allg = generate_all()
    gen = {f'gen/{g}.v': allg[f'gen/{g}.v'] for g in gens}
    return gen, ['lib/PyGen.v'] + [f'gen/{g}.v' for g in gens] + eqs


def write_all(outdir=None):
    outdir = Path(outdir) if outdir else COQ
    texts = generate_all()
    for rel, text in texts.items():
        p = outdir / rel
        p.parent.mkdir(parents=True, exist_ok=True)
        if (not p.exists()) or p.read_text() != text:
            p.write_text(text)
    return texts


def main(argv=None):
    argv = sys.argv[1:] if argv is None else argv
    write_all(argv[0] if argv else None)
    for gen, name, status, file, span, sha in LAST_REPORT:
        where = f'{file}:{span[0]}-{span[1]} sha1={sha[:12]}' if span else file
        print(f'translate: {gen}.{name}: {status}  [{where}]')
    return 0


if __name__ == '__main__':
    sys.exit(main())
