"""C16 — ApertureStats values equal direct statistics of the aperture pixel set.

K: the Coq model (coq/C16_Model.v; theorems in C16_Proofs / C16_Properties) is evaluated on the
   same inputs as ApertureStats: data / mask / error on the exact lattice (multiples of 1/8), the
   weight matrices and bounding boxes of the implementation's own aperture.to_mask('center') and
   to_mask(sum_method, subpixels), the output masks of the user's SigmaClip applied (by this
   harness) to the masked cutouts, scalar / per-position local_bkg.  Sums, extrema, median,
   areas, raw moments must be the correctly rounded value of the model's exact rational (hence
   equal when representable); var, centroid and central moments within 2^-40 (relative to a
   magnitude computed by the model); sum_err is the correctly rounded square root.  The same
   cases tie the reference copy of the aperture-photometry sum (photometry_one_ref /
   area_overlap_one_ref) to aperture_photometry / area_overlap.
V: the property text itself in plain Python on every case: (P1) sum / sum_err / sum_aper_area
   against aperture_photometry / area_overlap for the same method whenever an unmasked pixel
   has positive weight; (P2) min ... biweight, centroid, shape values against numpy / astropy
   applied to the explicitly enumerated pixel set; (P3) no overlap / nothing unmasked => NaN,
   never an exception; (P4) batch row i == the single-position object with that position's
   local background; (P5) with properties cached on the parent first, every row of apstats[index list]
   (non-monotonic, repeats) and of get_ids([...]) == the single-position object of that position.
   Error maps carry NaN / inf at masked, non-finite-data, zero-weight and in-set pixels: sum_err must
   ignore the first three and be non-finite for the last, exactly like aperture_photometry.
"""
import math
import warnings
from fractions import Fraction

import numpy as np

from .core import coq, Some, Raw

PID = 'C16'
FILES = ['lib/Cases.v', 'C16_Model.v', 'C16_Proofs.v', 'C16_Properties.v']

KD = 8                      # data / error / background lattice: multiples of 1/8
PIXEL_CLASSES = ['CircularAperture', 'CircularAnnulus', 'EllipticalAperture', 'EllipticalAnnulus',
                 'RectangularAperture', 'RectangularAnnulus']
SET_STATS = ['min', 'max', 'mean', 'median', 'mode', 'std', 'var', 'mad_std', 'biweight_location',
             'biweight_midvariance']
NAN_PROPS = ['sum', 'sum_err', 'sum_aper_area', 'center_aper_area', 'min', 'max', 'mean', 'median', 'mode',
             'std', 'mad_std', 'var', 'biweight_location', 'biweight_midvariance', 'xcentroid', 'ycentroid',
             'semimajor_sigma', 'semiminor_sigma', 'fwhm', 'orientation', 'eccentricity', 'elongation',
             'ellipticity', 'covar_sigx2', 'covar_sigy2', 'covar_sigxy', 'cxx', 'cyy', 'cxy', 'gini']
SUM_NAN_PROPS = ['sum', 'sum_err', 'sum_aper_area']


# --------------------------------------------------------------------------
# JSON-able spec <-> objects
# --------------------------------------------------------------------------
def _enc(v):
    v = float(v)
    if math.isnan(v):
        return 'nan'
    if math.isinf(v):
        return 'inf' if v > 0 else '-inf'
    return v


def _dec(v):
    return float(v)


def arr_of(a):
    return None if a is None else np.array([[_dec(v) for v in row] for row in a], dtype=float)


def make_wcs(w):
    from astropy.wcs import WCS
    wcs = WCS(naxis=2)
    wcs.wcs.crpix = w['crpix']
    wcs.wcs.cdelt = w['cdelt']
    wcs.wcs.crval = w['crval']
    wcs.wcs.ctype = ['RA---TAN', 'DEC--TAN']
    th = w['rot']
    wcs.wcs.pc = [[math.cos(th), -math.sin(th)], [math.sin(th), math.cos(th)]]
    return wcs


def make_sigclip(s):
    from astropy.stats import SigmaClip
    if s is None:
        return None
    return SigmaClip(sigma=s['sigma'], sigma_lower=s.get('sigma_lower'), sigma_upper=s.get('sigma_upper'),
                     maxiters=s['maxiters'], cenfunc=s['cenfunc'], stdfunc=s['stdfunc'], grow=s.get('grow', False))


def build(spec):
    """-> data, err, mask, aperture given to ApertureStats, its pixel form, wcs, sigma_clip, local_bkg"""
    import photutils.aperture as pa
    data = arr_of(spec['data'])
    err = arr_of(spec.get('err'))
    mask = None if spec.get('mask') is None else np.array(spec['mask'], dtype=bool)
    a = spec['aper']
    pos = a['positions'][0] if a['scalar'] else a['positions']
    pix = getattr(pa, a['cls'])(pos, **a['params'])
    wcs = None
    aper = pix
    if spec.get('wcs') is not None:
        wcs = make_wcs(spec['wcs'])
        aper = pix.to_sky(wcs)
        pix = aper.to_pixel(wcs)           # what ApertureStats._pixel_aperture computes
    lb = spec.get('local_bkg')
    return data, err, mask, aper, pix, wcs, make_sigclip(spec.get('sigma_clip')), lb


# --------------------------------------------------------------------------
# generators
# --------------------------------------------------------------------------
def gen_params(rng, cls):
    small = rng.random() < 0.5

    def size(lo=0.3, hi=3.6):
        v = rng.uniform(lo, min(hi, 1.8) if small else hi)
        return round(v * KD) / KD if rng.random() < 0.6 else v

    def theta():
        k = rng.random()
        if k < 0.3:
            return 0.0
        if k < 0.5:
            return rng.choice([1, 2, 3, 5]) * math.pi / 4
        return rng.uniform(-3.2, 3.2)
    if cls == 'CircularAperture':
        return {'r': rng.choice([0.25, 0.375]) if rng.random() < 0.12 else max(size(), 0.125)}
    if cls == 'CircularAnnulus':
        r_in = max(size(0.2, 2.5), 0.125)
        return {'r_in': r_in, 'r_out': r_in + max(size(0.2, 2.5), 0.125)}
    if cls == 'EllipticalAperture':
        return {'a': max(size(), 0.125), 'b': max(size(0.2, 2.5), 0.125), 'theta': theta()}
    if cls == 'EllipticalAnnulus':
        a_in = max(size(0.3, 2.5), 0.125)
        return {'a_in': a_in, 'a_out': a_in + max(size(0.2, 2.0), 0.125), 'b_out': max(size(0.3, 3.0), 0.125),
                'theta': theta()}
    if cls == 'RectangularAperture':
        return {'w': max(size(0.3, 5.0), 0.125), 'h': max(size(0.3, 5.0), 0.125), 'theta': theta()}
    if cls == 'RectangularAnnulus':
        w_in = max(size(0.3, 3.0), 0.125)
        return {'w_in': w_in, 'w_out': w_in + max(size(0.2, 3.0), 0.125), 'h_out': max(size(0.3, 4.0), 0.125),
                'theta': theta()}
    raise ValueError(cls)


def extent_of(cls, params):
    import photutils.aperture as pa
    bb = getattr(pa, cls)((0.0, 0.0), **params).bbox
    return max(abs(bb.ixmin), abs(bb.ixmax), abs(bb.iymin), abs(bb.iymax))


def gen_position(rng, ny, nx, ext):
    kind = rng.choice(['inside', 'inside', 'inside', 'inside', 'inside', 'edge', 'edge', 'corner', 'outside', 'touch',
                       'pixcorner'])

    def q(v):
        return round(v * KD) / KD if rng.random() < 0.7 else v
    if kind == 'inside':
        x, y = rng.uniform(0, nx - 1), rng.uniform(0, ny - 1)
        if rng.random() < 0.25:
            x, y = float(rng.randrange(nx)), float(rng.randrange(ny))
    elif kind == 'pixcorner':               # centred on a pixel corner: small apertures hold no pixel centre
        x, y = rng.randrange(nx) + 0.5, rng.randrange(ny) - 0.5
        return (x, y), kind
    elif kind == 'edge':
        side = rng.choice(['l', 'r', 'b', 't'])
        d = rng.uniform(-ext, 1.0)
        x, y = rng.uniform(-1, nx), rng.uniform(-1, ny)
        if side == 'l':
            x = d
        elif side == 'r':
            x = nx - 1 - d
        elif side == 'b':
            y = d
        else:
            y = ny - 1 - d
    elif kind == 'corner':
        dx, dy = rng.uniform(-ext, 1.0), rng.uniform(-ext, 1.0)
        x = dx if rng.random() < 0.5 else nx - 1 - dx
        y = dy if rng.random() < 0.5 else ny - 1 - dy
    elif kind == 'outside':
        far = rng.choice([ext + 1.5, ext + 30, 1e4])
        x, y = rng.uniform(-1, nx), rng.uniform(-1, ny)
        side = rng.choice(['l', 'r', 'b', 't', 'lb', 'rt'])
        if 'l' in side:
            x = -far
        if 'r' in side:
            x = nx - 1 + far
        if 'b' in side:
            y = -far
        if 't' in side:
            y = ny - 1 + far
    else:   # touch: the box ends within one pixel of the frame
        x, y = rng.uniform(0, nx - 1), rng.uniform(0, ny - 1)
        off = ext + rng.choice([-1.0, -0.5, -0.125, 0.0, 0.125, 0.5])
        side = rng.choice(['l', 'r', 'b', 't'])
        if side == 'l':
            x = -off
        elif side == 'r':
            x = nx - 1 + off
        elif side == 'b':
            y = -off
        else:
            y = ny - 1 + off
    return (q(x), q(y)), kind


def gen_image(rng, ny, nx, lattice=True):
    kind = rng.choice(['int', 'dyadic', 'ramp', 'sparse', 'blob', 'blob'])
    if not lattice:
        s = rng.choice([1e-3, 1.0, 1.0, 1e3])
        d = [[rng.gauss(rng.choice([0, 0, 5]), 1) * s for _ in range(nx)] for _ in range(ny)]
        e = [[abs(rng.gauss(0, 1)) * s for _ in range(nx)] for _ in range(ny)]
        return d, e, 'float'
    if kind == 'int':
        d = [[float(rng.randint(-20, 40)) for _ in range(nx)] for _ in range(ny)]
    elif kind == 'dyadic':
        d = [[rng.randint(-200, 400) / KD for _ in range(nx)] for _ in range(ny)]
    elif kind == 'ramp':       # every pixel distinct and asymmetric: registers shifts / flips
        d = [[float(1 + x + 13 * y) for x in range(nx)] for y in range(ny)]
    elif kind == 'sparse':
        d = [[(rng.randint(1, 99) / KD if rng.random() < 0.3 else 0.0) for _ in range(nx)] for _ in range(ny)]
    else:                      # positive blob on a small pedestal (meaningful shape values)
        cx, cy = rng.uniform(0, nx - 1), rng.uniform(0, ny - 1)
        sx, sy = rng.uniform(0.7, 2.5), rng.uniform(0.7, 2.5)
        amp = rng.choice([10, 30, 60])
        d = [[round(KD * (1 + amp * math.exp(-((x - cx) ** 2 / (2 * sx * sx) + (y - cy) ** 2 / (2 * sy * sy))))) / KD
              for x in range(nx)] for y in range(ny)]
    if rng.random() < 0.5:     # outliers, so that sigma clipping rejects something
        for _ in range(rng.randint(1, 3)):
            d[rng.randrange(ny)][rng.randrange(nx)] = float(rng.choice([300, 500, -250]))
    e = [[rng.randint(0, 80) / KD for _ in range(nx)] for _ in range(ny)]
    return d, e, kind


def gen_mask(rng, ny, nx):
    k = rng.random()
    if k < 0.4:
        return None
    if k < 0.47:
        return [[True] * nx for _ in range(ny)]
    if k < 0.52:
        return [[False] * nx for _ in range(ny)]
    dens = rng.choice([0.1, 0.3, 0.6, 0.9])
    return [[rng.random() < dens for _ in range(nx)] for _ in range(ny)]


def gen_spec(rng, lattice=True):
    ny = rng.choice([1, 2, 3]) if rng.random() < 0.1 else rng.randint(5, 11)
    nx = rng.choice([1, 2, 3]) if rng.random() < 0.1 else rng.randint(5, 11)
    d, e, dkind = gen_image(rng, ny, nx, lattice)
    if rng.random() < 0.3:
        for _ in range(rng.randint(1, 3)):
            d[rng.randrange(ny)][rng.randrange(nx)] = rng.choice([math.nan, math.inf, -math.inf])
    cls = rng.choice(PIXEL_CLASSES)
    params = gen_params(rng, cls)
    ext = extent_of(cls, params)
    scalar = rng.random() < 0.15
    npos = 1 if scalar else rng.randint(1, 4)
    positions, kinds = [], []
    for _ in range(npos):
        p, k = gen_position(rng, ny, nx, ext)
        positions.append(list(p))
        kinds.append(k)
    r = rng.random()
    # sum_method and subpixels are always crossed: subpixels is documented to matter for 'subpixel' only
    method = 'center' if r < 0.3 else ('subpixel' if r < 0.65 else 'exact')
    subpixels = rng.choice([1, 1, 2, 5, 32, 32] + ([4, 8, 16] if lattice or rng.random() < 0.5 else [3, 7]))
    sig = None
    if rng.random() < 0.5:
        sig = {'sigma': rng.choice([1.0, 1.5, 2.0, 3.0]),
               'sigma_lower': rng.choice([None, None, 1.0, 2.5]), 'sigma_upper': rng.choice([None, None, 1.5, 3.0]),
               'maxiters': rng.choice([1, 2, 5, None]),
               'cenfunc': rng.choice(['median', 'median', 'mean']), 'stdfunc': rng.choice(['std', 'std', 'mad_std']),
               'grow': rng.choice([False, False, 1, 1.5, 2])}
    r = rng.random()
    if r < 0.3:
        lb = None
    elif r < 0.55:
        lb = rng.randint(-40, 80) / KD                                   # scalar
    elif r < 0.95:
        lb = [rng.randint(-40, 80) / KD for _ in range(npos)]           # per position
    else:
        lb = [rng.randint(-40, 80) / KD for _ in range(npos + rng.choice([1, 2]))]     # invalid length
    spec = {'data': [[_enc(v) for v in row] for row in d], 'err': e if rng.random() < 0.6 else None,
            'mask': gen_mask(rng, ny, nx), 'aper': {'cls': cls, 'params': params, 'positions': positions,
                                                    'scalar': scalar},
            'sum_method': method, 'subpixels': subpixels, 'sigma_clip': sig, 'local_bkg': lb,
            'kinds': kinds, 'dkind': dkind, 'lattice': lattice, 'wcs': None}
    if rng.random() < 0.15:
        s = rng.choice([0.05, 0.2, 1.0]) / 3600
        spec['wcs'] = {'crpix': [nx / 2 + rng.uniform(-2, 2), ny / 2 + rng.uniform(-2, 2)],
                       'cdelt': [-s, s], 'crval': [rng.uniform(0, 359), rng.uniform(-70, 70)],
                       'rot': rng.choice([0.0, 0.0, rng.uniform(-3, 3)])}
        spec['aper']['positions'] = [[min(max(p[0], -60.0), nx + 60.0), min(max(p[1], -60.0), ny + 60.0)]
                                     for p in positions]
    if spec['err'] is not None and rng.random() < 0.45:
        inject_bad_errors(rng, spec)
    return spec


def inject_bad_errors(rng, spec):
    """NaN / inf in the ERROR map at pixels of chosen classes relative to the apertures: (a) user-masked,
    (b) non-finite data, (c) zero sum- and centre-weight inside the bounding box (corners, annulus holes),
    (d) inside the pixel set (then sum_err must be non-finite, as aperture_photometry's)."""
    try:
        infos = position_info(dict(spec, sigma_clip=None, local_bkg=None))
    except Exception:       # noqa
        return
    data = arr_of(spec['data'])
    mask = None if spec['mask'] is None else np.array(spec['mask'], dtype=bool)
    cand = {'a': [], 'b': [], 'c': [], 'd': []}
    for p in infos:
        if not p.overlap:
            continue
        y0, y1, x0, x1 = p.large
        for j in range(y1 - y0):
            for k in range(x1 - x0):
                y, x = y0 + j, x0 + k
                if mask is not None and mask[y, x]:
                    cand['a'].append((y, x))
                elif not math.isfinite(data[y, x]):
                    cand['b'].append((y, x))
                elif p.aws[j, k] == 0 and p.awc[j, k] == 0:
                    cand['c'].append((y, x))
                elif p.aws[j, k] > 0:
                    cand['d'].append((y, x))
    kinds = []
    err = [[_enc(v) for v in row] for row in spec['err']]
    avail = [c for c in 'abcd' if cand[c]]
    for cls in rng.sample(avail, min(len(avail), rng.randint(1, 3))):
        if cls != 'd' or rng.random() < 0.4:
            y, x = rng.choice(cand[cls])
            err[y][x] = rng.choice(['nan', 'nan', 'inf'])
            kinds.append(cls)
    spec['err'] = err
    spec['bad_err'] = sorted(set(kinds))


# --------------------------------------------------------------------------
# running the implementation
# --------------------------------------------------------------------------
def _vals(x):
    return np.atleast_1d(np.asarray(getattr(x, 'value', x), dtype=float))


def make_stats(spec, index=None, bkg=None):
    """the ApertureStats object of the spec (or of the single position `index` with local background `bkg`)"""
    from photutils.aperture import ApertureStats
    data, err, mask, aper, pix, wcs, sc, lb = build(spec)
    if index is not None:           # the pixel aperture of that position alone
        aper = pix if pix.isscalar else pix[index]
        wcs = None
        lb = bkg
    with warnings.catch_warnings():
        warnings.simplefilter('ignore')
        return ApertureStats(data.copy(), aper, error=None if err is None else err.copy(),
                             mask=None if mask is None else mask.copy(), wcs=wcs, sigma_clip=sc,
                             sum_method=spec['sum_method'], subpixels=spec['subpixels'], local_bkg=lb)


def run_impl(spec, index=None, bkg=None):
    """-> dict name -> array with one row per position; raises what the implementation raises."""
    s = make_stats(spec, index, bkg)
    with warnings.catch_warnings():
        warnings.simplefilter('ignore')
        n = s.n_apertures
        out = {'n': n}
        for p in NAN_PROPS + ['bbox_xmin', 'bbox_xmax', 'bbox_ymin', 'bbox_ymax']:
            out[p] = _vals(getattr(s, p))
        mom = np.asarray(s.moments, dtype=float)
        out['moments'] = mom.reshape((n, 4, 4))
        out['moments_central'] = np.asarray(s.moments_central, dtype=float).reshape((n, 4, 4))
        out['covariance'] = np.asarray(getattr(s.covariance, 'value', s.covariance), dtype=float).reshape((n, 2, 2))
        tbl = s.to_table()
        out['table_sum'] = _vals(tbl['sum'])
        out['table_xcentroid'] = _vals(tbl['xcentroid'])
    return out


def bkg_list(lb, n):
    if lb is None:
        return [0.0] * n
    l = list(np.atleast_1d(lb))
    if len(l) == 1:
        return [float(l[0])] * n
    if len(l) != n:
        return None
    return [float(v) for v in l]


class PosInfo:
    """everything about one aperture position that the model and the oracles need"""


def position_info(spec):
    """per position: bbox, Wc, Ws (full bbox-shaped arrays from the implementation's to_mask), the
    overlap slices, the masked cutouts of the two families and the SigmaClip output masks."""
    data, err, mask, aper, pix, wcs, sc, lb = build(spec)
    ny, nx = data.shape
    n = 1 if pix.isscalar else len(pix)
    bk = bkg_list(lb, n)
    with warnings.catch_warnings():
        warnings.simplefilter('ignore')
        mc = pix.to_mask(method='center')
        ms = pix.to_mask(method=spec['sum_method'], subpixels=spec['subpixels'])
    if pix.isscalar:
        mc, ms = [mc], [ms]
    infos = []
    for i in range(n):
        p = PosInfo()
        p.pix = pix if pix.isscalar else pix[i]
        bb = mc[i].bbox
        p.bbox = (bb.ixmin, bb.ixmax, bb.iymin, bb.iymax)
        p.Wc = np.array(mc[i].data, dtype=float)
        p.Ws = np.array(ms[i].data, dtype=float)
        assert (ms[i].bbox.ixmin, ms[i].bbox.ixmax, ms[i].bbox.iymin, ms[i].bbox.iymax) == p.bbox
        # hypotheses of the theorems about the implementation's masks
        p.binary = bool(np.all((p.Wc == 0) | (p.Wc == 1)))
        p.nonneg = bool(np.all(p.Ws >= 0))
        p.bkg = None if bk is None else bk[i]
        p.overlap = not (bb.ixmin >= nx or bb.iymin >= ny or bb.ixmax <= 0 or bb.iymax <= 0)
        p.clipc = p.clips = None
        p.clip_hyp = True
        if p.overlap and bk is not None:
            y0, y1, x0, x1 = max(bb.iymin, 0), min(bb.iymax, ny), max(bb.ixmin, 0), min(bb.ixmax, nx)
            p.large = (y0, y1, x0, x1)
            cut = data[y0:y1, x0:x1] - p.bkg
            dmask = ~np.isfinite(cut)
            if mask is not None:
                dmask = dmask | mask[y0:y1, x0:x1]
            p.dmask = dmask
            for fam, W in (('c', p.Wc), ('s', p.Ws)):
                aw = W[y0 - bb.iymin:y1 - bb.iymin, x0 - bb.ixmin:x1 - bb.ixmin]
                m0 = (aw == 0) | dmask
                setattr(p, 'aw' + fam, aw)
                setattr(p, 'm0' + fam, m0)
                if sc is not None:
                    with warnings.catch_warnings():
                        warnings.simplefilter('ignore')
                        res = make_sigclip(spec['sigma_clip'])(np.ma.masked_array(cut.copy(), mask=m0.copy()))
                    cm = np.ma.getmaskarray(res).copy()
                    if (m0 & ~cm).any():
                        p.clip_hyp = False
                    setattr(p, 'clip' + fam, cm)
        infos.append(p)
    return infos


def photometry_reference(spec, infos):
    """aperture_photometry / area_overlap for each position on (data - bkg_i) with the mask
    mask | non-finite | clipped(sum family): -> [(sum, err|None, area, photmask)]"""
    from photutils.aperture import aperture_photometry
    data, err, mask, aper, pix, wcs, sc, lb = build(spec)
    out = []
    for p in infos:
        pm = ~np.isfinite(data)
        if mask is not None:
            pm = pm | mask
        if p.overlap and p.clips is not None:
            y0, y1, x0, x1 = p.large
            pm = pm.copy()
            pm[y0:y1, x0:x1] |= (p.clips & ~p.m0s)
        with warnings.catch_warnings():
            warnings.simplefilter('ignore')
            t = aperture_photometry(data - p.bkg, p.pix, error=err, mask=pm, method=spec['sum_method'],
                                    subpixels=spec['subpixels'])
            area = p.pix.area_overlap(data, mask=pm, method=spec['sum_method'], subpixels=spec['subpixels'])
        s = float(_vals(t['aperture_sum'])[0])
        e = float(_vals(t['aperture_sum_err'])[0]) if err is not None else None
        out.append((s, e, float(np.atleast_1d(area)[0]), pm))
    return out


# --------------------------------------------------------------------------
# Coq terms
# --------------------------------------------------------------------------
def fl(x):
    """float -> (E, t) with x = E / 2^t, 2^52 <= |E| < 2^53 (or E = 0); None if non-finite"""
    x = float(x)
    if not math.isfinite(x):
        return None
    if x == 0:
        return Some((0, 0))
    m, e = math.frexp(x)
    E, t = int(m * 2 ** 53), 53 - e
    if t < 0:
        E, t = E << (-t), 0
    return Some((E, t))


def ndiv(a, b):
    with np.errstate(all='ignore'):
        return float(np.float64(a) / np.float64(b))


def zimg(a, scale):
    rows = []
    for row in a:
        r = []
        for v in row:
            z = v * scale
            zi = int(round(z))
            r.append(zi)
        rows.append(r)
    return rows


def on_lattice(a, scale):
    z = np.asarray(a, dtype=float) * scale
    return bool(np.all(z == np.round(z)))


def vimg(a, scale):
    return [[(Some(int(round(v * scale))) if math.isfinite(v) else None) for v in row] for row in a]


def weight_scale(spec, infos):
    """(WS, lattice?) for the sum-method weights"""
    m, sp = spec['sum_method'], spec['subpixels']
    if m == 'center':
        return 1, True
    if m == 'subpixel':
        ws = sp * sp
        lat = sp in (1, 2, 4, 8, 16, 32)
    elif 'Rectangular' in spec['aper']['cls']:
        ws, lat = 1024, True
    else:
        return 2 ** 60, False
    for p in infos:
        z = p.Ws * ws
        if not np.all(np.abs(z - np.round(z)) < 1e-6):
            return 2 ** 60, False
        if lat and not np.all(z == np.round(z)):
            lat = False
    return ws, lat


def to_coq(spec, infos, impl, phot):
    data = arr_of(spec['data'])
    err = arr_of(spec.get('err'))
    mask = None if spec.get('mask') is None else np.array(spec['mask'], dtype=bool)
    ny, nx = data.shape
    ws, lat = weight_scale(spec, infos)
    center = spec['sum_method'] == 'center'
    scales = Raw(f'(mkscales {KD} {ws} {KD} {coq(lat)})')
    scene = Raw('(mkscene %d %d %s %s %s %s)' % (
        ny, nx, coq(vimg(data, KD)),
        coq(None if mask is None else Some([[bool(v) for v in r] for r in mask])),
        coq(None if err is None else Some(vimg(err, KD))), coq(center)))
    apers = []
    for p in infos:
        def cl(c):
            return coq(None if c is None else Some([[bool(v) for v in r] for r in c]))
        apers.append(Raw('(mkaper (mkbox %s %s %s %s) %s %s %s %s)' % (
            coq(p.bbox[0]), coq(p.bbox[1]), coq(p.bbox[2]), coq(p.bbox[3]),
            coq(zimg(p.Wc, 1)), coq(zimg(p.Ws, ws)), cl(p.clipc), cl(p.clips))))
    lb = spec.get('local_bkg')
    lbz = None if lb is None else Some([int(round(float(v) * KD)) for v in np.atleast_1d(lb)])
    if impl is None:
        exp = None
    else:
        es = []
        for i, p in enumerate(infos):
            mom = impl['moments'][i]
            six = [mom[0, 0], mom[1, 0], mom[0, 1], mom[2, 0], mom[1, 1], mom[0, 2]]
            emom = None if all(not math.isfinite(v) for v in six) else Some([fl(v) for v in six])
            muc = impl['moments_central'][i]
            ps, pe, pa, pm = phot[i]
            cv = impl['covariance'][i]
            cv3 = [cv[0, 0], cv[0, 1], cv[1, 1]]
            ecov = Some(tuple(fl(v) for v in cv3)) if all(math.isfinite(v) for v in cv3) else None
            es.append(Raw('(mkexp ' + ' '.join(coq(v) for v in [
                fl(impl['sum'][i]), fl(impl['sum_err'][i]), fl(impl['sum_aper_area'][i]),
                fl(impl['center_aper_area'][i]), fl(impl['min'][i]), fl(impl['max'][i]), fl(impl['mean'][i]),
                fl(impl['median'][i]), fl(impl['var'][i]), emom, fl(impl['xcentroid'][i]), fl(impl['ycentroid'][i]),
                fl(ndiv(muc[2, 0], muc[0, 0])), fl(ndiv(muc[1, 1], muc[0, 0])), fl(ndiv(muc[0, 2], muc[0, 0])),
                (int(impl['bbox_xmin'][i]), int(impl['bbox_xmax'][i]), int(impl['bbox_ymin'][i]),
                 int(impl['bbox_ymax'][i])),
                fl(ps), fl(pe) if pe is not None else None, fl(pa),
                Some([[bool(v) for v in r] for r in pm]), ecov]) + ')'))
        exp = Some(es)
    return coq((scales, scene, apers, lbz, exp))


# --------------------------------------------------------------------------
# the property, in plain Python
# --------------------------------------------------------------------------
def same(a, b, rtol=0.0, atol=0.0):
    a, b = float(a), float(b)
    if not math.isfinite(a) or not math.isfinite(b):
        return (math.isnan(a) and math.isnan(b)) or a == b
    return abs(a - b) <= atol + rtol * max(abs(a), abs(b))


def set_oracle(spec, p, data, mask):
    """the pixel set A_i and the direct statistics (None when A_i is empty)"""
    from astropy.stats import biweight_location, biweight_midvariance, mad_std
    ny, nx = data.shape
    pts = []
    for y in range(ny):
        for x in range(nx):
            if p.bbox[2] <= y < p.bbox[3] and p.bbox[0] <= x < p.bbox[1]:
                if p.Wc[y - p.bbox[2], x - p.bbox[0]] != 0 and math.isfinite(data[y, x]) and \
                        not (mask is not None and mask[y, x]):
                    pts.append((y, x, data[y, x] - p.bkg))
    if pts and spec.get('sigma_clip') is not None:
        if spec['sigma_clip'].get('grow'):
            # `grow` rejects the 2-D neighbours of rejected pixels: the pixels the given clip leaves are those of
            # the same SigmaClip applied to the 2-D masked centre-method cutout (position_info: p.clipc)
            y0, y1, x0, x1 = p.large
            pts = [t for t in pts if not p.clipc[t[0] - y0, t[1] - x0]]
        else:       # which pixels are rejected depends on the values only: clip the 1-D value list
            v = np.array([t[2] for t in pts])
            with warnings.catch_warnings():
                warnings.simplefilter('ignore')
                keep = ~np.ma.getmaskarray(make_sigclip(spec['sigma_clip'])(v, masked=True))
            pts = [t for t, k in zip(pts, keep) if k]
    if not pts:
        return pts, None
    v = np.array([t[2] for t in pts])
    ys = np.array([t[0] for t in pts], dtype=float)
    xs = np.array([t[1] for t in pts], dtype=float)
    with warnings.catch_warnings(), np.errstate(all='ignore'):
        warnings.simplefilter('ignore')
        st = {'min': np.min(v), 'max': np.max(v), 'mean': np.mean(v), 'median': np.median(v),
              'std': np.std(v), 'var': np.var(v), 'mad_std': mad_std(v), 'biweight_location': biweight_location(v),
              'biweight_midvariance': biweight_midvariance(v), 'npix': len(v)}
        st['mode'] = 3.0 * st['median'] - 2.0 * st['mean']
        tot = math.fsum(v)
        st['total'] = tot
        if tot != 0:
            xc, yc = math.fsum(xs * v) / tot, math.fsum(ys * v) / tot
            st['xcentroid'], st['ycentroid'] = xc, yc
            cxx = math.fsum(v * (xs - xc) ** 2) / tot
            cyy = math.fsum(v * (ys - yc) ** 2) / tot
            cxy = math.fsum(v * (xs - xc) * (ys - yc)) / tot
            st['cov'] = (cxx, cxy, cyy)
            st['absmom'] = math.fsum(np.abs(v) * ((xs - xc) ** 2 + (ys - yc) ** 2)) / abs(tot)
        else:
            st['xcentroid'] = st['ycentroid'] = math.nan
            st['cov'] = None
    return pts, st


def exact_cov_det(pts):
    """sign-exact determinant (times a positive factor) of the flux-weighted covariance of the pixel set,
    in rational arithmetic on the given doubles; None when the total is zero"""
    v = [Fraction(t[2]) for t in pts]
    s0 = sum(v)
    if s0 == 0:
        return None
    sx = sum(t[1] * w for t, w in zip(pts, v))
    sy = sum(t[0] * w for t, w in zip(pts, v))
    sxx = sum(t[1] * t[1] * w for t, w in zip(pts, v))
    syy = sum(t[0] * t[0] * w for t, w in zip(pts, v))
    sxy = sum(t[0] * t[1] * w for t, w in zip(pts, v))
    return (s0 * sxx - sx * sx) * (s0 * syy - sy * sy) - (s0 * sxy - sx * sy) ** 2


SHAPE_FINITE = ('semimajor_sigma', 'semiminor_sigma', 'fwhm', 'eccentricity', 'elongation', 'ellipticity',
                'orientation', 'cxx', 'cyy', 'cxy')


def shape_closed_forms(impl, i, where, counts):
    viol = []
    a, b, c = float(impl['covar_sigx2'][i]), float(impl['covar_sigxy'][i]), float(impl['covar_sigy2'][i])
    if not all(math.isfinite(v) for v in (a, b, c)):
        return viol
    tr = a + c
    half_diff = 0.5 * (a - c)
    disc = math.hypot(half_diff, b)              # stable: no cancellation for (nearly) equal eigenvalues
    l1, l2 = 0.5 * tr + disc, 0.5 * tr - disc
    tol = 1e-13 * abs(tr)
    if not (a > 0 and c > 0 and l2 > 1e-9 * tr):         # positive definite, not marginally so
        return viol
    counts['shape_closed_forms_on_pd_covariance'] = counts.get('shape_closed_forms_on_pd_covariance', 0) + 1
    if disc <= 1e-9 * tr:
        counts['shape_closed_forms_near_isotropic'] = counts.get('shape_closed_forms_near_isotropic', 0) + 1
    for name in SHAPE_FINITE:
        if not math.isfinite(impl[name][i]):
            viol.append((f'ApertureStats.{name}:not-finite-for-positive-definite-covariance',
                         f'{name} = {impl[name][i]!r} although the covariance [[{a!r}, {b!r}], [{b!r}, {c!r}]] is finite '
                         'and positive definite', dict(where, covariance=[a, b, c])))
            return viol
    sa, sb = float(impl['semimajor_sigma'][i]), float(impl['semiminor_sigma'][i])
    want = [('semimajor_sigma^2', sa * sa, l1, tol + 4e-16 * l1), ('semiminor_sigma^2', sb * sb, l2, tol + 4e-16 * l2),
            ('fwhm^2', float(impl['fwhm'][i]) ** 2, 4.0 * math.log(2.0) * tr, 8 * tol + 1e-15 * tr),
            ('eccentricity^2', float(impl['eccentricity'][i]) ** 2, max(1.0 - l2 / l1, 0.0), 4 * tol / l1 + 1e-15),
            ('elongation^2', float(impl['elongation'][i]) ** 2, l1 / l2, (l1 / l2) * (2 * tol / l2 + 1e-15)),
            ('(1-ellipticity)^2', (1.0 - float(impl['ellipticity'][i])) ** 2, l2 / l1, 4 * tol / l1 + 1e-14),
            # rotation invariants of the ellipse coefficients: cxx + cyy = 1/l1 + 1/l2, cxx*cyy - cxy^2/4 = 1/(l1*l2)
            ('cxx+cyy', float(impl['cxx'][i]) + float(impl['cyy'][i]), 1.0 / l1 + 1.0 / l2,
             (1.0 / l2) * (4 * tol / l2 + 1e-12)),
            ('cxx*cyy-cxy^2/4', float(impl['cxx'][i]) * float(impl['cyy'][i]) - 0.25 * float(impl['cxy'][i]) ** 2,
             1.0 / (l1 * l2), (1.0 / (l1 * l2)) * (8 * tol / l2 + 1e-11))]
    if disc > 1e-6 * tr:
        th = math.degrees(0.5 * math.atan2(2.0 * b, a - c))
        d = abs(float(impl['orientation'][i]) - th) % 180.0
        if min(d, 180.0 - d) > 1e-9 * (1 + tr / disc):
            viol.append(('ApertureStats.orientation:closed-form', f'orientation = {impl["orientation"][i]!r}, closed form '
                         f'0.5*atan2(2 sxy, sx2 - sy2) of its covariance: {th!r}', dict(where, covariance=[a, b, c])))
    for name, got, w, t in want:
        if not abs(got - w) <= t:
            viol.append((f'ApertureStats.shape:closed-form:{name}', f'{name} = {got!r}, closed form of the covariance '
                         f'[[{a!r}, {b!r}], [{b!r}, {c!r}]]: {w!r}', dict(where, covariance=[a, b, c], tol=t)))
    return viol


# --------------------------------------------------------------------------
# scene family 'isotropic': sources with 4-fold / 8-fold symmetry (or 2-fold mirror symmetry) measured in
# concentric circular apertures / annuli; the second moments are isotropic to within a few ulp, so the two
# eigenvalues of the covariance are (nearly) degenerate.  [pure numpy: reusable by other properties]
# --------------------------------------------------------------------------
def iso_scene(rng):
    """-> (data (n x n float array), (xc, yc), description)"""
    n = rng.choice([13, 15, 17, 19, 21])
    c = n // 2
    centre = rng.choice(['pixel', 'pixel', 'corner', 'corner', 'edge'])
    xc, yc = {'pixel': (c, c), 'corner': (c + 0.5, c + 0.5), 'edge': (c + 0.5, float(c))}[centre]
    yy, xx = np.mgrid[0:n, 0:n]
    r2 = (xx - xc) ** 2 + (yy - yc) ** 2
    kind = rng.choice(['gauss', 'gauss', 'gauss', 'plateau', 'ring', 'kernel', 'moffat'])
    if kind == 'gauss':
        sig = rng.choice([0.8, 1.0, 1.25, 1.5, 2.0, 2.5, 3.0, 4.0])
        data = rng.choice([1.0, 7.0, 100.0]) * np.exp(-r2 / (2.0 * sig * sig))
        par = sig
    elif kind == 'moffat':
        par = rng.choice([1.5, 2.5, 3.5])
        data = (1.0 + r2 / 4.0) ** (-par)
    elif kind == 'plateau':
        par = rng.choice([1.5, 2.25, 3.0, 4.5, 100.0])
        data = np.where(r2 <= par * par, rng.choice([1.0, 3.0, 0.1]), 0.0) + rng.choice([0.0, 0.0, 0.5])
    elif kind == 'ring':
        par = rng.choice([1.5, 2.5, 3.5])
        data = np.where((r2 >= par * par) & (r2 <= (par + 1.5) ** 2), 1.0, 0.0) + 0.125
    else:       # a few symmetric pixels convolved with a symmetric 3 x 3 kernel (pixel-centred only)
        xc, yc, centre = float(c), float(c), 'pixel'
        data = np.zeros((n, n))
        par = rng.choice([0, 1, 2])
        for d in ([(0, 0)] if par == 0 else [(par, 0), (-par, 0), (0, par), (0, -par)] + ([(0, 0)] if rng.random() < 0.5 else [])):
            data[c + d[0], c + d[1]] = rng.choice([1.0, 10.0 / 3.0])
        ker = np.array(rng.choice([[[1, 2, 1], [2, 4, 2], [1, 2, 1]], [[0, 1, 0], [1, 1, 1], [0, 1, 0]],
                                   [[1, 1, 1], [1, 3, 1], [1, 1, 1]]]), dtype=float) / rng.choice([1.0, 3.0, 7.0])
        pad = np.pad(data, 1)
        data = sum(ker[j, k] * pad[j:j + n, k:k + n] for j in range(3) for k in range(3)) + 0.01
    return np.asarray(data, dtype=float), (float(xc), float(yc)), f'{kind}({par})@{centre}'


def gen_iso_spec(rng):
    data, (xc, yc), desc = iso_scene(rng)
    n = data.shape[0]
    rmax = n // 2 - 1
    if rng.random() < 0.75:
        cls, params = 'CircularAperture', {'r': rng.randint(5, 4 * rmax) / 4.0}
    else:
        r_in = rng.randint(2, 2 * rmax) / 4.0
        cls, params = 'CircularAnnulus', {'r_in': r_in, 'r_out': min(r_in + rng.randint(4, 16) / 4.0, float(rmax))}
        if params['r_out'] <= params['r_in']:
            params['r_out'] = params['r_in'] + 1.0
    pert = None
    if rng.random() < 0.3:      # near-isotropic: one pixel near the centre changed by 1 ulp ... 1e-6
        pert = rng.choice([2.0 ** -52, 1e-12, 1e-9, 1e-6])
        y, x = int(yc) + rng.randint(-1, 1), int(xc) + rng.randint(-1, 1)
        data[y, x] *= (1.0 + pert)
    r = rng.random()
    method = 'exact' if r < 0.5 else ('center' if r < 0.75 else 'subpixel')
    return {'data': [[_enc(v) for v in row] for row in data], 'err': None, 'mask': None,
            'aper': {'cls': cls, 'params': params, 'positions': [[xc, yc]], 'scalar': rng.random() < 0.5},
            'sum_method': method, 'subpixels': rng.choice([1, 2, 5]), 'sigma_clip': None,
            'local_bkg': rng.choice([None, None, 0.0]), 'kinds': ['inside'], 'dkind': 'isotropic:' + desc,
            'lattice': False, 'wcs': None, 'iso_perturbation': pert}


def oracles(spec, impl=None, infos=None, phot=None, counts=None):
    """-> list of (signature, what, detail) property violations of the implementation on spec"""
    viol = []
    data, err, mask, aper, pix, wcs, sc, lb = build(spec)
    n = 1 if pix.isscalar else len(pix)
    valid = bkg_list(lb, n) is not None
    if impl is None:
        try:
            impl = run_impl(spec)
        except Exception as e:      # noqa
            if valid:
                return [('ApertureStats:exception', f'{type(e).__name__}: {str(e)[:120]}', {})]
            return [] if isinstance(e, ValueError) else \
                [('ApertureStats:local_bkg-length', f'wrong-length local_bkg raised {type(e).__name__}', {})]
    if not valid:
        return [('ApertureStats:local_bkg-length', 'wrong-length local_bkg accepted', {})]
    infos = infos or position_info(spec)
    phot = phot or photometry_reference(spec, infos)
    lat_data = spec.get('lattice', True)
    ws, lat_w = weight_scale(spec, infos)
    counts = counts if counts is not None else {}
    for i, p in enumerate(infos):
        where = {'position': i, 'xy': spec['aper']['positions'][i], 'bbox': list(p.bbox)}
        if not p.clip_hyp:
            viol.append(('SigmaClip:mask-not-kept', 'SigmaClip output mask does not contain its input mask', where))
            continue
        if not p.binary:
            viol.append(('to_mask:center-not-binary', "to_mask(method='center') has a weight other than 0 or 1", where))
            continue
        # ---- P1: sum / sum_err / sum_aper_area against aperture_photometry / area_overlap
        ps, pe, pa, pm = phot[i]
        positive = False
        if p.overlap:
            y0, y1, x0, x1 = p.large
            positive = bool(((p.aws > 0) & ~pm[y0:y1, x0:x1]).any())
        exact = lat_data and (lat_w or spec['sum_method'] == 'center')
        if positive:
            counts['sum_vs_aperture_photometry'] = counts.get('sum_vs_aperture_photometry', 0) + 1
            mag = float(np.sum(np.abs(np.where(pm[y0:y1, x0:x1], 0.0, np.nan_to_num(data[y0:y1, x0:x1] - p.bkg)) * p.aws)))
            for name, got, want, tol in (
                    ('sum', impl['sum'][i], ps, 0.0 if exact else 1e-12 * mag),
                    ('sum_err', impl['sum_err'][i], pe, 0.0 if exact else None),
                    ('sum_aper_area', impl['sum_aper_area'][i], pa, 0.0 if (lat_w or spec['sum_method'] == 'center') else 1e-12 * float(np.sum(np.abs(p.aws))))):
                if want is None:       # no error array: sum_err must be NaN
                    if not math.isnan(got):
                        viol.append(('ApertureStats.sum_err:no-error-not-nan', 'sum_err is a number although no '
                                     'error array was given', dict(where, got=got)))
                    continue
                if tol is None:
                    tol = 1e-12 * abs(want)
                if not same(got, want, atol=tol):
                    sig = f'ApertureStats.{name}:ne-photometry'
                    if name == 'sum_aper_area' and math.isnan(got) and not np.any((p.awc != 0) & ~p.m0c & ~(p.clipc if p.clipc is not None else False)):
                        sig = 'ApertureStats.sum_aper_area:no-centre-pixel'
                    viol.append((sig, f'{name} = {got!r} but aperture_photometry / area_overlap with the same method '
                                 f'gives {want!r} (an unmasked pixel has positive weight)', dict(where, got=got, want=want)))
        # ---- P2: statistics of the pixel set
        pts, st = set_oracle(spec, p, data, mask)
        if st is not None:
            counts['std_mad_biweight_mode_on_value_list'] = counts.get('std_mad_biweight_mode_on_value_list', 0) + 1
            for name in SET_STATS:
                got, want = impl[name][i], st[name]
                if name in ('min', 'max', 'median') and lat_data:
                    ok = same(got, want)
                else:
                    scale = max(abs(st['min']), abs(st['max']), 1e-300)
                    ok = same(got, want, atol=1e-9 * (scale * scale if 'var' in name else scale), rtol=1e-9)
                if not ok:
                    viol.append((f'ApertureStats.{name}:set-statistic', f'{name} = {got!r}, directly from the '
                                 f'{st["npix"]} aperture pixels: {want!r}', dict(where, got=got, want=want)))
            if lat_data and not same(impl['center_aper_area'][i], st['npix']):
                viol.append(('ApertureStats.center_aper_area:set-statistic', 'center_aper_area != number of pixels '
                             'of the set', dict(where, got=impl['center_aper_area'][i], want=st['npix'])))
            # covariance must not be NaN when the exact determinant of the set's covariance is >= 0
            # (e.g. collinear pixels: exactly singular; the float determinant can round below zero)
            ex = exact_cov_det(pts)
            if ex is not None and ex >= 0 and not all(math.isfinite(v) for v in
                                                      (impl['covar_sigx2'][i], impl['covar_sigxy'][i], impl['covar_sigy2'][i])):
                viol.append(('ApertureStats.covariance:nan-for-singular-covariance',
                             'covariance (and every shape value) is NaN although the pixel set has a non-zero total and '
                             'the exact determinant of its covariance is ' + ('zero (collinear pixels)' if ex == 0 else 'positive'),
                             dict(where, npix=st['npix'])))
            # centroid: decided only when the total flux is not a cancellation artefact
            sabs = float(np.sum(np.abs([t[2] for t in pts])))
            if st['total'] != 0 and abs(st['total']) > 1e-6 * sabs:
                for name, coord in (('xcentroid', 1), ('ycentroid', 0)):
                    got, want = impl[name][i], st[name]
                    span = max(abs(want), nxny(data), 1.0) * sabs / abs(st['total'])
                    if not same(got, want, atol=1e-9 * span):
                        lowleft = p.bbox[0] < 0 if coord == 1 else p.bbox[2] < 0
                        sig = ('ApertureStats.centroid:bbox-extends-below-zero' if lowleft
                               else f'ApertureStats.{name}:set-statistic')
                        viol.append((sig, f'{name} = {got!r}, flux-weighted mean coordinate of the aperture pixels: '
                                     f'{want!r}', dict(where, got=got, want=want)))
                # shape values, when the covariance needs no regularisation and the decision is not marginal
                if st['cov'] is not None and abs(st['total']) > 1e-3 * sabs:
                    cxx, cxy, cyy = st['cov']
                    det = cxx * cyy - cxy * cxy
                    marg = 1e-6 * (st['absmom'] ** 2 + 1)
                    if det > (1.0 / 12) ** 2 + marg and cxx > 0 and cyy > 0:
                        tr = cxx + cyy
                        disc = math.sqrt(max((cxx - cyy) ** 2 / 4 + cxy * cxy, 0.0))
                        l1, l2 = tr / 2 + disc, tr / 2 - disc
                        if l2 > marg:
                            want = {'semimajor_sigma': math.sqrt(l1), 'semiminor_sigma': math.sqrt(l2),
                                    'covar_sigx2': cxx, 'covar_sigy2': cyy, 'covar_sigxy': cxy,
                                    'fwhm': 2.0 * math.sqrt(math.log(2.0) * (l1 + l2)),
                                    'eccentricity': math.sqrt(max(1.0 - l2 / l1, 0.0)),
                                    'elongation': math.sqrt(l1 / l2)}
                            counts['shape_values_vs_set_moments'] = counts.get('shape_values_vs_set_moments', 0) + 1
                            if disc > 1e-6 * tr:
                                want['orientation'] = math.degrees(0.5 * math.atan2(2.0 * cxy, cxx - cyy))
                            for name, w in want.items():
                                tol = 1e-6 * (st['absmom'] + 1) * (sabs / abs(st['total']))
                                if name == 'orientation':
                                    d = abs(impl[name][i] - w) % 180.0
                                    ok = min(d, 180.0 - d) <= 1e-4 * (1 + tr / disc)
                                elif name in ('eccentricity',):
                                    ok = same(impl[name][i], w, atol=1e-4 * (1 + tr / max(disc, 1e-300)) ** 0.5)
                                else:
                                    ok = same(impl[name][i], w, atol=tol, rtol=1e-6)
                                if not ok:
                                    viol.append((f'ApertureStats.{name}:set-statistic', f'{name} = {impl[name][i]!r}, '
                                                 f'from the moments of the aperture pixels: {w!r}',
                                                 dict(where, got=impl[name][i], want=w)))
        else:
            # ---- P3: no overlap / nothing unmasked (in the centre-method set) => NaN
            counts['empty_set_all_nan'] = counts.get('empty_set_all_nan', 0) + 1
            for name in NAN_PROPS:
                if name in SUM_NAN_PROPS:
                    continue
                if not math.isnan(impl[name][i]):
                    viol.append((f'ApertureStats.{name}:not-nan', f'{name} = {impl[name][i]!r} for an aperture '
                                 'without any usable pixel', dict(where, got=impl[name][i])))
        # ---- P6: shape parameters = closed forms (C07R) of the covariance matrix; finite whenever the
        # covariance is finite and positive definite.  Eigenvalues of a symmetric 2 x 2 matrix are accurate to a
        # few ulp of its trace whatever correct method computes them: tolerance 1e-13 * trace on the SQUARES.
        viol += shape_closed_forms(impl, i, where, counts)
        any_unmasked = False
        if p.overlap:
            y0, y1, x0, x1 = p.large
            any_unmasked = bool((((p.aws != 0) | (p.awc != 0)) & ~p.dmask).any())
        if not any_unmasked:
            for name in SUM_NAN_PROPS:
                if not math.isnan(impl[name][i]):
                    viol.append((f'ApertureStats.{name}:not-nan', f'{name} = {impl[name][i]!r} for an aperture '
                                 'with no overlap or no unmasked pixel', dict(where, got=impl[name][i])))
        # bbox and the table are the same numbers
        if (int(impl['bbox_xmin'][i]), int(impl['bbox_xmax'][i]) + 1, int(impl['bbox_ymin'][i]),
                int(impl['bbox_ymax'][i]) + 1) != tuple(p.bbox):
            viol.append(('ApertureStats.bbox', 'bbox_* differ from the aperture bounding box', where))
        if not same(impl['table_sum'][i], impl['sum'][i]) or not same(impl['table_xcentroid'][i], impl['xcentroid'][i]):
            viol.append(('ApertureStats.to_table', 'to_table() differs from the attributes', where))
    return viol


def nxny(data):
    return float(max(data.shape))


def single_oracle(spec, impl, infos):
    """P4: row i of the batch == ApertureStats of position i alone with that position's local_bkg"""
    viol = []
    n = len(infos)
    if n < 2:
        return viol
    for i, p in enumerate(infos):
        one = run_impl(spec, index=i, bkg=p.bkg)
        for name in ('sum', 'sum_err', 'sum_aper_area', 'min', 'max', 'mean', 'median', 'var', 'xcentroid',
                     'ycentroid', 'semimajor_sigma', 'orientation'):
            if not same(one[name][0], impl[name][i]):
                viol.append(('ApertureStats:batch-ne-single', f'{name}[{i}] of the batch = {impl[name][i]!r}, alone '
                             f'with local_bkg={p.bkg}: {one[name][0]!r}', {'position': i}))
                break
    return viol


PERM_PARENT_FIRST = ('sum', 'min', 'xcentroid')          # evaluated on the parent before indexing
PERM_CHILD_AFTER = ('sum', 'sum_err', 'sum_aper_area', 'center_aper_area', 'min', 'max', 'mean', 'median', 'std',
                    'var', 'xcentroid', 'ycentroid', 'semimajor_sigma', 'orientation', 'bbox_xmin', 'bbox_ymin')


def perm_oracle(spec, infos, rng_seed):
    """P5: properties are cached on the parent, then the parent is indexed by an arbitrary index list
    (non-monotonic, repeats) or by get_ids; every row j of the child must equal the single-position
    ApertureStats of position perm[j] with that position's local background."""
    import random
    viol = []
    n = len(infos)
    if n < 2 or any(p.bkg is None for p in infos):
        return viol
    rng = random.Random(rng_seed)
    singles = {}
    for form in ('list', 'get_ids'):
        if form == 'list':
            perm = [rng.randrange(n) for _ in range(rng.randint(2, n + 1))]
            if sorted(perm) == perm:
                perm = perm[::-1] if len(set(perm)) > 1 else [n - 1, 0] + perm
        else:
            perm = rng.sample(range(n), rng.randint(2, n))
            if sorted(perm) == perm:
                perm = perm[::-1]
        with warnings.catch_warnings():
            warnings.simplefilter('ignore')
            try:
                parent = make_stats(spec)
                for name in PERM_PARENT_FIRST:
                    getattr(parent, name)
                child = parent[perm] if form == 'list' else parent.get_ids([i + 1 for i in perm])
                got = {name: _vals(getattr(child, name)) for name in PERM_CHILD_AFTER}
                mom = np.asarray(child.moments, dtype=float).reshape((len(perm), 4, 4))
            except Exception as e:      # noqa
                viol.append(('ApertureStats.__getitem__:exception', f'{form} index {perm}: {type(e).__name__}: '
                             f'{str(e)[:100]}', {'index': perm, 'form': form}))
                continue
        for j, i in enumerate(perm):
            if i not in singles:
                one = make_stats(spec, index=i, bkg=infos[i].bkg)
                with warnings.catch_warnings():
                    warnings.simplefilter('ignore')
                    singles[i] = ({name: _vals(getattr(one, name))[0] for name in PERM_CHILD_AFTER},
                                  np.asarray(one.moments, dtype=float).reshape((4, 4)))
            want, wmom = singles[i]
            bad = [name for name in PERM_CHILD_AFTER
                   if len(got[name]) != len(perm) or not same(got[name][j], want[name], rtol=1e-9, atol=1e-9)]
            if not bad and not all(same(a, b, rtol=1e-9, atol=1e-9) for a, b in zip(mom[j].ravel(), wmom.ravel())):
                bad = ['moments']
            if bad:
                viol.append(('ApertureStats.__getitem__:reordered-child', f'row {j} of apstats[{perm}] ({form}; '
                             f'{", ".join(PERM_PARENT_FIRST)} cached on the parent first) differs from the '
                             f'single-position result of position {i} in {bad[:6]}', {'index': perm, 'form': form}))
                break
    return viol


# --------------------------------------------------------------------------
def describe(spec):
    return {k: spec[k] for k in ('data', 'err', 'mask', 'aper', 'sum_method', 'subpixels', 'sigma_clip',
                                 'local_bkg', 'wcs', 'lattice')}


def classify(ctx, spec, infos, impl):
    for i, p in enumerate(infos):
        ctx.stat('position', spec['kinds'][i] if i < len(spec['kinds']) else '?')
        if not p.overlap:
            ctx.stat('overlap', 'none')
        elif p.bkg is not None:
            full = p.bbox[0] >= 0 and p.bbox[2] >= 0 and p.large[1] == p.bbox[3] and p.large[3] == p.bbox[1]
            ctx.stat('overlap', 'full' if full else ('straddles-low' if (p.bbox[0] < 0 or p.bbox[2] < 0) else 'straddles-high'))
            nc = int(((p.awc != 0) & ~p.m0c).sum())
            ctx.stat('centre-set', 'empty' if nc == 0 else ('1' if nc == 1 else '>1'))
            if nc == 0 and ((p.aws != 0) & ~p.m0s).any():
                ctx.stat('centre-set', 'empty-but-sum-weights-positive')
            if p.clipc is not None:
                ctx.stat('sigma-clip', 'rejects' if (p.clipc & ~p.m0c).any() else 'rejects-nothing')
    ctx.stat('hypotheses', 'sum-weights-nonneg' if all(p.nonneg for p in infos) else 'negative-sum-weight(exact annulus)')
    ws_, lat_ = weight_scale(spec, infos)
    if not lat_ and spec['sum_method'] != 'center':
        for p in infos:
            z = p.Ws * ws_
            ctx.stat('sum-weights', 'rounded-to-1/WS-grid(slack-bounded)' if np.any(z != np.round(z)) else 'non-dyadic-but-exact-at-1/WS')
    else:
        ctx.stat('sum-weights', 'exact-lattice', len(infos))
    ctx.stat('class', spec['aper']['cls'] + ('(sky)' if spec.get('wcs') else ''))
    ctx.stat('sum_method', f"{spec['sum_method']}/subpixels={spec['subpixels']}")
    sg = spec['sigma_clip']
    ctx.stat('sigma_clip', 'None' if sg is None else f"{sg['cenfunc']}/{sg['stdfunc']}")
    if sg is not None:
        ctx.stat('sigma_clip-args', f"grow={sg.get('grow', False)}")
        ctx.stat('sigma_clip-args', 'asymmetric' if (sg.get('sigma_lower') or sg.get('sigma_upper')) else 'symmetric')
        ctx.stat('sigma_clip-args', f"maxiters={sg['maxiters']}")
        if sg.get('grow') and any(p.clipc is not None and (p.clipc & ~p.m0c).any() for p in infos if p.overlap and p.bkg is not None):
            ctx.stat('sigma_clip-args', 'grow>0-and-rejects-in-aperture')
    lb = spec['local_bkg']
    ctx.stat('local_bkg', 'None' if lb is None else ('scalar' if np.isscalar(lb) else
                                                     ('per-position' if impl is not None else 'invalid-length')))
    ctx.stat('inputs', 'mask' if spec['mask'] is not None else 'no-mask')
    ctx.stat('inputs', 'error' if spec['err'] is not None else 'no-error')
    for c in spec.get('bad_err', []):
        ctx.stat('non-finite-error-at', {'a': 'masked-pixel', 'b': 'non-finite-data-pixel',
                                        'c': 'zero-weight-pixel-in-bbox', 'd': 'pixel-of-the-set'}[c])
    ctx.stat('inputs', 'scalar-aperture' if spec['aper']['scalar'] else 'position-list')


def run(ctx):
    from . import c16e
    # C07R: shape parameters over R; C16E: the per-aperture statistics (median, mode, std/var, mad_std, biweight …)
    # as functions of the proved value list, through the C11E / C11S estimator and sigma-clip models
    ctx.build_with_translator(FILES, extra_files=['C07R_Model.v', 'C07R_Proofs.v', 'C07R_Properties.v'] + c16e.COQ_FILES,
                              extra_obligation_files=['C07R_Properties.v'] + c16e.OBLIGATION_FILES)
    ctx.cov['rule'] = (
        'random images 1..10 px a side on the 1/8 lattice (integers, dyadics, ramps, sparse, blobs, outliers, '
        'NaN/inf) x six pixel aperture classes and their sky forms through a TAN WCS x 1..4 positions '
        '(inside, edge, corner, outside, touching, pixel-corner) x mask (none / all / none set / random) x error '
        'x sum_method (center, subpixel, exact) always crossed with subpixels (1, 2, 5, 32, 4/8/16 or 3/7) x sigma_clip (None or '
        'SigmaClip sigma / sigma_lower / sigma_upper / maxiters incl. None / cenfunc / stdfunc / grow in {False, 1, 1.5, 2}) '
        'x local_bkg (None, scalar, per position, wrong length) x NaN/inf in the error map at masked / non-finite-data / zero-weight / in-set pixels; re-ordered children apstats[index list], get_ids; thorough adds arbitrary-double images for the '
        'Python oracles; non-trivial = some position has a non-empty pixel set; distinct = distinct full spec')
    ctx.assumptions += [
        "which pixels have their centre in the aperture / the sum-method weights are taken from the implementation's "
        "aperture.to_mask (C01's subject), including sky apertures converted with to_pixel(wcs)",
        'the SigmaClip output mask is an input of the model (obtained by calling the same SigmaClip on the same '
        'masked cutout); the hypothesis that it contains its input mask is checked on every case',
        'mad_std / biweight_* / std: numpy / astropy functions applied to the proved value list (Python oracle); '
        'covariance regularisation, eigenvalues and the derived shape values are compared in Python with decision '
        'margins, not modelled in Coq',
        "sum_method='exact' on curved apertures has non-dyadic weights: they are handed to Coq rounded to the 2^-60 "
        'grid and sum / sum_err^2 / sum_aper_area are compared within 2^-40 relative PLUS the rigorous bound of that '
        'rounding (sum |data-bkg|, sum err^2, number of cells, times 2^-60; quant_slack in C16_Model.v); the Python '
        'oracle compares the same quantities with aperture_photometry / area_overlap at 1e-12; everything else '
        'exactly / correctly rounded']
    ctx.cov['partial_clauses'] = [
        'covariance after the 1/12 regularisation loop: mirrored in the Coq model and compared (2^-40) where no '
        'float decision (det < 0, det < 1/144) is within 2^-30 of a tie; eigenvalues and the derived shape values '
        '(semimajor_sigma ... cxy) are tested in Python against the moments of the pixel set only where the '
        'covariance needs no regularisation',
        'sigma clipping: the theorems take the clip mask as given and assume it contains the input mask']
    n = 320 if ctx.tier == 'quick' else 2400
    specs = [gen_spec(ctx.rng) for _ in range(n)]
    coq_cases, keep = [], []
    counts = {}
    for k, spec in enumerate(specs):
        try:
            infos = position_info(spec)
        except Exception as e:      # to_mask itself failed: not this property's subject
            ctx.stat('generator', 'to_mask-error:' + type(e).__name__)
            continue
        valid = all(p.bkg is not None for p in infos)
        impl = None
        try:
            impl = run_impl(spec)
            raised = None
        except Exception as e:      # noqa
            raised = e
        classify(ctx, spec, infos, impl)
        nontrivial = any(p.overlap and ((p.awc != 0) & ~p.m0c).any() for p in infos) if valid else False
        ctx.count_case(describe(spec), nontrivial)
        if raised is not None and valid:
            ctx.violation('ApertureStats:exception', f'{type(raised).__name__}: {str(raised)[:160]}', describe(spec))
            continue
        if not valid:
            if raised is None or not isinstance(raised, ValueError):
                ctx.violation('ApertureStats:local_bkg-length', 'wrong-length local_bkg not rejected with ValueError',
                              describe(spec))
                continue
            coq_cases.append(to_coq(spec, infos, None, None))
            keep.append((spec, None, infos))
            continue
        phot = photometry_reference(spec, infos)
        for sig, what, detail in oracles(spec, impl, infos, phot, counts):
            ctx.violation(sig, what, dict(describe(spec), detail=detail, cmd='bin/check C16 --replay <this file>'))
        if k % 4 == 0:
            for sig, what, detail in single_oracle(spec, impl, infos):
                ctx.violation(sig, what, dict(describe(spec), detail=detail))
            ctx.support('batch_row_equals_single_position', 1)
        if k % 3 == 1 and len(infos) >= 2:
            for sig, what, detail in perm_oracle(spec, infos, ctx.seed * 100003 + k):
                ctx.violation(sig, what, dict(describe(spec), detail=detail, perm_seed=ctx.seed * 100003 + k))
            ctx.support('reordered_child_rows_equal_single_position', 1)
        coq_cases.append(to_coq(spec, infos, impl, phot))
        keep.append((spec, impl, infos))
        if len(ctx.cov['samples']) < 2 and nontrivial:
            ctx.sample({'spec': describe(spec), 'impl_sum': [_enc(v) for v in impl['sum']],
                        'impl_mean': [_enc(v) for v in impl['mean']],
                        'impl_xcentroid': [_enc(v) for v in impl['xcentroid']]})
    bad = ctx.coq_eval_cases(['C16_Model'], 'check_case', coq_cases, case_type='case')
    ctx.stat('coq', 'disagreements', len(bad))
    for i in bad[:12]:
        spec, impl, infos = keep[i]
        v = oracles(spec, impl, infos) if impl is not None else []
        detail = dict(describe(spec), cmd='bin/check C16 --replay <this file>')
        if len(bad) < 40:
            try:
                detail['model'] = ctx.coq_eval_term(['C16_Model'], f'model_out {coq_cases[i]}')[:4000]
            except Exception:       # noqa
                pass
        if impl is not None:
            detail['impl'] = {k: [_enc(x) for x in impl[k]] for k in
                              ('sum', 'sum_err', 'sum_aper_area', 'center_aper_area', 'min', 'max', 'mean', 'median',
                               'var', 'xcentroid', 'ycentroid')}
        if v:
            sig, what, d = v[0]
            ctx.violation(sig, what, dict(detail, detail=d))
        else:
            ctx.violation('correspondence:C16_Model.check_case', 'model and implementation disagree although the '
                          'Python oracles accept the output', detail, found_input=False)
    # arbitrary doubles: Python oracles only (supporting exploration)
    m = 40 if ctx.tier == 'quick' else 600
    for _ in range(m):
        spec = gen_spec(ctx.rng, lattice=False)
        if bkg_list(spec['local_bkg'], len(spec['aper']['positions'])) is None:
            continue
        try:
            infos = position_info(spec)
        except Exception:           # noqa
            continue
        ctx.count_case(describe(spec), True)
        for sig, what, detail in oracles(spec, None, infos, None, counts):
            ctx.violation(sig, what, dict(describe(spec), detail=detail, cmd='bin/check C16 --replay <this file>'))
        ctx.support('arbitrary_double_images_python_oracles', 1)
    # (nearly) isotropic second moments: degenerate covariance eigenvalues (Python oracles P1..P6)
    m = 120 if ctx.tier == 'quick' else 1500
    for _ in range(m):
        spec = gen_iso_spec(ctx.rng)
        try:
            infos = position_info(spec)
        except Exception:           # noqa
            continue
        ctx.count_case(describe(spec), True)
        ctx.stat('isotropic-family', spec['dkind'].split('(')[0].split(':')[1] + '@' + spec['dkind'].split('@')[1])
        ctx.stat('isotropic-family', 'perturbed' if spec['iso_perturbation'] else 'exactly-symmetric')
        for sig, what, detail in oracles(spec, None, infos, None, counts):
            ctx.violation(sig, what, dict(describe(spec), detail=detail, cmd='bin/check C16 --replay <this file>'))
        ctx.support('isotropic_sources_in_concentric_apertures', 1)
    for name, cnt in sorted(counts.items()):
        ctx.support(name + ' (positions)', cnt)
    # statistics of the real ApertureStats against C16E_Model (own PRNG)
    c16e.run_statistics_correspondence(ctx, 150 if ctx.tier == 'quick' else 1500)


def replay(obj):
    r = obj['replay']
    spec = {k: r.get(k) for k in ('data', 'err', 'mask', 'aper', 'sum_method', 'subpixels', 'sigma_clip',
                                  'local_bkg', 'wcs', 'lattice')}
    spec['kinds'] = []
    v = oracles(spec)
    v += [] if v else single_oracle(spec, run_impl(spec), position_info(spec))
    if r.get('perm_seed') is not None or not v:
        v += perm_oracle(spec, position_info(spec), r.get('perm_seed') or 0)
    for sig, what, detail in v:
        print(f'[{sig}] {what} {detail}')
    print('property holds on this input' if not v else 'property FAILS on this input')
    return 1 if v else 0
