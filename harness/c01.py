"""C01 — aperture masks are the true pixel-overlap fractions of the shape.

K  : to_mask / bbox / get_overlap_slices / union / intersection / from_float of the real API against the
     Coq model (coq/C01_Model.v, `check_case`) on an exact lattice and on arbitrary doubles (decision margins).
T  : the geometry kernels live in compiled extension modules whose .pyx sources cannot be rebuilt here; the
     current *text* of photutils/geometry/*.pyx is re-interpreted by a small fail-closed translator
     (`load_kernels`) and executed (i) against the compiled kernels (bit-identical expected) and (ii) against the
     same oracles as the compiled code, so an edited kernel text that breaks the property yields a concrete input.
V  : independent Python oracles (exact rational centre counting; circle/ellipse-polygon intersection areas by
     boundary integration; polygon clipping for rectangles; pixel-set semantics of slices).
"""
import ast
import hashlib
import math
import re
from fractions import Fraction as F

import numpy as np

from . import core
from .core import coq, Some, Raw

PID = 'C01'
FILES = ['lib/Cases.v', 'C01_Model.v', 'C01_Proofs.v', 'C01_Properties.v']
POW2 = (1, 2, 4, 8, 16, 32)
TOL0 = F(1, 2 ** 40)
FAMS = ('circle', 'cannulus', 'ellipse', 'eannulus', 'rect', 'rannulus')


def q(x):
    return F(float(x))


# =====================================================================================================
# T: fail-closed re-interpretation of the .pyx kernel texts
# =====================================================================================================
PYX = ['core.pyx', 'circular_overlap.pyx', 'elliptical_overlap.pyx', 'rectangular_overlap.pyx']
STRUCT = {'point': '_Point', 'intersections': '_Inter'}
CTYPE = r'(?:unsigned\s+int|double|int|bool|point|intersections|np\.ndarray\[[^\]]*\])'


class Untranslatable(Exception):
    pass


class _Point:
    __slots__ = ('x', 'y')

    def __init__(self, x=float('nan'), y=float('nan')):
        self.x, self.y = x, y


class _Inter:
    __slots__ = ('p1', 'p2')

    def __init__(self):
        self.p1, self.p2 = _Point(), _Point()


def _cp(v):
    """C struct value semantics: assignment / return copies."""
    if isinstance(v, _Point):
        return _Point(v.x, v.y)
    if isinstance(v, _Inter):
        r = _Inter()
        r.p1, r.p2 = _cp(v.p1), _cp(v.p2)
        return r
    return v


def _div(a, b):
    try:
        return a / b
    except ZeroDivisionError:
        a = float(a)
        if a != a or a == 0.0:
            return float('nan')
        neg = (a < 0) != (math.copysign(1.0, float(b)) < 0)
        return -math.inf if neg else math.inf


def _sqrt(x):
    return math.sqrt(x) if x >= 0 else float('nan')


def _asin(x):
    return math.asin(x) if -1.0 <= x <= 1.0 else float('nan')


def _pow(a, b):
    # `x ** 2` on C doubles is pow(x, 2.0), which the C compiler folds to x * x (no pow call is left in the
    # extension modules); libm pow is not bit-identical to x * x, so mirror the folding
    if b == 2:
        return a * a
    try:
        return math.pow(a, b)
    except (OverflowError, ValueError, ZeroDivisionError):
        return math.inf


def _preprocess(text, fname):
    """Line-oriented pre-pass: C declarations and type annotations -> plain Python source."""
    lines = text.split('\n')
    out = []
    i, n = 0, len(lines)
    while i < n:
        ln = lines[i]
        st = ln.strip()
        if re.match(r'^(cimport\s|from\s+\S+\s+cimport\s)', st) or st.startswith('# cython:'):
            out.append('')
            i += 1
            continue
        if re.match(r'^cdef\s+extern\s+from\s+"math\.h"\s*:', st):
            out.append('')
            i += 1
            while i < n and (lines[i].strip() == '' or lines[i].startswith((' ', '\t'))):
                if lines[i].strip() and not re.match(r'^\s+double\s+(asin|sin|cos|sqrt|fabs)\(double x\)\s*$',
                                                     lines[i]):
                    raise Untranslatable(f'{fname}:{i + 1}: unexpected extern declaration: {lines[i].strip()}')
                out.append('')
                i += 1
            continue
        if re.match(r'^ctypedef\s+np\.float64_t\s+DTYPE_t\s*$', st):
            out.append('')
            i += 1
            continue
        m = re.match(r'^ctypedef\s+struct\s+(\w+)\s*:\s*$', st)
        if m:
            if m.group(1) not in STRUCT:
                raise Untranslatable(f'{fname}:{i + 1}: unknown struct {m.group(1)}')
            fields = []
            out.append('')
            i += 1
            while i < n and (lines[i].strip() == '' or lines[i].startswith((' ', '\t'))):
                if lines[i].strip():
                    fields.append(lines[i].strip())
                out.append('')
                i += 1
            want = {'point': ['double x', 'double y'], 'intersections': ['point p1', 'point p2']}[m.group(1)]
            if fields != want:
                raise Untranslatable(f'{fname}: struct {m.group(1)} changed: {fields}')
            continue
        m = re.match(r'^(\s*)(?:cdef\s+' + CTYPE + r'\s+|def\s+)(\w+)\s*\(', ln)
        if m:
            j, hdr = i, ln
            while hdr.count('(') != hdr.count(')') or not hdr.rstrip().endswith(':'):
                j += 1
                if j >= n or j - i > 12:
                    raise Untranslatable(f'{fname}:{i + 1}: unterminated function header')
                hdr += '\n' + lines[j]
            a, b = hdr.index('('), hdr.rindex(')')
            args = re.sub(r'\b' + CTYPE + r'\s+(?=\w)', '', hdr[a + 1:b])
            new = f'{m.group(1)}def {m.group(2)}({args}):'.split('\n')
            out.extend(new)
            out.extend([''] * ((j - i + 1) - len(new)))
            i = j + 1
            continue
        m = re.match(r'^(\s+)cdef\s+(' + CTYPE + r')\s+(.*)$', ln)
        if m:
            ind, ty, rest = m.group(1), m.group(2), m.group(3).split('#')[0].strip()
            if '=' in rest:
                if not re.fullmatch(r'\w+', rest.split('=')[0].strip()):
                    raise Untranslatable(f'{fname}:{i + 1}: unsupported declaration: {st}')
                out.append(ind + rest)
            elif ty in STRUCT:
                out.append(ind + '; '.join(f'{v.strip()} = {STRUCT[ty]}()' for v in rest.split(',')))
            else:
                if not re.fullmatch(r'\w+(\s*,\s*\w+)*', rest):
                    raise Untranslatable(f'{fname}:{i + 1}: unsupported declaration: {st}')
                out.append(ind + 'pass')
            i += 1
            continue
        out.append(ln)
        i += 1
    for k, l in enumerate(out, 1):
        if re.search(r'\b(cdef|ctypedef|cimport|cpdef|nogil|inline)\b', l.split('#')[0]) and '"""' not in l:
            raise Untranslatable(f'{fname}:{k}: unsupported Cython construct: {l.strip()}')
    return '\n'.join(out)


_ALLOWED = (ast.Module, ast.FunctionDef, ast.arguments, ast.arg, ast.Return, ast.Assign, ast.AugAssign, ast.For,
            ast.If, ast.Expr, ast.Pass, ast.Raise, ast.Import, ast.alias, ast.BoolOp, ast.BinOp,
            ast.UnaryOp, ast.Compare, ast.Call, ast.Constant, ast.Attribute, ast.Subscript, ast.Name, ast.List,
            ast.Tuple, ast.Load, ast.Store, ast.And, ast.Or, ast.Not, ast.Add, ast.Sub, ast.Mult, ast.Div, ast.Mod,
            ast.Pow, ast.USub, ast.UAdd, ast.Eq, ast.NotEq, ast.Lt, ast.LtE, ast.Gt, ast.GtE, ast.keyword)


class _Rewrite(ast.NodeTransformer):
    def visit_BinOp(self, node):
        self.generic_visit(node)
        if isinstance(node.op, (ast.Div, ast.Pow)):
            f = '_div' if isinstance(node.op, ast.Div) else '_pow'
            return ast.copy_location(ast.Call(ast.Name(f, ast.Load()), [node.left, node.right], []), node)
        return node

    def _wrap(self, v):
        if isinstance(v, (ast.Name, ast.Attribute)):
            return ast.copy_location(ast.Call(ast.Name('_cp', ast.Load()), [v], []), v)
        if isinstance(v, ast.Tuple):
            return ast.copy_location(ast.Tuple([self._wrap(e) for e in v.elts], ast.Load()), v)
        return v

    def visit_Assign(self, node):
        self.generic_visit(node)
        node.value = self._wrap(node.value)
        return node

    def visit_Return(self, node):
        self.generic_visit(node)
        if node.value is not None:
            node.value = self._wrap(node.value)
        return node


def _translate(text, fname):
    src = _preprocess(text, fname)
    try:
        tree = ast.parse(src, filename=fname)
    except SyntaxError as e:
        raise Untranslatable(f'{fname}:{e.lineno}: not in the supported subset: {e.msg}')
    for node in ast.walk(tree):
        if not isinstance(node, _ALLOWED):
            raise Untranslatable(f'{fname}:{getattr(node, "lineno", "?")}: unsupported node {type(node).__name__}')
        if isinstance(node, ast.Import) and [a.name for a in node.names] != ['numpy']:
            raise Untranslatable(f'{fname}:{node.lineno}: unexpected import')
    tree.body = [st for st in tree.body if not isinstance(st, ast.Import)]
    tree = _Rewrite().visit(tree)
    ast.fix_missing_locations(tree)
    return tree


KERNELS = ['circular_overlap_grid', 'elliptical_overlap_grid', 'rectangular_overlap_grid',
           'circular_overlap_single_subpixel', 'circular_overlap_single_exact', 'circular_overlap_core',
           'elliptical_overlap_single_subpixel', 'elliptical_overlap_single_exact',
           'rectangular_overlap_single_subpixel', 'overlap_area_triangle_unit_circle', 'area_arc',
           'area_triangle', 'floor_sqrt']


def load_kernels(repo):
    """Namespace with the Python re-interpretation of all kernels in the current .pyx texts."""
    ns = {'np': np, '_div': _div, '_pow': _pow, '_cp': _cp, '_Point': _Point, '_Inter': _Inter,
          'sqrt': _sqrt, 'asin': _asin, 'sin': math.sin, 'cos': math.cos, 'fabs': abs, 'abs': abs,
          'max': max, 'min': min, 'range': range, 'Exception': Exception,
          'NotImplementedError': NotImplementedError, '__builtins__': {}}
    spans = []
    for f in PYX:
        p = repo / 'photutils' / 'geometry' / f
        text = p.read_text()
        exec(compile(_translate(text, f), str(p), 'exec'), ns)
        spans.append({'file': 'photutils/geometry/' + f, 'lines': text.count('\n') + 1,
                      'sha1': hashlib.sha1(text.encode()).hexdigest()[:16]})
    for k in KERNELS:
        if not callable(ns.get(k)):
            raise Untranslatable(f'kernel function {k} not found in the .pyx texts')
    return ns, spans


# =====================================================================================================
# the implementation under test, through two routes: compiled kernels (public to_mask) and kernel text
# =====================================================================================================
def make_aperture(case):
    from photutils import aperture as ap
    cls = {'circle': ap.CircularAperture, 'cannulus': ap.CircularAnnulus, 'ellipse': ap.EllipticalAperture,
           'eannulus': ap.EllipticalAnnulus, 'rect': ap.RectangularAperture, 'rannulus': ap.RectangularAnnulus}
    return cls[case['fam']]((case['px'], case['py']), **case['params'])


def shapes_of(case, aper=None):
    """(outer, inner) as ('Circle'|'Ellipse'|'Rect', [floats]) with the float cos/sin of theta; the inner
    parameters are those the constructor stored."""
    fam, p = case['fam'], case['params']
    th = float(p.get('theta', 0.0))
    c, s = math.cos(th), math.sin(th)
    if aper is None:
        aper = make_aperture(case)
    if fam == 'circle':
        return ('Circle', [p['r']]), None
    if fam == 'cannulus':
        return ('Circle', [p['r_out']]), ('Circle', [p['r_in']])
    if fam == 'ellipse':
        return ('Ellipse', [p['a'], p['b'], c, s]), None
    if fam == 'eannulus':
        return ('Ellipse', [p['a_out'], p['b_out'], c, s]), ('Ellipse', [p['a_in'], float(aper.b_in), c, s])
    if fam == 'rect':
        return ('Rect', [p['w'], p['h'], c, s]), None
    return ('Rect', [p['w_out'], p['h_out'], c, s]), ('Rect', [p['w_in'], float(aper.h_in), c, s])


def text_mask(ns, case, aper):
    """MaskMixin.to_mask with the kernels taken from the .pyx *text* (same Python-level plumbing:
    _translate_mask_mode, _bbox, _centered_edges are the real ones)."""
    fam = case['fam']
    rect = fam in ('rect', 'rannulus')
    use_exact, sub = aper._translate_mask_mode(case['method'], case['sub'], rectangle=rect) if rect else \
        aper._translate_mask_mode(case['method'], case['sub'])
    if rect:
        use_exact = 0
    bbox, e = aper._bbox[0], aper._centered_edges[0]
    ny, nx = bbox.shape
    outer, inner = shapes_of(case, aper)
    th = float(case['params'].get('theta', 0.0))

    def one(sh):
        if sh[0] == 'Circle':
            return ns['circular_overlap_grid'](e[0], e[1], e[2], e[3], nx, ny, sh[1][0], use_exact, sub)
        if sh[0] == 'Ellipse':
            return ns['elliptical_overlap_grid'](e[0], e[1], e[2], e[3], nx, ny, sh[1][0], sh[1][1], th,
                                                 use_exact, sub)
        return ns['rectangular_overlap_grid'](e[0], e[1], e[2], e[3], nx, ny, sh[1][0], sh[1][1], th, 0, sub)
    m = one(outer)
    if inner is not None:
        m -= one(inner)
    return m


# =====================================================================================================
# V: independent oracles
# =====================================================================================================
def margin_exact(sh, x, y):
    """(inside, min |deciding quantity|) of the strict centre test, in exact rationals."""
    kind, v = sh
    v = [q(t) for t in v]
    if kind == 'Circle':
        m = x * x + y * y - v[0] * v[0]
        return m < 0, abs(m)
    a, b, c, s = v
    xt, yt = y * s + x * c, y * c - x * s
    if kind == 'Ellipse':
        m = xt * xt / (a * a) + yt * yt / (b * b) - 1
        return m < 0, abs(m)
    m1, m2 = abs(xt) - a / 2, abs(yt) - b / 2
    return (m1 < 0 and m2 < 0), min(abs(m1), abs(m2))


def oracle_counts(case, bb, s, tol):
    """Number of sub-pixel centres inside (outer minus inner) per pixel, by definition, + decidedness."""
    outer, inner = shapes_of(case)
    px, py = q(case['px']), q(case['py'])
    ny, nx = bb[3] - bb[2], bb[1] - bb[0]
    cnt = np.zeros((ny, nx), int)
    dec = np.ones((ny, nx), bool)
    offs = [F(2 * a + 1, 2 * s) for a in range(s)]
    for j in range(ny):
        for i in range(nx):
            x0, y0 = F(bb[0] + i) - F(1, 2) - px, F(bb[2] + j) - F(1, 2) - py
            n = 0
            for ox in offs:
                for oy in offs:
                    io, mo = margin_exact(outer, x0 + ox, y0 + oy)
                    ii, mi = (False, F(1)) if inner is None else margin_exact(inner, x0 + ox, y0 + oy)
                    if tol is not None and min(mo, mi) <= tol:
                        dec[j, i] = False
                    n += int(io) - int(ii)
            cnt[j, i] = n
    return cnt, dec


def _seg_disc(px, py, qx, qy, r):
    """signed area of triangle(0, p, q) intersected with the disc of radius r at the origin"""
    dx, dy = qx - px, qy - py
    a = dx * dx + dy * dy
    if a == 0.0:
        return 0.0
    b = 2.0 * (px * dx + py * dy)
    c = px * px + py * py - r * r
    disc = b * b - 4.0 * a * c
    ts = [0.0, 1.0]
    if disc > 0.0:
        sq = math.sqrt(disc)
        qq = -0.5 * (b + math.copysign(sq, b))
        for t in ((qq / a), (c / qq if qq != 0.0 else None)):
            if t is not None and 0.0 < t < 1.0:
                ts.append(t)
    ts.sort()
    tot = 0.0
    for t0, t1 in zip(ts[:-1], ts[1:]):
        ux, uy, vx, vy = px + t0 * dx, py + t0 * dy, px + t1 * dx, py + t1 * dy
        tm = 0.5 * (t0 + t1)
        mx, my = px + tm * dx, py + tm * dy
        cr = ux * vy - uy * vx
        if mx * mx + my * my < r * r:
            tot += 0.5 * cr
        else:
            tot += 0.5 * r * r * math.atan2(cr, ux * vx + uy * vy)
    return tot


def disc_polygon_area(poly, r):
    n = len(poly)
    return abs(sum(_seg_disc(poly[k][0], poly[k][1], poly[(k + 1) % n][0], poly[(k + 1) % n][1], r)
                   for k in range(n)))


def _clip_axis(poly, axis, lim, sign):
    """Sutherland-Hodgman against sign*coord <= lim"""
    out = []
    n = len(poly)
    for k in range(n):
        p, r = poly[k], poly[(k + 1) % n]
        dp, dr = sign * p[axis] - lim, sign * r[axis] - lim
        if dp <= 0:
            out.append(p)
        if (dp < 0 < dr) or (dr < 0 < dp):
            t = dp / (dp - dr)
            out.append((p[0] + t * (r[0] - p[0]), p[1] + t * (r[1] - p[1])))
    return out


def rect_polygon_area(poly, w, h):
    for axis, lim in ((0, w / 2), (1, h / 2)):
        for sign in (1, -1):
            if not poly:
                return 0.0
            poly = _clip_axis(poly, axis, lim, sign)
    n = len(poly)
    return 0.5 * abs(sum(poly[k][0] * poly[(k + 1) % n][1] - poly[(k + 1) % n][0] * poly[k][1] for k in range(n)))


def true_weights(case, bb):
    """True area fraction of each bbox pixel covered by the shape (independent of the kernels)."""
    outer, inner = shapes_of(case)
    th = float(case['params'].get('theta', 0.0))
    c, s = math.cos(th), math.sin(th)
    px, py = case['px'], case['py']
    ny, nx = bb[3] - bb[2], bb[1] - bb[0]
    w = np.zeros((ny, nx))
    for sign, sh in ((1.0, outer), (-1.0, inner)):
        if sh is None:
            continue
        for j in range(ny):
            for i in range(nx):
                x0, y0 = bb[0] + i - 0.5 - px, bb[2] + j - 0.5 - py
                cor = [(x0, y0), (x0 + 1, y0), (x0 + 1, y0 + 1), (x0, y0 + 1)]
                if sh[0] == 'Circle':
                    a = disc_polygon_area(cor, sh[1][0])
                elif sh[0] == 'Ellipse':
                    aa, bb_ = sh[1][0], sh[1][1]
                    pol = [((x * c + y * s) / aa, (-x * s + y * c) / bb_) for x, y in cor]
                    a = disc_polygon_area(pol, 1.0) * aa * bb_
                else:
                    pol = [(x * c + y * s, -x * s + y * c) for x, y in cor]
                    a = rect_polygon_area(pol, sh[1][0], sh[1][1])
                w[j, i] += sign * a
    return w


def true_extents(case):
    outer, _ = shapes_of(case)
    v = outer[1]
    if outer[0] == 'Circle':
        return v[0], v[0]
    th = float(case['params'].get('theta', 0.0))
    c, s = math.cos(th), math.sin(th)
    if outer[0] == 'Ellipse':
        return math.hypot(v[0] * c, v[1] * s), math.hypot(v[0] * s, v[1] * c)
    return abs(v[0] / 2 * c) + abs(v[1] / 2 * s), abs(v[0] / 2 * s) + abs(v[1] / 2 * c)


def ellipse_degenerate(case, aper=None):
    """Label of the degenerate alignment class of an 'exact' elliptical mask, or None.  In these classes the
    compiled overlap_area_triangle_unit_circle case analysis (1e-10 snapping, strict delta > 0 tests) is known to
    return wrong or NaN areas (fixes/C01-known.json): (i) a pixel-grid line tangent to the outer or inner
    ellipse, (ii) theta a non-zero multiple of pi/4 (float cos/sin noise of ~1e-16 on exactly aligned vertices)."""
    if case['fam'] not in ('ellipse', 'eannulus') or case['method'] != 'exact':
        return None
    outer, inner = shapes_of(case, aper)
    px, py = case['px'], case['py']
    for sh in (outer, inner):
        if sh is None:
            continue
        a, b, c, s = sh[1]
        ex, ey = math.hypot(a * c, b * s), math.hypot(a * s, b * c)
        if any(abs(v + 0.5 - round(v + 0.5)) < 1e-9 * max(1.0, abs(v)) for v in (px - ex, px + ex, py - ey, py + ey)):
            return 'pixel-edge-tangent'
    th = float(case['params'].get('theta', 0.0))
    k = th / (math.pi / 4)
    if th != 0.0 and abs(k - round(k)) < 1e-9:
        return 'theta-multiple-of-pi/4'
    return None


def bbox_oracle(case, bb):
    """([(name, got, want)], n_skipped): the box must be the smallest integer pixel box containing the shape.
    Lattice cases (dyadic centre/sizes, theta = 0) are decided exactly incl. extents ending exactly on a pixel
    edge; for arbitrary doubles an extent closer than 1e-9 to a pixel edge is not decided in floats (counted)."""
    px, py = case['px'], case['py']
    th = float(case['params'].get('theta', 0.0))
    res = []
    if case.get('lat') and th == 0.0:
        outer, _ = shapes_of(case)
        v = [q(t) for t in outer[1]]
        ex, ey = (v[0], v[0]) if outer[0] == 'Circle' else ((v[0], v[1]) if outer[0] == 'Ellipse' else (v[0] / 2, v[1] / 2))
        h = F(1, 2)
        res = [math.floor(q(px) - ex + h), math.ceil(q(px) + ex + h), math.floor(q(py) - ey + h),
               math.ceil(q(py) + ey + h)]
    else:
        ex, ey = true_extents(case)
        scale = max(1.0, abs(px), abs(py), ex, ey)
        for val, lohi in ((px - ex, 'lo'), (px + ex, 'hi'), (py - ey, 'lo'), (py + ey, 'hi')):
            t = val + 0.5
            if abs(t - round(t)) < 1e-9 * scale:
                res.append(None)
            else:
                res.append(math.floor(t) if lohi == 'lo' else math.ceil(t))
    bad = [(n, g, w) for n, g, w in zip(('ixmin', 'ixmax', 'iymin', 'iymax'), bb, res) if w is not None and g != w]
    return bad, sum(1 for r in res if r is None)


def from_float_oracle(a, ft):
    """message unless ft = (ixmin, ixmax, iymin, iymax) is the smallest integer pixel box containing
    [a0, a1] x [a2, a3] (pixel i spans [i - 1/2, i + 1/2]; upper limits exclusive)"""
    h = F(1, 2)
    ok = (F(ft[0]) - h <= q(a[0]) < F(ft[0]) + h and F(ft[1]) - 3 * h < q(a[1]) <= F(ft[1]) - h
          and F(ft[2]) - h <= q(a[2]) < F(ft[2]) + h and F(ft[3]) - 3 * h < q(a[3]) <= F(ft[3]) - h)
    return None if ok else 'not the smallest integer pixel box containing the rectangle'


def boxalg_oracle(a, b, u, it):
    """union = smallest box containing both pixel sets, intersection = the common pixels (None iff none)"""
    pa = {(y, x) for y in range(a[2], a[3]) for x in range(a[0], a[1])}
    pb = {(y, x) for y in range(b[2], b[3]) for x in range(b[0], b[1])}
    pi = set() if it is None else {(y, x) for y in range(it[2], it[3]) for x in range(it[0], it[1])}
    al = pa | pb
    want_u = (min(p[1] for p in al), max(p[1] for p in al) + 1, min(p[0] for p in al), max(p[0] for p in al) + 1)
    if tuple(u) != want_u:
        return f'union {u} is not the smallest box {want_u} containing both boxes'
    if pi != (pa & pb):
        return 'intersection is not the set of common pixels'
    return None


def slices_oracle(b, shape, sl, ss):
    """pixel-set semantics of get_overlap_slices; returns a message or None"""
    ny, nx = shape
    common = {(y, x) for y in range(max(b[2], 0), min(b[3], ny)) for x in range(max(b[0], 0), min(b[1], nx))}
    if (sl is None) != (ss is None):
        return 'only one of the two slice tuples is None'
    if sl is None:
        return None if not common else f'None returned but {len(common)} pixels are common'
    if not common:
        return 'no pixel is common to the box and the image but the result is not None'
    for t in (sl, ss):
        for u in t:
            if u.step not in (None, 1) or u.start is None or u.stop is None or u.start < 0 or u.stop < u.start:
                return f'malformed slice {u}'
    large = {(y, x) for y in range(sl[0].start, sl[0].stop) for x in range(sl[1].start, sl[1].stop)}
    small = [(y, x) for y in range(ss[0].start, ss[0].stop) for x in range(ss[1].start, ss[1].stop)]
    if large != common:
        return 'slices_large does not select exactly the common pixels'
    if sorted((y + b[2], x + b[0]) for y, x in small) != sorted(common):
        return 'slices_small is not slices_large shifted by the box origin'
    if ss[0].stop > b[3] - b[2] or ss[1].stop > b[1] - b[0] or sl[0].stop > ny or sl[1].stop > nx:
        return 'slice exceeds the array it indexes'
    return None


# =====================================================================================================
# generators
# =====================================================================================================
def lattice(rng, lo, hi, den=8):
    return rng.randint(int(lo * den), int(hi * den)) / den


def gen_mask_case(rng, tier):
    fam = rng.choice(['circle', 'circle', 'cannulus', 'ellipse', 'eannulus', 'rect', 'rannulus'])
    lat = rng.random() < 0.55
    big = rng.random() < 0.06
    if lat:
        pos_kind = rng.choice(['generic', 'integer', 'half', 'far'])
        if pos_kind == 'integer':
            px, py = float(rng.randint(-3, 12)), float(rng.randint(-3, 12))
        elif pos_kind == 'half':
            px, py = rng.randint(-3, 12) + 0.5, rng.randint(-3, 12) + 0.5
        elif pos_kind == 'far':
            px, py = float(rng.choice([-10000, 10000])) + lattice(rng, 0, 1), lattice(rng, -3, 12)
        else:
            px, py = lattice(rng, -3, 12), lattice(rng, -3, 12)
    else:
        pos_kind = 'double'
        px, py = rng.uniform(-3, 12), rng.uniform(-3, 12)
        if rng.random() < 0.1:
            px += rng.choice([-1e4, 1e4])
            pos_kind = 'double-far'
    mx = 40.0 if big else 5.0

    def size(lo=0.125):
        if lat:
            return lattice(rng, lo, mx)
        return rng.choice([rng.uniform(0.03, 1.0), rng.uniform(0.03, mx)])
    theta = 0.0
    if fam in ('ellipse', 'eannulus', 'rect', 'rannulus') and not lat:
        theta = rng.choice([0.0, math.pi / 4, math.pi / 2, 3 * math.pi / 4, math.pi, -math.pi / 4,
                            rng.uniform(-4, 4), rng.uniform(-4, 4)])
    exact_arith = lat
    if fam == 'circle':
        params = dict(r=size())
    elif fam == 'cannulus':
        r_out = size(0.25)
        ratio = rng.choice([0.999, 0.5, 0.25, 0.9])
        r_in = (lattice(rng, 0.125, max(0.125, r_out - 0.125)) if lat else r_out * ratio)
        if not r_in < r_out:
            r_in = r_out / 2
        params = dict(r_in=r_in, r_out=r_out)
    elif fam == 'ellipse':
        if lat:
            a, b = rng.choice([0.5, 1.0, 2.0, 4.0]), rng.choice([0.5, 1.0, 2.0, 4.0])
        else:
            a = size()
            b = a * rng.choice([1.0, 0.5, 0.02, rng.uniform(0.02, 1)])
        params = dict(a=a, b=b, theta=theta)
    elif fam == 'eannulus':
        if lat:
            a_out, b_out = rng.choice([(2.0, 1.0), (4.0, 2.0), (4.0, 4.0), (2.0, 2.0)])
            a_in = a_out / 2
        else:
            a_out = size(0.25)
            b_out = a_out * rng.uniform(0.05, 1)
            a_in = a_out * rng.choice([0.999, 0.5, rng.uniform(0.05, 0.99)])
        params = dict(a_in=a_in, a_out=a_out, b_out=b_out, theta=theta)
        if rng.random() < 0.3:
            params['b_in'] = b_out * rng.choice([0.5, 0.25])
    elif fam == 'rect':
        params = dict(w=size(), h=size(), theta=theta)
    else:
        w_out, h_out = size(0.25), size(0.25)
        w_in = w_out / 2 if lat else w_out * rng.choice([0.999, 0.5, rng.uniform(0.05, 0.99)])
        params = dict(w_in=w_in, w_out=w_out, h_out=h_out, theta=theta)
        if rng.random() < 0.3:
            params['h_in'] = h_out * rng.choice([0.5, 0.25])
        elif lat and q(w_in) * q(h_out) / q(w_out) != q(w_in * h_out / w_out):
            exact_arith = False
    method = rng.choice(['center', 'subpixel', 'subpixel', 'exact'])
    sizes = [v for k, v in params.items() if k != 'theta']
    ext = max(sizes) if fam not in ('rect', 'rannulus') else 0.5 * math.hypot(max(sizes), max(sizes))
    area_est = (2 * ext + 2) ** 2 * (2 if fam.endswith('annulus') else 1) * (1 if exact_arith else 2)
    budget = 4000 if tier == 'quick' else 8000
    if fam in ('ellipse', 'eannulus') and not exact_arith:
        # rotated-ellipse tests on arbitrary doubles cost ~10 ms per sub-pixel centre under vm_compute
        # (1000-bit rationals): keep those cases small, the lattice ones large
        budget //= 4
    if method == 'exact' and fam in ('rect', 'rannulus') and area_est * 1024 > 12 * budget:
        method = 'subpixel'
    if method == 'center' and area_est > budget:
        method = 'exact' if fam not in ('rect', 'rannulus') else 'center'
    if method == 'subpixel':
        allowed = [s_ for s_ in range(1, 33) if s_ * s_ * area_est <= budget] or [1]
        sub = rng.choice(allowed[-5:] + [s_ for s_ in (1, 2, 4, 8, 16, 32) if s_ in allowed])
    else:
        sub = rng.choice([1, 5])
    return dict(fam=fam, params=params, px=px, py=py, method=method, sub=sub, lat=lat, pos_kind=pos_kind,
                exact_arith=exact_arith)


def gen_degenerate_ellipse(rng):
    """exactly aligned elliptical apertures, 'exact' method: grid lines tangent to the ellipse, pixel corners on
    it, theta an exact multiple of pi/4 (the measure-zero cases named in the property)"""
    th = rng.choice([0.0, math.pi / 2, math.pi, -math.pi, math.pi / 4, -math.pi / 4, 3 * math.pi / 4])
    kind = rng.choice(['tangent', 'tangent', 'aligned', 'thin'])
    if kind == 'tangent':
        a = rng.choice([0.5, 1.0, 1.5, 2.0])
        b = rng.choice([a, a, 0.5, 1.0, 2.0])
        px, py = rng.randint(-2, 12) + rng.choice([0.0, 0.5]), rng.randint(-2, 12) + rng.choice([0.0, 0.5])
    elif kind == 'aligned':
        a, b = rng.choice([(1.0, 2.0), (2.0, 1.0), (0.5, 1.5), (3.0, 2.0)])
        px, py = float(rng.randint(-2, 12)), rng.randint(-2, 12) + rng.choice([0.0, 0.5])
    else:
        a, b = rng.choice([1.5, 3.0]), rng.choice([0.3, 0.2])
        px, py = rng.randint(-2, 12) + 0.25, rng.randint(-2, 12) + 0.125
    if rng.random() < 0.3:
        return dict(fam='eannulus', params=dict(a_in=a / 2, a_out=a, b_out=b, theta=th), px=px, py=py, method='exact',
                    sub=1, lat=False, pos_kind='degenerate', exact_arith=False)
    return dict(fam='ellipse', params=dict(a=a, b=b, theta=th), px=px, py=py, method='exact', sub=1, lat=False,
                pos_kind='degenerate', exact_arith=False)


def gen_huge_case(rng):
    """radii/semi-axes/widths of several hundred pixels, needle-thin ellipses: Python-side oracles only"""
    fam = rng.choice(FAMS)
    px, py = rng.uniform(-50, 50), rng.uniform(-50, 50)
    th = rng.choice([0.0, math.pi / 4, rng.uniform(-4, 4)])
    R = rng.uniform(60, 300)
    if fam == 'circle':
        params = dict(r=R)
    elif fam == 'cannulus':
        params = dict(r_in=R * rng.choice([0.999, 0.7]), r_out=R)
    elif fam == 'ellipse':
        params = dict(a=R, b=R * rng.choice([0.02, 0.3, 1.0]), theta=th)
    elif fam == 'eannulus':
        params = dict(a_in=R * rng.choice([0.999, 0.6]), a_out=R, b_out=R * rng.choice([0.02, 0.5]), theta=th)
    elif fam == 'rect':
        params = dict(w=R, h=R * rng.choice([0.02, 0.7]), theta=th)
    else:
        params = dict(w_in=R * rng.choice([0.999, 0.5]), w_out=R, h_out=R * rng.choice([0.05, 0.7]), theta=th)
    method = rng.choice(['center', 'exact']) if fam not in ('rect', 'rannulus') else 'center'
    return dict(fam=fam, params=params, px=px, py=py, method=method, sub=1, lat=False, pos_kind='huge',
                exact_arith=False)


# =====================================================================================================
# per-mask checks
# =====================================================================================================
def mask_rep(case, source):
    return dict(kind='mask', source=source, exact_arith=bool(case.get('exact_arith')), lat=bool(case.get('lat')),
                **{k_: case[k_] for k_ in ('fam', 'params', 'px', 'py', 'method', 'sub')})


def case_key(case):
    return [case['fam'], case['params'], case['px'], case['py'], case['method'], case['sub']]


def case_tol(case, ex, ey):
    """decision margin: 2^-40 scaled by the magnitude of the coordinates that enter the float arithmetic"""
    mag = max(1.0, abs(case['px']), abs(case['py'])) * max(1.0, ex + 1, ey + 1) ** 2
    return TOL0 * (1 << max(0, math.ceil(math.log2(mag))))


def counts_from_weights(w, s):
    n = w * (s * s)
    r = np.rint(n)
    if not np.all(np.abs(n - r) < 1e-6):
        return None
    return r.astype(int)


def eff_sub(case):
    rect = case['fam'] in ('rect', 'rannulus')
    mode = {'center': 0, 'subpixel': 1, 'exact': 2}[case['method']]
    s_eff = 32 if (rect and mode == 2) else (1 if mode == 0 else case['sub'])
    return rect, mode, s_eff, (mode == 2 and not rect)


UNDECIDED = 'undecided-bbox-edge-tie'


def shape_coq(sh):
    return Raw('(' + sh[0] + ' ' + ' '.join(coq(q(v)) for v in sh[1]) + ')')


def mask_case_coq(case, aper, data, bb):
    ex, ey = (float(v) for v in aper._xy_extents)
    rect, mode, s_eff, use_exact = eff_sub(case)
    exact_arith = case['exact_arith'] and s_eff in POW2
    if not case['exact_arith']:
        # arbitrary doubles: position +- extent within 1e-9 of a pixel edge is decided by the rounding of the float
        # additions in _bbox / from_float, not by the exact model (IEEE gap): not compared
        sc = max(1.0, abs(case['px']), abs(case['py']), ex, ey)
        if any(abs(v + 0.5 - round(v + 0.5)) < 1e-9 * sc
               for v in (case['px'] - ex, case['px'] + ex, case['py'] - ey, case['py'] + ey)):
            return UNDECIDED
    counts = None
    if not use_exact:
        cnt = counts_from_weights(data, s_eff)
        if cnt is None:
            return None
        counts = Some([[int(v) for v in row] for row in cnt])
    outer, inner = shapes_of(case, aper)
    return 'CMask ' + ' '.join([
        shape_coq(outer), 'None' if inner is None else '(Some ' + shape_coq(inner) + ')',
        coq(q(case['px'])), coq(q(case['py'])), coq(q(ex)), coq(q(ey)), coq(mode), coq(case['sub']), coq(rect),
        'None' if exact_arith else '(Some ' + coq(case_tol(case, ex, ey)) + ')',
        coq(tuple(bb)), coq(counts)])


def exact_tolerance(case):
    """accuracy demanded of the 'exact' weights.  Circles: pure rounding.  Ellipses: the kernel snaps
    vertices within 1e-10 of the unit circle (in the frame where the ellipse is the unit circle), which moves
    an area by at most ~1e-10 * max(a, b) pixel."""
    sizes = [v for k, v in case['params'].items() if k != 'theta']
    if case['fam'] in ('circle', 'cannulus'):
        return 1e-11 * max(1.0, max(sizes)) ** 2
    return 1e-9 * max(1.0, max(sizes))


def direct_checks(ctx, case, aper, data, bb, source):
    """Property clauses decided on the implementation's output alone. Returns list of (sig, what, extra)."""
    fam = case['fam']
    out = []
    rep = mask_rep(case, source)
    lo, hi = float(data.min()), float(data.max())
    if not (lo >= -1e-12 and hi <= 1 + 1e-12) or not np.all(np.isfinite(data)):
        out.append((f'to_mask:{fam}:weights-range', f'mask weight outside [0,1]: [{lo}, {hi}]', rep))
    rect, mode, s_eff, use_exact = eff_sub(case)
    area = float(aper.area)
    tot = float(data.sum())
    if use_exact:
        ctx.support('exact-weights-sum-vs-analytic-area')
        if not abs(tot - area) <= exact_tolerance(case) * max(4.0, data.size ** 0.5):
            out.append((f'to_mask:{fam}:sum-vs-area', f'sum of exact weights {tot!r} differs from the analytic area '
                        f'{area!r}', rep))
        if data.size <= 4000:
            ctx.support('exact-weights-vs-independent-area-integration')
            want = true_weights(case, bb)
            err = float(np.max(np.abs(want - data)))
            if not err <= exact_tolerance(case):
                j, i = np.unravel_index(np.argmax(np.abs(want - data)), data.shape)
                out.append((f'to_mask:{fam}:exact-weights', f'exact weight of pixel (y={bb[2] + j}, x={bb[0] + i}) '
                            f'is {data[j, i]!r}, true covered fraction {want[j, i]!r}', rep))
    elif rect and mode == 2 and data.size <= 1500:
        # documented accuracy of the rectangle "exact" mode: 32x32 sub-sampling.  Rigorous bound: a straight
        # edge crosses at most 63 of the 32x32 sub-cells of a pixel; <= 4 edges per rectangle
        ctx.support('rectangle-exact-vs-polygon-clipping')
        want = true_weights(case, bb)
        nrect = 2 if fam == 'rannulus' else 1
        err = float(np.max(np.abs(want - data)))
        if not err <= 63 * 4 * nrect / 1024 + 1e-9 or not abs(tot - area) <= 0.25 * nrect * (4 + data.size ** 0.5 * 8):
            out.append((f'to_mask:{fam}:exact-weights', f'rectangle weight differs from the covered fraction by {err}',
                        rep))
    if out and use_exact:
        label = ellipse_degenerate(case, aper)
        if label:   # one known class of inputs, one signature (see fixes/C01-known.json)
            out = [(f'elliptical-exact:degenerate:{label}', "'exact' elliptical weights wrong in a degenerate alignment: "
                    + '; '.join(w for _, w, _ in out), rep)]
    bad, skipped = bbox_oracle(case, bb)
    if skipped:
        ctx.stat('excluded', 'bbox-edge-tie-undecided-in-floats', skipped)
    if bad:
        out.append((f'bbox:{fam}:not-minimal', 'bounding box is not the smallest integer pixel box containing the '
                    f'shape: {bad}', rep))
    if tuple(data.shape) != (bb[3] - bb[2], bb[1] - bb[0]):
        out.append((f'to_mask:{fam}:shape', 'mask shape differs from the bbox shape', rep))
    return out


def huge_center_oracle(case, data, bb):
    """vectorised float oracle for 'center' masks too large for exact arithmetic; undecided pixels skipped"""
    outer, inner = shapes_of(case)
    X = (np.arange(bb[0], bb[1]) - case['px'])[None, :]
    Y = (np.arange(bb[2], bb[3]) - case['py'])[:, None]

    def ins(sh):
        v = sh[1]
        if sh[0] == 'Circle':
            m = X * X + Y * Y - v[0] * v[0]
            return m < 0, np.abs(m) / max(1.0, v[0] * v[0])
        xt, yt = Y * v[3] + X * v[2], Y * v[2] - X * v[3]
        if sh[0] == 'Ellipse':
            m = xt * xt / (v[0] * v[0]) + yt * yt / (v[1] * v[1]) - 1
            return m < 0, np.abs(m)
        m1, m2 = np.abs(xt) - v[0] / 2, np.abs(yt) - v[1] / 2
        return (m1 < 0) & (m2 < 0), np.minimum(np.abs(m1), np.abs(m2))
    io, mo = ins(outer)
    want = io.astype(float)
    dec = mo > 1e-9
    if inner is not None:
        ii, mi = ins(inner)
        want -= ii
        dec &= mi > 1e-9
    badpix = dec & (want != data)
    return int(badpix.sum()), int((~dec).sum())



def balance_cases(coq_cases, descr):
    """Reorder the cases so that contiguous shards of equal numeral count (core.coq_eval_cases cuts the list by
    numerals) also carry similar evaluation cost: vm_compute time of a mask case grows with pixels x subpixels^2,
    not with its size in numerals."""
    nb = core.NCPU
    items = []
    for i, (t, d) in enumerate(zip(coq_cases, descr)):
        num = core.count_numerals(t)
        cost = 1.0
        if t.startswith('CMask'):
            case = d[0]
            s_eff = eff_sub(case)[2]
            # numerals of the counts image ~ pixels (x2 shapes for annuli are evaluated separately)
            pix = max(1, t.count(';') + 1)
            cost = pix * s_eff * s_eff * (2 if case['fam'].endswith('annulus') else 1) * \
                (1 if (case.get('exact_arith') and s_eff in POW2) else 3)
        items.append((cost, num, i))
    ctot = sum(c for c, _, _ in items) or 1.0
    ntot = sum(n for _, n, _ in items) or 1.0
    bins = [[0.0, 0.0, []] for _ in range(nb)]
    for cost, num, i in sorted(items, key=lambda x: (-x[0], -x[1], x[2])):
        if cost > 1.0:
            b = min(bins, key=lambda b_: (b_[0] / ctot + 0.25 * b_[1] / ntot))
        else:
            b = min(bins, key=lambda b_: b_[1])
        b[0] += cost
        b[1] += num
        b[2].append(i)
    order = [i for b in bins for i in b[2]]
    return [coq_cases[i] for i in order], [descr[i] for i in order]



# =====================================================================================================
# histories: parameters re-assigned after the caches (bbox, centred edges, extents, area) were filled
# =====================================================================================================
FAM_OF = {'CircularAperture': 'circle', 'CircularAnnulus': 'cannulus', 'EllipticalAperture': 'ellipse',
          'EllipticalAnnulus': 'eannulus', 'RectangularAperture': 'rect', 'RectangularAnnulus': 'rannulus'}


def params_of(aper):
    """current parameters of an aperture object as plain floats (theta in radians)"""
    out = {}
    for name in aper._params[1:]:
        v = getattr(aper, name)
        out[name] = float(v.to_value('rad')) if name == 'theta' else float(v)
    return out


def case_of(aper, method, sub):
    pos = np.asarray(aper.positions, float)
    return dict(fam=FAM_OF[type(aper).__name__], params=params_of(aper), px=float(pos[0]), py=float(pos[1]),
                method=method, sub=sub, lat=False, exact_arith=False, pos_kind='history')


def history_new_value(rng, aper, name):
    """a valid new value for one attribute (inner < outer is preserved)"""
    if name == 'positions':
        pos = np.asarray(aper.positions, float)
        return (float(pos[0]) + rng.choice([0.5, -1.25, 3.0, 0.375]), float(pos[1]) + rng.choice([-0.5, 2.25, 1.0]))
    if name == 'theta':
        return float(aper.theta.to_value('rad')) + rng.choice([math.pi / 2, math.pi / 4, 1.0, -0.3])
    v = float(getattr(aper, name))
    if name.endswith('_in'):
        return v * rng.choice([0.5, 0.75])
    return v * rng.choice([1.5, 1.25, 2.0]) if (name.endswith('_out') or rng.random() < 0.6) else v * 0.5


def fresh_like(aper):
    return type(aper)(tuple(float(v) for v in np.asarray(aper.positions, float)), **params_of(aper))


def history_compare(aper, method, sub):
    """message unless bbox, to_mask(method).data and area of the (re-assigned) object equal those of a
    fresh aperture built from its current parameters"""
    fr = fresh_like(aper)
    m, mf = aper.to_mask(method=method, subpixels=sub), fr.to_mask(method=method, subpixels=sub)
    if aper.bbox != fr.bbox or m.bbox != mf.bbox:
        return f'bbox {aper.bbox} / mask.bbox {m.bbox} but a fresh aperture with the same parameters has {fr.bbox}', m
    if m.data.shape != mf.data.shape or not np.array_equal(m.data, mf.data, equal_nan=True):
        return ('to_mask data differs from a fresh aperture with the same parameters (sum '
                f'{float(m.data.sum())!r} vs {float(mf.data.sum())!r})'), m
    if not aper.area == fr.area:
        return f'area {aper.area!r} but a fresh aperture with the same parameters has {fr.area!r}', m
    if [tuple(float(t) for t in e) for e in aper._centered_edges] != \
            [tuple(float(t) for t in e) for e in fr._centered_edges]:
        return 'cached centred edges differ from those of a fresh aperture', m
    return None, m


def history_run(rep, verbose=False):
    """replay one history: returns the first failure message or None"""
    case0 = dict(fam=rep['fam'], params=rep['params'], px=rep['px'], py=rep['py'])
    aper = make_aperture(case0)
    aper.bbox, aper.to_mask(method=rep['method'], subpixels=rep['sub']), aper.area   # fill the caches
    for name, val in rep['steps']:
        setattr(aper, name, tuple(val) if name == 'positions' else val)
        msg, _ = history_compare(aper, rep['method'], rep['sub'])
        if verbose:
            print(f'  after {name} = {val}: bbox {aper.bbox}', 'OK' if not msg else 'FAIL: ' + msg)
        if msg:
            return f'after re-assigning {name} = {val}: {msg}'
    return None


# ---- multi-position apertures: every mask of the list must be the mask of a single-position aperture ------------
def multi_check(rep, verbose=False):
    """message (or None) for one multi-position aperture: (i) each mask == the mask of a fresh single-position
    aperture (bitwise, same bbox), (ii) the masks do not share memory and scribbling on one leaves the others
    unchanged, (iii) a second to_mask call gives the same masks.  Also returns the list of masks."""
    from photutils import aperture as ap
    cls = {'circle': ap.CircularAperture, 'cannulus': ap.CircularAnnulus, 'ellipse': ap.EllipticalAperture,
           'eannulus': ap.EllipticalAnnulus, 'rect': ap.RectangularAperture, 'rannulus': ap.RectangularAnnulus}[rep['fam']]
    pos = [tuple(p_) for p_ in rep['positions']]
    arr = np.array(pos, dtype=np.float64)      # the caller's own array
    aper = cls(arr, **rep['params'])
    masks = aper.to_mask(method=rep['method'], subpixels=rep['sub'])
    if len(masks) != len(pos) or len(aper.bbox) != len(pos):
        return f'{len(masks)} masks / {len(aper.bbox)} boxes for {len(pos)} positions', None
    pristine = [np.array(m.data, copy=True) for m in masks]
    for k, (xy, m) in enumerate(zip(pos, masks)):
        single = cls(xy, **rep['params'])
        ms = single.to_mask(method=rep['method'], subpixels=rep['sub'])
        if m.bbox != ms.bbox or aper.bbox[k] != single.bbox:
            return f'position {k} {xy}: bbox {m.bbox} but a single-position aperture there has {ms.bbox}', masks
        if m.data.shape != ms.data.shape or not np.array_equal(m.data, ms.data, equal_nan=True):
            return (f'position {k} {xy}: mask differs from the mask of a single-position aperture at that position '
                    f'(min weight {float(np.nanmin(m.data))!r} vs {float(np.nanmin(ms.data))!r}, sum '
                    f'{float(np.nansum(m.data))!r} vs {float(np.nansum(ms.data))!r})'), masks
        if verbose:
            print(f'  position {k} {xy}: bbox {m.bbox} equals the single-position mask')
    for i in range(len(masks)):
        for j in range(i + 1, len(masks)):
            if np.shares_memory(masks[i].data, masks[j].data):
                return f'masks of positions {i} and {j} share memory', masks
    for i in range(len(masks)):     # scribble on one, the others must not change
        if masks[i].data.flags.writeable and masks[i].data.size:
            masks[i].data[...] += 7.0
            for j in range(len(masks)):
                if j != i and not np.array_equal(masks[j].data, pristine[j], equal_nan=True):
                    return f'writing into the mask of position {i} changed the mask of position {j}', masks
            masks[i].data[...] = pristine[i]
    again = aper.to_mask(method=rep['method'], subpixels=rep['sub'])
    for k, (a_, b_) in enumerate(zip(again, pristine)):
        if a_.data.shape != b_.shape or not np.array_equal(a_.data, b_, equal_nan=True):
            return f'a second to_mask call gives a different mask at position {k}', masks
    arr += 2.0       # the caller re-uses its array: the aperture (and its cached boxes) must not move
    if not np.array_equal(np.asarray(aper.positions, float), np.array(pos, float)):
        return ('the aperture positions alias the array passed by the caller: after the caller modified its array the '
                f'aperture sits at {np.asarray(aper.positions).tolist()} while its cached bbox is still {aper.bbox[0]}'), masks
    return None, masks


def gen_multi(rng, fam):
    case = None
    while case is None or case['fam'] != fam or max(v for k_, v in case['params'].items() if k_ != 'theta') > 5:
        case = gen_mask_case(rng, 'quick')
    fx, fy = rng.choice([(0.0, 0.0), (0.5, 0.5), (0.25, 0.25), (0.5, 0.25), (0.0, 0.5),
                         (rng.randrange(1024) / 1024, rng.randrange(1024) / 1024)])
    n_same = rng.choice([2, 3, 4])
    pos = [[rng.randint(-3, 20) + fx, rng.randint(-3, 20) + fy] for _ in range(n_same)]
    for _ in range(rng.choice([0, 1, 2])):     # mixed with positions of a different sub-pixel phase
        pos.append([rng.randint(-3, 20) + rng.choice([0.125, 0.375, 0.75]), rng.randint(-3, 20) + rng.choice([0.625, 0.875])])
    if rng.random() < 0.3:
        pos.append(list(pos[0]))               # a repeated position
    rng.shuffle(pos)
    method = rng.choice(['center', 'subpixel', 'exact'])
    return dict(kind='multi', fam=fam, params=dict(case['params']), positions=pos, method=method,
                sub=rng.choice([1, 2, 3, 4]) if method == 'subpixel' else rng.choice([1, 5]))


# ---- interleaved histories of different classes (pixel and sky), one ordering per fresh interpreter -------------
# Module / class level state of the aperture package persists for the whole process, so which class is the first
# to have a parameter re-assigned can decide what later re-assignments invalidate: every ordering runs in its own
# subprocess; spec = {'seed': int, 'first': 'sky' | 'noncircular' | 'circular' | 'any'}.
SKY_OF = {'circle': 'SkyCircularAperture', 'cannulus': 'SkyCircularAnnulus', 'ellipse': 'SkyEllipticalAperture',
          'eannulus': 'SkyEllipticalAnnulus', 'rect': 'SkyRectangularAperture', 'rannulus': 'SkyRectangularAnnulus'}


def _sky_make(fam, rng):
    import astropy.units as u
    from astropy.coordinates import SkyCoord
    from photutils import aperture as ap
    pos = SkyCoord(rng.uniform(5, 50) * u.deg, rng.uniform(-40, 40) * u.deg)
    v = rng.uniform(1, 3)
    params = {'circle': dict(r=v), 'cannulus': dict(r_in=v, r_out=2 * v), 'ellipse': dict(a=2 * v, b=v),
              'eannulus': dict(a_in=v, a_out=2 * v, b_out=1.5 * v), 'rect': dict(w=2 * v, h=v),
              'rannulus': dict(w_in=v, w_out=2 * v, h_out=1.5 * v)}[fam]
    params = {k: val * u.arcsec for k, val in params.items()}
    if fam not in ('circle', 'cannulus'):
        params['theta'] = rng.uniform(0, 90) * u.deg
    return getattr(ap, SKY_OF[fam])(pos, **params)


def _sky_state(aper):
    return (aper.shape, aper.isscalar, repr(aper))


def _sky_step(aper, rng):
    """re-assign one attribute of a sky aperture; returns (name, message or None)"""
    import astropy.units as u
    from astropy.coordinates import SkyCoord
    name = rng.choice(list(aper._params))
    if name == 'positions':
        n = rng.choice([0, 2, 3])    # scalar <-> array: shape / isscalar must follow
        val = (SkyCoord(rng.uniform(5, 50) * u.deg, rng.uniform(-40, 40) * u.deg) if n == 0 else
               SkyCoord([rng.uniform(5, 50) for _ in range(n)] * u.deg, [rng.uniform(-40, 40) for _ in range(n)] * u.deg))
    elif name == 'theta':
        val = rng.uniform(0, 180) * u.deg
    else:
        val = getattr(aper, name) * (0.5 if name.endswith('_in') else 1.5)
    aper.shape, aper.isscalar    # fill the caches
    setattr(aper, name, val)
    fresh = type(aper)(**{k: getattr(aper, k) for k in aper._params})
    if _sky_state(aper) != _sky_state(fresh):
        return name, f'shape/isscalar/repr {_sky_state(aper)} but a fresh aperture has {_sky_state(fresh)}'
    return name, None


def interleaved_child(spec):
    """Runs inside a fresh interpreter.  Returns dict(ok, msg, first, steps)."""
    import random
    rng = random.Random(spec['seed'])
    objs = []     # (kind, fam, aper, method, sub)
    for fam in FAMS:
        case = None
        while case is None or case['fam'] != fam or case['pos_kind'] in ('far', 'double-far') or \
                max(v for k_, v in case['params'].items() if k_ != 'theta') > 6:
            case = gen_mask_case(rng, 'quick')
        method, sub = rng.choice(['center', 'subpixel', 'exact']), rng.choice([1, 2, 3])
        aper = make_aperture(case)
        aper.bbox, aper.to_mask(method=method, subpixels=sub), aper.area      # fill the caches
        objs.append(['pixel', fam, aper, method, sub])
        objs.append(['sky', fam, _sky_make(fam, rng), None, None])
    pool = {'sky': [o for o in objs if o[0] == 'sky'],
            'noncircular': [o for o in objs if o[0] == 'pixel' and o[1] not in ('circle', 'cannulus')],
            'circular': [o for o in objs if o[0] == 'pixel' and o[1] in ('circle', 'cannulus')],
            'any': objs}[spec.get('first', 'any')]
    first = rng.choice(pool)
    order = [o for o in objs for _ in range(3)]
    rng.shuffle(order)
    order = [first] + order
    steps = []
    for kind, fam, aper, method, sub in order:
        cls = type(aper).__name__
        if kind == 'sky':
            name, msg = _sky_step(aper, rng)
            steps.append([cls, name])
        else:
            name = rng.choice(list(aper._params))
            val = history_new_value(rng, aper, name)
            steps.append([cls, name, list(val) if name == 'positions' else val])
            setattr(aper, name, val)
            msg, m = history_compare(aper, method, sub)
            if not msg:    # and the oracles of a fresh aperture
                hc = case_of(aper, method, sub)
                bb = (m.bbox.ixmin, m.bbox.ixmax, m.bbox.iymin, m.bbox.iymax)
                bad, _ = bbox_oracle(hc, bb)
                if bad:
                    msg = f'bounding box is not the smallest box containing the current shape: {bad}'
        if msg:
            return dict(ok=False, fam=fam, kind=kind, attr=name, first=type(first[2]).__name__, steps=steps,
                        msg=f'{cls} after re-assigning {name} (step {len(steps)}; first class re-assigned in this '
                            f'process: {type(first[2]).__name__}): {msg}')
    return dict(ok=True, first=type(first[2]).__name__, steps=steps)


_CHILD_CODE = ('import sys, json\n'
               'from harness import core\n'
               'core.setup_repo_path()\n'
               'from harness import c01\n'
               'spec = json.loads(sys.argv[1])\n'
               'try:\n'
               '    r = c01.interleaved_child(spec)\n'
               'except Exception as e:\n'
               '    import traceback\n'
               '    r = dict(ok=False, fam="?", kind="?", attr="raises", first="?", steps=[],\n'
               '             msg="raises %s: %s" % (type(e).__name__, e), tb=traceback.format_exc()[-1500:])\n'
               'print("RESULT " + json.dumps(r))\n')


def interleaved_spawn(spec):
    import json
    import subprocess
    import sys
    return subprocess.Popen([sys.executable, '-W', 'ignore', '-c', _CHILD_CODE, json.dumps(spec)], cwd=str(core.VERIF),
                            stdout=subprocess.PIPE, stderr=subprocess.PIPE, text=True)


def interleaved_collect(proc):
    import json
    out, err = proc.communicate(timeout=600)
    for line in out.splitlines():
        if line.startswith('RESULT '):
            return json.loads(line[7:])
    return dict(ok=False, fam='?', kind='?', attr='raises', first='?', steps=[],
                msg='interleaved-history subprocess produced no result: ' + (err or out)[-800:])


# =====================================================================================================
def c01r_source_tie(ctx):
    """coq/C01R_Model.v is a statement-by-statement transcription of six .pyx functions (Cython cannot be run
    here).  Recompute the hash of their normalised text from the CURRENT source; a mismatch means the real-number
    theorems speak about an older text: broken obligation (the violation search is the existing bit-for-bit
    comparison of the re-interpreted .pyx text with the compiled kernels and the area oracles)."""
    import hashlib, json, re
    from .core import COQ, REPO

    def funcs(path):
        parts = re.split(r'(?m)^(?=(?:cdef|def|cpdef)\s)', path.read_text())
        out = {}
        for p in parts:
            m = re.match(r'(?:cdef|def|cpdef)\s+(?:[\w\.\[\], ]+\s+)?(\w+)\s*\(', p)
            if m:
                out[m.group(1)] = p
        return out

    def norm(src):
        src = re.sub(r'"""(?:.|\n)*?"""', '', src)
        lines = [re.sub(r'#.*$', '', l).strip() for l in src.splitlines()]
        return '\n'.join(re.sub(r'\s+', ' ', l) for l in lines if l)
    want = json.loads((COQ / 'C01R_source_hashes.json').read_text())['functions']
    cache, bad = {}, []
    for key, h in want.items():
        rel, name = key.split('::')
        try:
            if rel not in cache:
                cache[rel] = funcs(REPO / rel)
            got = hashlib.sha256(norm(cache[rel][name]).encode()).hexdigest()
        except Exception as e:  # file or function missing
            got = 'unreadable: ' + repr(e)[:80]
        if got != h:
            bad.append({'function': key, 'expected': h, 'found': got})
    ctx.stat('c01r', 'pyx-functions-hashed', len(want))
    ctx.cov.setdefault('translated_spans', []).append({'file': 'coq/C01R_Model.v', 'tie': 'sha256 of normalised .pyx function text',
                                                        'functions': sorted(want), 'stale': [b['function'] for b in bad]})
    if bad:
        ctx.broken_obligation('C01R-transcription-stale', {'changed_pyx_functions': bad})


def run(ctx):
    ctx.build_with_translator(FILES, extra_files=['C01R_Model.v', 'C01R_Proofs.v', 'C01R_Properties.v'],
                              extra_obligation_files=['C01R_Properties.v'])   # exact circle kernel = area, over R
    c01r_source_tie(ctx)
    rng = ctx.rng
    quick = ctx.tier == 'quick'
    ctx.cov['rule'] = (
        'to_mask of the six pixel aperture classes x {center, subpixel(1..32), exact} on (i) an exact lattice '
        '(dyadic centres/sizes, theta=0, power-of-two subpixels: exact comparison incl. ties) and (ii) arbitrary '
        'doubles incl. rotations, needle ellipses, annulus ratio 0.999 and far-off-image centres (pixels with a '
        'sub-pixel centre whose deciding quantity is within the scaled 2^-40 margin are skipped); every mask through '
        'the compiled kernels AND through the re-interpreted .pyx text; huge shapes (60..300 px) with Python oracles '
        'only; per-class histories (every shape attribute, theta and positions re-assigned one at a time after the '
        'caches were filled, compared with a fresh aperture and with the oracles/model; plus interleaved histories '
        'over all twelve pixel+sky classes with a randomised first class, each ordering in a fresh interpreter); '
        'multi-position apertures with equal and distinct sub-pixel phases (each mask == single-position mask, no shared '
        'memory, repeatable); BoundingBox '
        'from_float/slices/union/intersection on random and boundary boxes incl. zero-size images; '
        'non-trivial = non-empty mask / non-empty overlap; distinct by (class, params, position, method, subpixels)')
    ctx.cov['partial_clauses'] = [
        "'exact' weights of circles/ellipses equal the true covered fraction: NOT proved (needs the integral of "
        'sqrt(r^2-x^2) and the 130-line triangle/unit-circle routine); supported by an independent boundary-'
        'integration oracle per pixel and by sum(weights) == analytic area',
        "rectangle 'exact' == 32x32 sub-sampling is proved (translate_mode) and its centre fraction is proved; the "
        'distance of that fraction from the true area is only tested (polygon clipping, rigorous 63*4/1024 bound)',
        'bbox minimality is proved from the extents handed to from_float; that the extents (sqrt expressions) are '
        'the true half-sizes is proved on squares (shape_within_extents) and compared numerically (close_sq 1e-12)']
    ctx.assumptions += [
        'float cos/sin of theta are passed to the model as exact rationals; libm is trusted to be the same for '
        'math.cos and the C kernels (the scaled 2^-40 decision margin absorbs 1-ulp differences)',
        'the .pyx text is tied through a Python re-interpretation (translator in harness/c01.py: C doubles = Python '
        'floats, struct copy semantics, libm via math), checked bit-for-bit against the compiled kernels']
    # ---------------- T: kernel text ----------------
    ns = None
    try:
        ns, spans = load_kernels(core.REPO)
        ctx.cov['translated_spans'] = spans
    except Untranslatable as e:
        ctx.broken_obligation('pyx-untranslatable', {'error': str(e)})
        ctx.stat('text', 'untranslatable', 1)
    except Exception as e:   # noqa: BLE001  (a kernel text that does not even load)
        ctx.broken_obligation('pyx-untranslatable', {'error': repr(e)})
        ctx.stat('text', 'untranslatable', 1)
    # interleaved multi-class histories: one ordering per fresh interpreter (spawned now, collected below)
    inter_specs = [dict(kind='interleaved', seed=rng.randrange(1 << 30), first=f)
                   for f in (['sky', 'noncircular', 'any'] if quick else
                             ['sky', 'noncircular', 'circular', 'any'] * 3)]
    inter_procs = [(sp, interleaved_spawn(sp)) for sp in inter_specs]
    # ---------------- masks ----------------
    n = 180 if quick else 750
    coq_cases, descr = [], []
    text_differs = 0

    def report(viols):
        for sig, what, rep in viols:
            ctx.violation(sig, what, rep)

    for k in range(n):
        case = gen_mask_case(rng, ctx.tier)
        key = case_key(case)
        try:
            aper = make_aperture(case)
            m = aper.to_mask(method=case['method'], subpixels=case['sub'])
        except Exception as e:   # noqa: BLE001
            ctx.count_case(key, True)
            ctx.violation(f'to_mask:{case["fam"]}:raises', f'to_mask raises {type(e).__name__}: {e}',
                          mask_rep(case, 'compiled'))
            continue
        bb = (m.bbox.ixmin, m.bbox.ixmax, m.bbox.iymin, m.bbox.iymax)
        rect, mode, s_eff, use_exact = eff_sub(case)
        ctx.stat('family', case['fam'])
        ctx.stat('method', case['method'])
        ctx.stat('position', case['pos_kind'])
        ctx.stat('arith', 'lattice-exact' if case['exact_arith'] and s_eff in POW2 else 'doubles+margin')
        ctx.count_case(key, bool(m.data.any()))
        report(direct_checks(ctx, case, aper, m.data, bb, 'compiled'))
        if rect and mode == 2:
            m32 = aper.to_mask(method='subpixel', subpixels=32)
            if not np.array_equal(m32.data, m.data):
                ctx.violation(f'to_mask:{case["fam"]}:exact-is-subpixel-32', "rectangle 'exact' differs from "
                              'subpixels=32', mask_rep(case, 'compiled'))
        if mode == 0:
            m1 = aper.to_mask(method='subpixel', subpixels=1)
            if not np.array_equal(m1.data, m.data):
                ctx.violation(f'to_mask:{case["fam"]}:center-is-subpixel-1', "'center' differs from subpixels=1",
                              mask_rep(case, 'compiled'))
        t = mask_case_coq(case, aper, m.data, bb)
        if t is UNDECIDED:
            ctx.stat('excluded', 'model-comparison-skipped:bbox-edge-tie-in-floats')
        elif t is None:
            ctx.violation(f'to_mask:{case["fam"]}:weights-not-k-over-s2', 'a center/subpixel weight is not a '
                          'multiple of 1/subpixels^2', mask_rep(case, 'compiled'))
        else:
            coq_cases.append(t)
            descr.append((case, 'compiled'))
        if k < 2:
            ctx.sample({'case': key, 'bbox': repr(m.bbox), 'weights': m.data.tolist()})
        # the same mask through the kernel text
        if ns is not None and m.data.size * (1 if use_exact else s_eff * s_eff) <= 40000:
            ctx.stat('text', 'masks-through-pyx-text')
            try:
                td = text_mask(ns, case, aper)
            except Exception as e:   # noqa: BLE001
                ctx.violation('pyx-text:raises', f'kernel text raises {type(e).__name__}: {e}',
                              mask_rep(case, 'pyx-text'))
                continue
            if not np.array_equal(td, m.data):
                text_differs += 1
                ctx.stat('text', 'masks-differing-from-compiled')
                if len(ctx.cov.setdefault('text_differences', [])) < 5:
                    ctx.cov['text_differences'].append({'case': key, 'max_abs_diff': float(np.max(np.abs(td - m.data)))})
                v = direct_checks(ctx, case, aper, td, bb, 'pyx-text')
                report([(s_.replace('to_mask:', 'pyx-text:'), w_, r_) for s_, w_, r_ in v])
                tt = mask_case_coq(case, aper, td, bb)
                if tt is UNDECIDED:
                    pass
                elif tt is None:
                    ctx.violation(f'pyx-text:{case["fam"]}:weights-not-k-over-s2', 'a center/subpixel weight of '
                                  'the kernel text is not a multiple of 1/subpixels^2',
                                  mask_rep(case, 'pyx-text'))
                else:
                    coq_cases.append(tt)
                    descr.append((case, 'pyx-text'))
                if not v and float(np.max(np.abs(td - m.data))) > 1e-12 and use_exact:
                    ctx.stat('text', 'exact-text-vs-compiled-beyond-1e-12')
    if ns is not None and text_differs:
        ctx.broken_obligation('pyx-text-vs-compiled', {
            'what': 'the re-interpreted .pyx text no longer computes what the compiled kernels compute '
                    '(stale extension module or edited kernel source)', 'masks_differing': text_differs})
    # ---------------- huge shapes: python oracles only ----------------
    for k in range(12 if quick else 60):
        case = gen_huge_case(rng)
        try:
            aper = make_aperture(case)
            m = aper.to_mask(method=case['method'], subpixels=1)
        except Exception as e:   # noqa: BLE001
            ctx.violation(f'to_mask:{case["fam"]}:raises', f'to_mask raises {type(e).__name__}: {e}',
                          mask_rep(case, 'compiled'))
            continue
        bb = (m.bbox.ixmin, m.bbox.ixmax, m.bbox.iymin, m.bbox.iymax)
        ctx.stat('family', case['fam'] + '-huge')
        ctx.count_case(case_key(case), True)
        report(direct_checks(ctx, case, aper, m.data, bb, 'compiled'))
        if case['method'] == 'center':
            nbad, nund = huge_center_oracle(case, m.data, bb)
            ctx.support('huge-center-masks-vs-vectorised-float-oracle')
            if nbad:
                ctx.violation(f'to_mask:{case["fam"]}:center-fraction', f'{nbad} pixels of a large center mask differ '
                              'from "pixel centre strictly inside"',
                              mask_rep(case, 'compiled'))
    # ---------------- exactly aligned ellipses, 'exact' method ----------------
    for k in range(16 if quick else 120):
        case = gen_degenerate_ellipse(rng)
        ctx.stat('family', case['fam'] + '-degenerate')
        ctx.count_case(case_key(case), True)
        try:
            aper = make_aperture(case)
            m = aper.to_mask(method='exact')
        except Exception as e:   # noqa: BLE001
            ctx.violation(f'to_mask:{case["fam"]}:raises', f'to_mask raises {type(e).__name__}: {e}',
                          mask_rep(case, 'compiled'))
            continue
        bb = (m.bbox.ixmin, m.bbox.ixmax, m.bbox.iymin, m.bbox.iymax)
        report(direct_checks(ctx, case, aper, m.data, bb, 'compiled'))
    # ---------------- annulus sweep (python oracles only): generic centres, hole well inside the box ----------------
    for k in range(60 if quick else 400):
        fam = ('cannulus', 'eannulus', 'rannulus')[k % 3]
        ro, ratio = rng.uniform(2.0, 12.0), rng.uniform(0.15, 0.95)
        th = rng.choice([0.0, rng.uniform(-4, 4)])
        params = {'cannulus': dict(r_in=ro * ratio, r_out=ro),
                  'eannulus': dict(a_in=ro * ratio, a_out=ro, b_out=ro * rng.uniform(0.3, 1.0), theta=th),
                  'rannulus': dict(w_in=ro * ratio, w_out=ro, h_out=ro * rng.uniform(0.3, 1.0), theta=th)}[fam]
        case = dict(fam=fam, params=params, px=rng.uniform(-5, 30), py=rng.uniform(-5, 30),
                    method=rng.choice(['center', 'center', 'exact']) if fam != 'rannulus' else 'center', sub=1,
                    lat=False, exact_arith=False, pos_kind='annulus-sweep')
        ctx.stat('family', fam + '-sweep')
        ctx.count_case(case_key(case), True)
        try:
            aper = make_aperture(case)
            m = aper.to_mask(method=case['method'], subpixels=1)
        except Exception as e:   # noqa: BLE001
            ctx.violation(f'to_mask:{fam}:raises', f'to_mask raises {type(e).__name__}: {e}', mask_rep(case, 'compiled'))
            continue
        bb = (m.bbox.ixmin, m.bbox.ixmax, m.bbox.iymin, m.bbox.iymax)
        if case['method'] == 'center':
            nbad, nund = huge_center_oracle(dict(case), m.data, bb)
            ctx.support('annulus-center-masks-vs-vectorised-float-oracle')
            if nbad:
                ctx.violation(f'to_mask:{fam}:center-fraction', f'{nbad} pixels of a center annulus mask differ from '
                              '"pixel centre strictly inside outer and not inside inner"', mask_rep(case, 'compiled'))
        if case['method'] == 'exact' and m.data.size <= 900:
            report(direct_checks(ctx, case, aper, m.data, bb, 'compiled'))
    # ---------------- integer-shift covariance of masks (from_float_shift) ----------------
    for k in range(40 if quick else 200):
        case = gen_mask_case(rng, 'quick')
        if case['pos_kind'] in ('far', 'double-far') or not case['lat']:
            continue
        kx, ky = rng.randint(-7, 7), rng.randint(-7, 7)
        try:
            a1 = make_aperture(case)
            a2 = make_aperture(dict(case, px=case['px'] + kx, py=case['py'] + ky))
            m1 = a1.to_mask(method=case['method'], subpixels=case['sub'])
            m2 = a2.to_mask(method=case['method'], subpixels=case['sub'])
        except Exception as e:   # noqa: BLE001
            ctx.violation(f'to_mask:{case["fam"]}:raises', f'to_mask raises {type(e).__name__}: {e}',
                          mask_rep(case, 'compiled'))
            continue
        ctx.count_case(['shift', case_key(case), kx, ky])
        same = (m2.bbox.ixmin - m1.bbox.ixmin, m2.bbox.ixmax - m1.bbox.ixmax, m2.bbox.iymin - m1.bbox.iymin,
                m2.bbox.iymax - m1.bbox.iymax) == (kx, kx, ky, ky) and np.array_equal(m1.data, m2.data)
        if not same:
            ctx.violation(f'to_mask:{case["fam"]}:integer-shift', 'mask/bbox not covariant under an integer shift '
                          'of the centre (lattice input)',
                          dict(kind='shift', kx=kx, ky=ky, **{k_: case[k_] for k_ in
                               ('fam', 'params', 'px', 'py', 'method', 'sub')}))
    # ---------------- histories: re-assigned parameters must behave like a fresh aperture ----------------
    for k in range(24 if quick else 120):
        fam = FAMS[k % 6]
        case = None
        while case is None or case['fam'] != fam or case['pos_kind'] in ('far', 'double-far'):
            case = gen_mask_case(rng, 'quick')
        sizes = [v for k_, v in case['params'].items() if k_ != 'theta']
        method = rng.choice(['center', 'subpixel', 'exact']) if max(sizes) <= 6 else 'center'
        sub = rng.choice([1, 2, 3, 4])
        rep = dict(kind='history', fam=fam, params=dict(case['params']), px=case['px'], py=case['py'], method=method,
                   sub=sub, steps=[])
        ctx.stat('history', fam)
        try:
            aper = make_aperture(case)
            aper.bbox, aper.to_mask(method=method, subpixels=sub), aper.area   # fill the caches
            names = list(aper._params)
            rng.shuffle(names)
            failed = False
            for name in names:
                val = history_new_value(rng, aper, name)
                rep['steps'].append([name, list(val) if name == 'positions' else val])
                setattr(aper, name, val)
                ctx.count_case(['history', fam, rep['params'], rep['px'], rep['py'], method, sub, rep['steps']])
                msg, m = history_compare(aper, method, sub)
                if msg:
                    ctx.violation(f'history:{fam}:reassign-{name}', f'after re-assigning {name}: {msg}', rep)
                    failed = True
                    break
            if failed:
                continue
            # the final state must also pass the oracles / the model like any fresh aperture
            hc = case_of(aper, method, sub)
            m = aper.to_mask(method=method, subpixels=sub)
            bb = (m.bbox.ixmin, m.bbox.ixmax, m.bbox.iymin, m.bbox.iymax)
            if m.data.size <= 400:
                report([(s_.replace('to_mask:', 'history:').replace('bbox:', 'history:bbox:'), w_, rep)
                        for s_, w_, r_ in direct_checks(ctx, hc, aper, m.data, bb, 'compiled')])
                if m.data.size * eff_sub(hc)[2] ** 2 <= 3000:
                    t = mask_case_coq(hc, aper, m.data, bb)
                    if t is not None and t is not UNDECIDED:
                        coq_cases.append(t)
                        descr.append((hc, 'compiled'))
        except Exception as e:   # noqa: BLE001
            ctx.violation(f'history:{fam}:raises', f'{type(e).__name__}: {e}', rep)
    for sp, proc in inter_procs:
        r = interleaved_collect(proc)
        ctx.stat('history-interleaved', 'first=' + str(r.get('first')))
        ctx.count_case(['interleaved', sp['seed'], sp['first']], True)
        ctx.stat('history-interleaved', 'steps', len(r.get('steps', [])))
        if not r.get('ok'):
            ctx.violation(f"history:interleaved:{r.get('fam')}:reassign-{r.get('attr')}", r.get('msg', ''),
                          dict(sp, steps=r.get('steps'), tb=r.get('tb')))
    # ---------------- multi-position apertures (equal and distinct sub-pixel phases) ----------------
    for k in range(18 if quick else 150):
        rep = gen_multi(rng, FAMS[k % 6])
        ctx.stat('multi-position', rep['fam'])
        ctx.stat('multi-position', 'positions', len(rep['positions']))
        ctx.count_case(['multi', rep['fam'], rep['params'], rep['positions'], rep['method'], rep['sub']])
        try:
            msg, masks = multi_check(rep)
        except Exception as e:   # noqa: BLE001
            msg, masks = f'raises {type(e).__name__}: {e}', None
        if msg:
            ctx.violation(f"to_mask:{rep['fam']}:multi-position", msg, rep)
            continue
        # one mask of the list also goes through the oracles and the model like any single-position mask
        j = rng.randrange(len(masks))
        case = dict(fam=rep['fam'], params=rep['params'], px=rep['positions'][j][0], py=rep['positions'][j][1],
                    method=rep['method'], sub=rep['sub'], lat=False, exact_arith=False, pos_kind='multi')
        m = masks[j]
        bb = (m.bbox.ixmin, m.bbox.ixmax, m.bbox.iymin, m.bbox.iymax)
        if m.data.size <= 400:
            aper1 = make_aperture(case)
            report(direct_checks(ctx, case, aper1, m.data, bb, 'compiled'))
            if m.data.size * eff_sub(case)[2] ** 2 <= 1500:
                t = mask_case_coq(case, aper1, m.data, bb)
                if t is not None and t is not UNDECIDED:
                    coq_cases.append(t)
                    descr.append((case, 'compiled'))
    # ---------------- bounding-box algebra, from_float and slices ----------------
    from photutils.aperture import BoundingBox
    nb = 200 if quick else 2000
    box_descr = []
    for k in range(nb):
        ny, nx = rng.randint(1, 10), rng.randint(1, 10)
        x0, y0 = rng.randint(-7, nx + 1), rng.randint(-7, ny + 1)
        b = (x0, x0 + rng.randint(1, 9), y0, y0 + rng.randint(1, 9))
        r_ = rng.random()
        if r_ < 0.3:   # straddle / touch each edge exactly
            b = rng.choice([(-3, 0, 0, 2), (nx, nx + 2, 0, 2), (0, 2, -2, 0), (0, 2, ny, ny + 1), (-1, 1, -1, 1),
                            (nx - 1, nx + 1, ny - 1, ny + 1), (0, nx, 0, ny), (-2, nx + 2, -2, ny + 2)])
        elif r_ < 0.38:   # zero-size images
            ny, nx = rng.choice([(0, nx), (ny, 0), (0, 0)])
        bb_ = BoundingBox(*b)
        try:
            sl, ss = bb_.get_overlap_slices((ny, nx))
        except Exception as e:   # noqa: BLE001
            ctx.violation('get_overlap_slices:raises', f'get_overlap_slices raises {type(e).__name__}: {e}',
                          dict(kind='slices', box=list(b), shape=[ny, nx]))
            continue
        msg = slices_oracle(b, (ny, nx), sl, ss)
        ctx.count_case(['slices', b, ny, nx], sl is not None)
        ctx.stat('slices', 'None' if sl is None else 'overlap')
        if msg:
            cls = 'zero-size-image' if 0 in (ny, nx) else 'pixel-set'
            ctx.violation(f'get_overlap_slices:{cls}', msg, dict(kind='slices', box=list(b), shape=[ny, nx]))
        if (sl is None) == (ss is None):
            exp = None if sl is None else Some((((sl[0].start, sl[0].stop), (sl[1].start, sl[1].stop)),
                                                ((ss[0].start, ss[0].stop), (ss[1].start, ss[1].stop))))
            coq_cases.append(f'CSlices {coq(b)} {coq(ny)} {coq(nx)} {coq(exp)}')
            descr.append((dict(kind='slices', box=list(b), shape=[ny, nx]), 'box'))
        x1, y1 = rng.randint(-8, 12), rng.randint(-8, 12)
        b2 = (x1, x1 + rng.randint(1, 9), y1, y1 + rng.randint(1, 9))
        bb2 = BoundingBox(*b2)
        try:
            u = bb_ | bb2
            it = bb_ & bb2
        except Exception as e:   # noqa: BLE001
            ctx.violation('BoundingBox:union/intersection', f'union/intersection raises {type(e).__name__}: {e}',
                          dict(kind='boxalg', a=list(b), b=list(b2)))
            continue
        ut = (u.ixmin, u.ixmax, u.iymin, u.iymax)
        msg = boxalg_oracle(b, b2, ut, None if it is None else (it.ixmin, it.ixmax, it.iymin, it.iymax))
        if msg:
            ctx.violation('BoundingBox:union/intersection', msg, dict(kind='boxalg', a=list(b), b=list(b2)))
        coq_cases.append(f'CUnion {coq(b)} {coq(b2)} {coq(ut)}')
        descr.append((dict(kind='boxalg', a=list(b), b=list(b2)), 'box'))
        coq_cases.append(f'CInter {coq(b)} {coq(b2)} '
                         f'{coq(None if it is None else Some((it.ixmin, it.ixmax, it.iymin, it.iymax)))}')
        descr.append((dict(kind='boxalg', a=list(b), b=list(b2)), 'box'))
        ctx.count_case(['boxalg', b, b2], it is not None)
        # from_float on dyadic extents incl. exact half-integers (pixel edges) and integers
        den = rng.choice([1, 2, 2, 4, 8, 1024])
        xs = sorted(rng.randint(-40 * den, 40 * den) / den for _ in range(2))
        ys = sorted(rng.randint(-40 * den, 40 * den) / den for _ in range(2))
        generic = rng.random() < 0.2
        if generic:
            xs, ys = sorted(rng.uniform(-40, 40) for _ in range(2)), sorted(rng.uniform(-1e4, 1e4) for _ in range(2))
        # a generic double closer than 1e-9 to a pixel edge: xmin + 0.5 is rounded, not decided here
        if generic and any(abs((v + 0.5) - round(v + 0.5)) < 1e-9 for v in xs + ys):
            ctx.stat('excluded', 'from_float-edge-tie-undecided-in-floats')
            continue
        try:
            f = BoundingBox.from_float(xs[0], xs[1], ys[0], ys[1])
        except Exception as e:   # noqa: BLE001
            ctx.violation('BoundingBox.from_float:not-minimal', f'from_float raises {type(e).__name__}: {e}',
                          dict(kind='from_float', args=[xs[0], xs[1], ys[0], ys[1]]))
            continue
        ft = (f.ixmin, f.ixmax, f.iymin, f.iymax)
        ctx.count_case(['from_float', xs, ys])
        ctx.stat('from_float', 'generic-double' if generic else f'dyadic/{den}')
        if from_float_oracle([xs[0], xs[1], ys[0], ys[1]], ft):
            ctx.violation('BoundingBox.from_float:not-minimal', 'from_float is not the smallest integer pixel box '
                          'containing the float rectangle', dict(kind='from_float', args=[xs[0], xs[1], ys[0], ys[1]]))
        coq_cases.append(f'CFromFloat {coq(q(xs[0]))} {coq(q(xs[1]))} {coq(q(ys[0]))} {coq(q(ys[1]))} {coq(ft)}')
        descr.append((dict(kind='from_float', args=[xs[0], xs[1], ys[0], ys[1]]), 'box'))
    ctx.stat('generator', 'box_algebra_cases', nb)
    # ---------------- K: evaluate the model in Coq ----------------
    coq_cases, descr = balance_cases(coq_cases, descr)
    bad = ctx.coq_eval_cases(['C01_Model'], 'check_case', coq_cases, case_type='case', shard_numerals=4000)
    ctx.stat('coq', 'disagreements', len(bad))
    for i in bad[:12]:
        d, source = descr[i]
        if source == 'box':
            msg = box_replay(d, verbose=False)
            if msg:
                sig = {'slices': 'get_overlap_slices:' + ('zero-size-image' if 0 in d.get('shape', [1]) else 'pixel-set'),
                       'boxalg': 'BoundingBox:union/intersection',
                       'from_float': 'BoundingBox.from_float:not-minimal'}[d['kind']]
                ctx.violation(sig, msg, d)
            else:
                ctx.violation('correspondence:C01_Model.check_case:' + d['kind'], 'BoundingBox result differs from '
                              'the proved model although the pixel-set oracle accepts it',
                              dict(d, coq_case=coq_cases[i]), found_input=False)
            continue
        case = d
        rep = mask_rep(case, source)
        verdict = replay_mask(rep, ns, verbose=False)
        try:
            rep['model'] = ctx.coq_eval_term(['C01_Model'], f'model_out ({coq_cases[i]})')[:3000]
        except Exception:   # noqa: BLE001
            rep['model'] = 'n/a'
        rep['coq_case'] = coq_cases[i][:3000]
        pre = 'to_mask' if source == 'compiled' else 'pyx-text'
        if verdict:
            ctx.violation(f'{pre}:{case["fam"]}:centre-fraction', verdict, rep)
        else:
            ctx.violation(f'correspondence:C01_Model.check_case:{pre}:{case["fam"]}', 'mask / bounding box differ from '
                          'the proved model but the independent rational oracle accepts the implementation', rep,
                          found_input=False)
    # ---------------- ApertureMask.to_image / cutout agree with the slices (direct clause) ----------------
    from photutils.aperture import CircularAperture
    for k in range(60 if quick else 600):
        ny, nx = rng.randint(1, 9), rng.randint(1, 9)
        if rng.random() < 0.08:
            ny, nx = rng.choice([(0, nx), (ny, 0)])
        ap_ = CircularAperture((lattice(rng, -4, nx + 3), lattice(rng, -4, ny + 3)), r=lattice(rng, 0.25, 4))
        rep = dict(kind='to_image', shape=[ny, nx], pos=[float(v) for v in ap_.positions], r=float(ap_.r))
        ctx.count_case(['to_image', ny, nx, rep['pos'], rep['r']], True)
        msg = to_image_check(rep)
        if msg:
            ctx.violation('ApertureMask:to_image/cutout' + (':zero-size-image' if 0 in (ny, nx) else ''), msg, rep)


def to_image_check(rep):
    from photutils.aperture import CircularAperture
    ny, nx = rep['shape']
    data = np.arange(ny * nx, dtype=float).reshape(ny, nx) + 1
    try:
        m = CircularAperture(tuple(rep['pos']), r=rep['r']).to_mask(method='center')
        b = (m.bbox.ixmin, m.bbox.ixmax, m.bbox.iymin, m.bbox.iymax)
        img = m.to_image((ny, nx))
        cut = m.cutout(data, fill_value=-7.0)
    except Exception as e:   # noqa: BLE001
        return f'to_mask/to_image/cutout raises {type(e).__name__}: {e}'
    common = {(y, x) for y in range(max(b[2], 0), min(b[3], ny)) for x in range(max(b[0], 0), min(b[1], nx))}
    if not common:
        return None if (img is None and cut is None) else 'no common pixel but to_image/cutout is not None'
    if img is None or cut is None:
        return 'common pixels exist but to_image/cutout is None'
    want = np.zeros((ny, nx))
    wc = np.full(m.data.shape, -7.0)
    for (y, x) in common:
        want[y, x] = m.data[y - b[2], x - b[0]]
        wc[y - b[2], x - b[0]] = data[y, x]
    if not (np.array_equal(img, want) and np.array_equal(cut, wc)):
        return 'to_image/cutout do not place exactly the common pixels'
    return None


# =====================================================================================================
def replay_mask(rep, ns=None, verbose=True):
    """Re-run one mask input through the named route and the oracles; returns a message if the property
    fails on it, '' otherwise."""
    case = dict(fam=rep['fam'], params=rep['params'], px=rep['px'], py=rep['py'], method=rep['method'],
                sub=rep['sub'], exact_arith=rep.get('exact_arith', False), lat=rep.get('lat', False))
    aper = make_aperture(case)
    if rep.get('source') == 'pyx-text':
        if ns is None:
            ns, _ = load_kernels(core.REPO)
        bbx = aper._bbox[0]
        data = text_mask(ns, case, aper)
    else:
        try:
            m = aper.to_mask(method=case['method'], subpixels=case['sub'])
        except Exception as e:   # noqa: BLE001
            if verbose:
                print('input:', case, '\n  FAIL: to_mask raises', type(e).__name__, e)
            return f'to_mask raises {type(e).__name__}: {e}'
        bbx, data = m.bbox, m.data
    bb = (bbx.ixmin, bbx.ixmax, bbx.iymin, bbx.iymax)
    rect, mode, s_eff, use_exact = eff_sub(case)

    class _C:   # minimal ctx for direct_checks
        def support(self, *a):
            pass

        def stat(self, *a):
            pass
    msgs = [w for _, w, _ in direct_checks(_C(), case, aper, data, bb, rep.get('source', 'compiled'))]
    if not use_exact and data.size * s_eff * s_eff <= 400000:
        ex, ey = (float(v) for v in aper._xy_extents)
        tol = None if (rep.get('exact_arith') and s_eff in POW2) else case_tol(case, ex, ey)
        want, dec = oracle_counts(case, bb, s_eff, tol)
        got = counts_from_weights(data, s_eff)
        if got is None:
            msgs.append('a weight is not a multiple of 1/subpixels^2')
        else:
            badpix = dec & (want != got)
            if badpix.any():
                j, i = np.argwhere(badpix)[0]
                msgs.append(f'pixel (y={bb[2] + j}, x={bb[0] + i}): weight {got[j, i]}/{s_eff * s_eff} but '
                            f'{want[j, i]} of its {s_eff * s_eff} sub-pixel centres lie inside the shape')
    if verbose:
        print('input:', case, 'route:', rep.get('source', 'compiled'))
        print('bbox:', bb)
        for w in msgs:
            print('  FAIL:', w)
    return '; '.join(msgs)


def box_replay(r, verbose=True):
    """slices / from_float / union+intersection inputs against their pixel-set oracles"""
    from photutils.aperture import BoundingBox
    kind = r['kind']
    try:
        return _box_replay(r, verbose, BoundingBox, kind)
    except Exception as e:   # noqa: BLE001
        return f'raises {type(e).__name__}: {e}'


def _box_replay(r, verbose, BoundingBox, kind):
    if kind == 'slices':
        sl, ss = BoundingBox(*r['box']).get_overlap_slices(tuple(r['shape']))
        if verbose:
            print('box', r['box'], 'shape', r['shape'], '->', sl, ss)
        return slices_oracle(tuple(r['box']), tuple(r['shape']), sl, ss)
    if kind == 'from_float':
        f = BoundingBox.from_float(*r['args'])
        if verbose:
            print('from_float', r['args'], '->', f)
        return from_float_oracle(r['args'], (f.ixmin, f.ixmax, f.iymin, f.iymax))
    a, b = BoundingBox(*r['a']), BoundingBox(*r['b'])
    u, it = a | b, a & b
    if verbose:
        print('union', u, 'intersection', it)
    return boxalg_oracle(tuple(r['a']), tuple(r['b']), (u.ixmin, u.ixmax, u.iymin, u.iymax),
                         None if it is None else (it.ixmin, it.ixmax, it.iymin, it.iymax))


def replay(obj):
    r = obj['replay']
    kind = r.get('kind') if isinstance(r, dict) else None
    core.setup_repo_path()
    from photutils.aperture import BoundingBox
    msg = None
    if kind == 'mask':
        msg = replay_mask(r)
    elif kind in ('slices', 'from_float', 'boxalg'):
        msg = box_replay(r)
    elif kind == 'to_image':
        msg = to_image_check(r)
    elif kind == 'multi':
        try:
            msg, _ = multi_check(r, verbose=True)
        except Exception as e:   # noqa: BLE001
            msg = f'raises {type(e).__name__}: {e}'
    elif kind == 'interleaved':
        res = interleaved_collect(interleaved_spawn({k_: r[k_] for k_ in ('kind', 'seed', 'first')}))
        for st in res.get('steps', []):
            print('  step', st)
        msg = None if res.get('ok') else res.get('msg')
    elif kind == 'history':
        try:
            msg = history_run(r, verbose=True)
        except Exception as e:   # noqa: BLE001
            msg = f'raises {type(e).__name__}: {e}'
    elif kind == 'shift':
        case = dict(fam=r['fam'], params=r['params'], px=r['px'], py=r['py'], method=r['method'], sub=r['sub'])
        m1 = make_aperture(case).to_mask(method=case['method'], subpixels=case['sub'])
        m2 = make_aperture(dict(case, px=case['px'] + r['kx'], py=case['py'] + r['ky'])).to_mask(
            method=case['method'], subpixels=case['sub'])
        print(m1.bbox, m2.bbox)
        ok = np.array_equal(m1.data, m2.data) and (m2.bbox.ixmin - m1.bbox.ixmin, m2.bbox.iymin - m1.bbox.iymin) == \
            (r['kx'], r['ky'])
        msg = None if ok else 'not covariant under the integer shift'
    else:
        print(obj.get('what'))
        print('no single input recorded (broken obligation / correspondence); re-run `bin/check C01`')
        return 1
    print('property holds on this input' if not msg else 'property FAILS on this input: ' + msg)
    return 1 if msg else 0
