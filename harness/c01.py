"""C01 — aperture masks are the true pixel-overlap fractions of the shape."""
import math
from fractions import Fraction as F

import numpy as np

from .core import coq, Some, Raw

PID = 'C01'
FILES = ['lib/Cases.v', 'C01_Model.v', 'C01_Proofs.v', 'C01_Properties.v']
POW2 = (1, 2, 4, 8, 16, 32)
TOL = F(1, 2 ** 40)


def q(x):
    return F(float(x))


def lattice(rng, lo, hi, den=8):
    return rng.randint(int(lo * den), int(hi * den)) / den


def gen_mask_case(rng, tier):
    """Returns dict describing one to_mask case."""
    fam = rng.choice(['circle', 'circle', 'cannulus', 'ellipse', 'eannulus', 'rect', 'rannulus'])
    lat = rng.random() < 0.6
    big = rng.random() < (0.05 if tier == 'quick' else 0.1)
    if lat:
        pos_kind = rng.choice(['generic', 'integer', 'half', 'far'])
        if pos_kind == 'integer':
            px, py = float(rng.randint(-3, 12)), float(rng.randint(-3, 12))
        elif pos_kind == 'half':
            px, py = rng.randint(-3, 12) + 0.5, rng.randint(-3, 12) + 0.5
        elif pos_kind == 'far':
            px, py = float(rng.choice([-10000, 10000])) + lattice(rng, 0, 1), lattice(rng, -3, 12)
        else:
            px, py = lattice(rng, -3, 12), lattice(rng, -3, 12)
    else:
        pos_kind = 'double'
        px, py = rng.uniform(-3, 12), rng.uniform(-3, 12)
        if rng.random() < 0.1:
            px += rng.choice([-1e4, 1e4])
    mx = 40.0 if big else 5.0

    def size(lo=0.125):
        if lat:
            return lattice(rng, lo, mx)
        return rng.choice([rng.uniform(0.03, 1.0), rng.uniform(0.03, mx)])
    theta = 0.0
    if fam in ('ellipse', 'eannulus', 'rect', 'rannulus'):
        if lat:
            theta = 0.0
        else:
            theta = rng.choice([0.0, math.pi / 4, math.pi / 2, 3 * math.pi / 4, math.pi, -math.pi / 4,
                                rng.uniform(-4, 4), rng.uniform(-4, 4)])
    c, s = math.cos(theta), math.sin(theta)
    exact_arith = lat
    if fam == 'circle':
        r = size()
        params = dict(r=r)
        outer, inner = ('Circle', [r]), None
    elif fam == 'cannulus':
        r_out = size(0.25)
        ratio = rng.choice([0.999, 0.5, 0.25, 0.9])
        r_in = (lattice(rng, 0.125, max(0.125, r_out - 0.125)) if lat else r_out * ratio)
        if not r_in < r_out:
            r_in = r_out / 2
        params = dict(r_in=r_in, r_out=r_out)
        outer, inner = ('Circle', [r_out]), ('Circle', [r_in])
    elif fam == 'ellipse':
        if lat:
            a = rng.choice([0.5, 1.0, 2.0, 4.0])
            b = rng.choice([0.5, 1.0, 2.0, 4.0])
        else:
            a = size()
            b = a * rng.choice([1.0, 0.5, 0.02, rng.uniform(0.02, 1)])
        params = dict(a=a, b=b, theta=theta)
        outer, inner = ('Ellipse', [a, b, c, s]), None
    elif fam == 'eannulus':
        if lat:
            a_out, b_out = rng.choice([(2.0, 1.0), (4.0, 2.0), (4.0, 4.0), (2.0, 2.0)])
            a_in = a_out / 2
        else:
            a_out = size(0.25)
            b_out = a_out * rng.uniform(0.05, 1)
            a_in = a_out * rng.choice([0.999, 0.5, rng.uniform(0.05, 0.99)])
        b_in = b_out * a_in / a_out     # the constructor's default
        params = dict(a_in=a_in, a_out=a_out, b_out=b_out, theta=theta)
        outer, inner = ('Ellipse', [a_out, b_out, c, s]), ('Ellipse', [a_in, b_in, c, s])
    elif fam == 'rect':
        w, h = size(), size()
        params = dict(w=w, h=h, theta=theta)
        outer, inner = ('Rect', [w, h, c, s]), None
    else:
        w_out, h_out = size(0.25), size(0.25)
        if lat:
            w_in = w_out / 2
        else:
            w_in = w_out * rng.choice([0.999, 0.5, rng.uniform(0.05, 0.99)])
        h_in = w_in * h_out / w_out
        params = dict(w_in=w_in, w_out=w_out, h_out=h_out, theta=theta)
        outer, inner = ('Rect', [w_out, h_out, c, s]), ('Rect', [w_in, h_in, c, s])
        if lat and q(h_in) * q(w_out) != q(w_in) * q(h_out):
            exact_arith = False
    method = rng.choice(['center', 'subpixel', 'subpixel', 'exact'])
    ext = max(v for v in outer[1][:2]) if outer[0] != 'Rect' else 0.5 * math.hypot(*outer[1][:2])
    area_est = (2 * ext + 2) ** 2 * (2 if inner else 1) * (1 if exact_arith else 2)
    budget = 5000 if tier == 'quick' else 20000
    if method == 'exact' and fam in ('rect', 'rannulus') and area_est * 1024 > 3 * budget:
        method = 'subpixel'
    if method == 'center' and area_est > budget:
        method = 'exact' if fam not in ('rect', 'rannulus') else 'center'
    if method == 'subpixel':
        allowed = [s_ for s_ in (1, 2, 3, 4, 5, 7, 8, 16, 32) if s_ * s_ * area_est <= budget] or [1]
        sub = rng.choice(allowed[-4:])
    else:
        sub = rng.choice([1, 5])
    return dict(fam=fam, params=params, px=px, py=py, method=method, sub=sub, outer=outer, inner=inner,
                lat=lat, pos_kind=pos_kind, exact_arith=exact_arith, theta=theta)


def make_aperture(case):
    from photutils import aperture as ap
    cls = {'circle': ap.CircularAperture, 'cannulus': ap.CircularAnnulus, 'ellipse': ap.EllipticalAperture,
           'eannulus': ap.EllipticalAnnulus, 'rect': ap.RectangularAperture, 'rannulus': ap.RectangularAnnulus}
    return cls[case['fam']]((case['px'], case['py']), **case['params'])


def shape_coq(sh):
    return Raw('(' + sh[0] + ' ' + ' '.join(coq(q(v)) for v in sh[1]) + ')')


def counts_from_weights(w, s):
    n = w * (s * s)
    r = np.rint(n)
    if not np.all(np.abs(n - r) < 1e-6):
        return None
    return r.astype(int)


def mask_case_coq(case, aper, m):
    ex, ey = aper._xy_extents
    fam = case['fam']
    rect = fam in ('rect', 'rannulus')
    mode = {'center': 0, 'subpixel': 1, 'exact': 2}[case['method']]
    s_eff = 32 if (rect and mode == 2) else (1 if mode == 0 else case['sub'])
    use_exact = (mode == 2 and not rect)
    exact_arith = case['exact_arith'] and s_eff in POW2
    counts = None
    if not use_exact:
        cnt = counts_from_weights(m.data, s_eff)
        if cnt is None:
            return None
        counts = Some([[int(v) for v in row] for row in cnt])
    bb = m.bbox
    return 'CMask ' + ' '.join([
        shape_coq(case['outer']), 'None' if case['inner'] is None else '(Some ' + shape_coq(case['inner']) + ')',
        coq(q(case['px'])), coq(q(case['py'])), coq(q(ex)), coq(q(ey)), coq(mode), coq(case['sub']), coq(rect),
        'None' if exact_arith else '(Some ' + coq(TOL) + ')',
        coq((bb.ixmin, bb.ixmax, bb.iymin, bb.iymax)), coq(counts)])


# ---------- independent numeric oracles for the 'exact' method (support, not proof) ----------
def circle_pixel_area(x0, y0, x1, y1, r):
    """Area of [x0,x1]x[y0,y1] intersected with the disc of radius r at the origin, by
    exact integration of the chord length (independent of the .pyx case analysis)."""
    def G(t):    # antiderivative of sqrt(r^2 - t^2)
        t = max(-r, min(r, t))
        return 0.5 * (t * math.sqrt(max(0.0, r * r - t * t)) + r * r * math.asin(t / r))
    # integrate over x the length of [y0,y1] ∩ [-s(x), s(x)], s = sqrt(r^2-x^2); split at
    # the x where s(x) crosses |y0|, |y1|
    xs = {max(-r, min(r, x0)), max(-r, min(r, x1))}
    for yv in (y0, y1):
        if abs(yv) <= r:
            xc = math.sqrt(r * r - yv * yv)
            for v in (-xc, xc):
                if x0 < v < x1:
                    xs.add(v)
    xs = sorted(xs)
    tot = 0.0
    for a, b in zip(xs[:-1], xs[1:]):
        if b <= a:
            continue
        mid = 0.5 * (a + b)
        sm = math.sqrt(max(0.0, r * r - mid * mid))
        hi_is_s = sm < y1
        lo_is_s = -sm > y0
        if min(y1, sm) <= max(y0, -sm):
            continue
        # integral of (min(y1,s) - max(y0,-s))
        part = 0.0
        part += (G(b) - G(a)) if hi_is_s else y1 * (b - a)
        part -= -(G(b) - G(a)) if lo_is_s else y0 * (b - a)
        tot += part
    return tot


def exact_oracle(case, m):
    """max abs error of the 'exact' weights against an independent computation."""
    fam = case['fam']
    bb = m.bbox
    px, py = case['px'], case['py']
    if fam in ('circle', 'cannulus'):
        radii = [case['outer'][1][0]] + ([case['inner'][1][0]] if case['inner'] else [])
        want = np.zeros(m.data.shape)
        for k, r in enumerate(radii):
            for j in range(m.data.shape[0]):
                for i in range(m.data.shape[1]):
                    a = circle_pixel_area(bb.ixmin + i - 0.5 - px, bb.iymin + j - 0.5 - py,
                                          bb.ixmin + i + 0.5 - px, bb.iymin + j + 0.5 - py, r)
                    want[j, i] += a if k == 0 else -a
        return float(np.max(np.abs(want - m.data))), 1e-9
    return None, None


def sum_vs_area(case, aper, m):
    """sum of weights vs analytic area."""
    fam = case['fam']
    area = aper.area
    tot = float(m.data.sum())
    if case['method'] == 'exact' and fam in ('circle', 'cannulus', 'ellipse', 'eannulus'):
        return abs(tot - area) <= 1e-8 * max(1.0, area)
    if case['method'] == 'exact':   # rectangle: 32x32 subsampling accuracy
        w, h = case['outer'][1][:2]
        per = 2 * (w + h)
        if case['inner']:
            per += 2 * (case['inner'][1][0] + case['inner'][1][1])
        return abs(tot - area) <= per * math.sqrt(2) / 32 + 1e-9
    return True


def run(ctx):
    ctx.build(FILES)
    rng = ctx.rng
    ctx.cov['rule'] = ('to_mask of the six pixel aperture classes x {center, subpixel(1..32), exact} on (i) an exact '
                       'lattice (dyadic centres/sizes, theta=0, power-of-two subpixels: bit-exact comparison incl. ties) '
                       'and (ii) arbitrary doubles incl. rotations and far-off-image centres (pixels whose deciding '
                       'quantity is within 2^-40 of 0 are skipped); BoundingBox slices/union/intersection on random and '
                       'boundary boxes; non-trivial = mask has a pixel strictly between... any non-empty mask; distinct '
                       'by (class, params, position, method, subpixels)')
    ctx.cov['partial_clauses'] = [
        "'exact' weights of circles/ellipses equal the true area fraction: not proved (needs the integral of "
        "sqrt(r^2-x^2) and the 130-line triangle/unit-circle routine); supported by an independent analytic "
        "integration for circles (1e-9) and by sum(weights) == analytic area (1e-8) for circles and ellipses",
        'geometry kernels live in compiled .pyx files that cannot be rebuilt here (no Cython): tied through '
        'to_mask() end-to-end only']
    ctx.assumptions += ['float cos/sin of theta are passed to the model as exact rationals; libm is trusted to be '
                        'the same for math.cos and the C kernels (decision margin 2^-40 absorbs 1-ulp differences)']
    n = 260 if ctx.tier == 'quick' else 2500
    coq_cases, descr = [], []
    for k in range(n):
        case = gen_mask_case(rng, ctx.tier)
        aper = make_aperture(case)
        m = aper.to_mask(method=case['method'], subpixels=case['sub'])
        key = [case['fam'], case['params'], case['px'], case['py'], case['method'], case['sub']]
        ctx.stat('family', case['fam'])
        ctx.stat('method', case['method'])
        ctx.stat('position', case['pos_kind'])
        ctx.stat('arith', 'lattice-exact' if case['exact_arith'] and case['sub'] in POW2 else 'doubles+margin')
        ctx.count_case(key, bool(m.data.any()))
        # direct clauses on the implementation: weights in [0,1]; sum vs area; bbox shape
        lo, hi = float(m.data.min()), float(m.data.max())
        if lo < -1e-12 or hi > 1 + 1e-12:
            ctx.violation(f'to_mask:{case["fam"]}:weights-range', f'mask weight outside [0,1]: [{lo}, {hi}]', key)
        if not sum_vs_area(case, aper, m):
            ctx.violation(f'to_mask:{case["fam"]}:sum-vs-area', 'sum of exact weights differs from the analytic area',
                          {'case': key, 'sum': float(m.data.sum()), 'area': float(aper.area)})
        if case['method'] == 'exact':
            err, tol = exact_oracle(case, m)
            if err is not None:
                ctx.support('exact-circle-weights-vs-independent-integration')
                if err > tol:
                    ctx.violation(f'to_mask:{case["fam"]}:exact-weights', f'exact weight differs from the true '
                                  f'overlap area by {err:.3e}', key)
        t = mask_case_coq(case, aper, m)
        if t is None:
            ctx.violation(f'to_mask:{case["fam"]}:weights-not-k-over-s2', 'a center/subpixel weight is not a '
                          'multiple of 1/subpixels^2', key)
            continue
        coq_cases.append(t)
        descr.append(key)
        if k < 2:
            ctx.sample({'case': key, 'bbox': repr(m.bbox), 'weights': m.data.tolist()})
    # bounding-box algebra and slices
    nb = 300 if ctx.tier == 'quick' else 3000
    from photutils.aperture import BoundingBox
    for k in range(nb):
        x0, y0 = rng.randint(-8, 12), rng.randint(-8, 12)
        b = (x0, x0 + rng.randint(1, 9), y0, y0 + rng.randint(1, 9))
        ny, nx = rng.randint(1, 10), rng.randint(1, 10)
        if rng.random() < 0.3:   # straddle / touch each edge exactly
            b = rng.choice([(-3, 0, 0, 2), (nx, nx + 2, 0, 2), (0, 2, -2, 0), (0, 2, ny, ny + 1), (-1, 1, -1, 1),
                            (nx - 1, nx + 1, ny - 1, ny + 1), (0, nx, 0, ny), (-2, nx + 2, -2, ny + 2)])
        bb = BoundingBox(*b)
        sl, ss = bb.get_overlap_slices((ny, nx))
        exp = None if sl is None else Some((((sl[0].start, sl[0].stop), (sl[1].start, sl[1].stop)),
                                            ((ss[0].start, ss[0].stop), (ss[1].start, ss[1].stop))))
        if (sl is None) != (ss is None):
            ctx.violation('get_overlap_slices:half-none', 'only one of the slice pairs is None', [b, ny, nx])
        coq_cases.append(f'CSlices {coq(b)} {coq(ny)} {coq(nx)} {coq(exp)}')
        descr.append(['slices', b, ny, nx])
        ctx.count_case(['slices', b, ny, nx], sl is not None)
        x1, y1 = rng.randint(-8, 12), rng.randint(-8, 12)
        b2 = (x1, x1 + rng.randint(1, 9), y1, y1 + rng.randint(1, 9))
        bb2 = BoundingBox(*b2)
        u = bb | bb2
        coq_cases.append(f'CUnion {coq(b)} {coq(b2)} {coq((u.ixmin, u.ixmax, u.iymin, u.iymax))}')
        descr.append(['union', b, b2])
        it = bb & bb2
        coq_cases.append(f'CInter {coq(b)} {coq(b2)} '
                         f'{coq(None if it is None else Some((it.ixmin, it.ixmax, it.iymin, it.iymax)))}')
        descr.append(['inter', b, b2])
        ctx.count_case(['boxalg', b, b2], it is not None)
    ctx.stat('generator', 'box_algebra_cases', nb)
    bad = ctx.coq_eval_cases(['C01_Model'], 'check_case', coq_cases, case_type='case', shard_numerals=6000)
    ctx.stat('coq', 'disagreements', len(bad))
    for i in bad[:10]:
        detail = {'case': descr[i], 'coq_case': coq_cases[i][:4000]}
        try:
            detail['model'] = ctx.coq_eval_term(['C01_Model'], f'model_out ({coq_cases[i]})')[:4000]
        except Exception as e:   # noqa
            detail['model'] = 'n/a'
        ctx.violation('to_mask/bbox:model-mismatch:' + str(descr[i][0]),
                      'mask weights / bounding box / overlap slices differ from the proved model '
                      '(fraction of sub-pixel centres inside the shape; minimal box; exact common pixels)', detail)
    # ApertureMask.to_image / cutout agree with the slices (direct clause)
    from photutils.aperture import CircularAperture
    for k in range(60 if ctx.tier == 'quick' else 600):
        ny, nx = rng.randint(1, 9), rng.randint(1, 9)
        ap_ = CircularAperture((lattice(rng, -4, nx + 3), lattice(rng, -4, ny + 3)), r=lattice(rng, 0.25, 4))
        m = ap_.to_mask(method='center')
        img = m.to_image((ny, nx))
        sl, ss = m.get_overlap_slices((ny, nx))
        data = np.arange(ny * nx, dtype=float).reshape(ny, nx) + 1
        cut = m.cutout(data, fill_value=-7.0)
        ctx.count_case(['to_image', ny, nx, ap_.positions.tolist(), float(ap_.r)], sl is not None)
        ok = True
        if sl is None:
            ok = img is None and cut is None
        else:
            want = np.zeros((ny, nx))
            want[sl] = m.data[ss]
            wc = np.full(m.data.shape, -7.0)
            wc[ss] = data[sl]
            ok = img is not None and np.array_equal(img, want) and np.array_equal(cut, wc)
        if not ok:
            ctx.violation('ApertureMask:to_image/cutout', 'to_image/cutout disagree with the overlap slices',
                          {'shape': [ny, nx], 'pos': ap_.positions.tolist(), 'r': float(ap_.r)})


def replay(obj):
    print(obj.get('what'))
    print('replay: re-run `bin/check C01` (the case is regenerated from the recorded seed):', obj.get('seed'))
    return 1
