"""C12L (stretch of C12): the LINEAR part of PSF fitting — the fluxes — tied to the real PSFPhotometry.

Coq side: coq/C12L_Model.v (design of one group as coded in _define_fit_data / _fit_sources: rows = concatenation
over the group's sources of the unmasked window pixels, weights 1/error, per-owner local background), proofs in
C12L_Proofs.v / C12L_Properties.v on top of the generic least-squares theory of C20H_Model / C20H_Proofs.

`run_flux_correspondence(ctx, n_scenes)` is meant to be called from the C12 harness after its build (with the C20H
and C12L files among the built files).  It draws from its OWN PRNG (derived from ctx.seed).  Streams:

  flux   scenes with 1-4 sources (isolated, overlapping pairs / triples, near edges, far apart), PSF models
         CircularGaussianPRF / GaussianPRF / ImagePSF (compact support) with x_0, y_0 FIXED and flux free, fit shapes,
         masks, error maps on a dyadic lattice (non-uniform), local_bkg columns (different per source), shuffled ids,
         every partition into groups (supplied group_id, interleaved).  Data: exact superpositions (each pixel
         = the exact rational sum of f*_s P_s rounded ONCE to binary64; with / without a constant pedestal that the
         local_bkg column removes), exact + lattice noise, arbitrary dyadic images.  The unit-flux PSF values
         P_s(pixel) are evaluated by photutils itself (the psf model called with flux=1 at the source's position on the
         pixel grid) and handed to Coq as exact dyadic rationals, as are data, errors, backgrounds.
         The REAL PSFPhotometry is run (TRFLSQFitter; a recording wrapper notes the (yi, xi) it is handed); per group
         Coq checks (check_flux_case):
           * the pixels handed to the fitter are the model's rows, in the model's order;
           * flux_fit (read from the result table BY ID) satisfies every normal equation of the model's design up to
             2^-TOL * scale, scale_j = sum_i |A_i|_1 (|y_i| + |A_i| . |c|)  (as C20H.ne_check);
           * FULL cases (groups of <= 3 sources, a share of the cases): Coq inverts the Gram matrix (checked inverse), its solution
             satisfies the normal equations EXACTLY and flux_fit is within (sum_j |G^-1 l j|) * tolerance of it; in LIGHT
             cases the row sums of |G^-1| come from the harness (exact Fractions) and only scale tolerances;
           * exact scenes whose group contains all the light on its pixels: f* satisfies the normal equations up to the
             one rounding per datum (2^-44 scale) and is recovered by flux_fit and by the model's solution;
           * a second real run on k * data (k in {2, 1/2, 3, -1, 3/2, 1024, 7/8}; local_bkg scaled too) satisfies the
             normal equations of k * y and equals k * flux_fit within the conditioning-scaled tolerance;
           * a third real run with every source in its own group: each flux satisfies its one-column normal equation,
             and equals the grouped flux when the columns are mutually dark (decided in Coq on the exact PSF values).
  free   positions FREE, started AT the truth on an exact scene: the returned x, y, flux must equal the truth
         (check_free_case, 2^-FREE_BITS relative).

Tolerances.  The fitter is an iterative trust-region Gauss-Newton (scipy least_squares 'trf') with a FORWARD-DIFFERENCE
Jacobian (relative step sqrt(eps)) and gtol = 1e-8 on a problem that is linear in the fluxes: its answer is not exact.
Measured on the unchanged code (seeds 0..3 of the generator, ~2400 group fits): the worst normal-equation residual is
2^-32.2 * scale for arbitrary data and 2^-33.5 * scale for exact scenes; the rendered fluxes are recovered within
2^-34.5 (|f*|_1 + 1)(1 + |G^-1 row|_1); started at the truth with free positions the truth is returned bit for bit (49 scenes).
Tolerances used: 2^-22 (arbitrary data), 2^-26 (exact scenes), 2^-24 (recovery), 2^-30 (free positions).

PRECONDITION of the tie (decided on the inputs): the exact least-squares flux of every source fitted alone is positive,
like the initial guess (see the comment at the place; observation C12L-O1).

Model/code disagreements -> `correspondence:C12L_Model...` (found_input=False) unless the plain-Python Fraction oracle
shows that a clause of the C12 text is violated (recovery of a rendered scene, flux scaling, single = grouped for isolated
sources): then a precise signature and the input.
"""
import math
import random
import warnings
from fractions import Fraction

import numpy as np

from .core import Raw, Some, coq
from .c20h import dy, pos, inverse_row_sums

IMPORTS = ['C20_Model', 'C20H_Model', 'C12_Model', 'C12L_Model']
COQ_FILES = ['C20_Model.v', 'C20_Proofs.v', 'C20H_Model.v', 'C20H_Proofs.v', 'C12L_Model.v', 'C12L_Proofs.v', 'C12L_Properties.v']
OBLIGATION_FILES = ['C12L_Properties.v']

SC = 16                # positions are multiples of 1/16
TOL_GENERAL = 22       # bits: normal equations, arbitrary data
TOL_EXACT = 26         # bits: normal equations, exact scenes
TOL_RECOVER = 24       # bits: recovery of the rendered fluxes
FREE_BITS = 30         # bits: positions free, started at the truth (measured: the truth is returned bit for bit)
SCALES = [2.0, 0.5, 3.0, -1.0, 1.5, 1024.0, 0.875]


# --------------------------------------------------------------------------
# PSF models
# --------------------------------------------------------------------------
def make_psf(spec, fixed_xy=True):
    from photutils.psf import CircularGaussianPRF, GaussianPRF, ImagePSF
    kind = spec['kind']
    if kind == 'cgprf':
        m = CircularGaussianPRF(fwhm=spec['fwhm'])
    elif kind == 'gprf':
        m = GaussianPRF(x_fwhm=spec['fwhm'], y_fwhm=spec['fwhm'] * 1.25, theta=spec.get('theta', 0.0))
    elif kind == 'image':
        half = spec['half']
        yy, xx = np.mgrid[-half:half + 1, -half:half + 1]
        sig = spec['fwhm'] / 2.3548200450309493
        stamp = np.exp(-(xx ** 2 + yy ** 2) / (2 * sig ** 2)) * (1 + 0.125 * xx / (half + 1))    # slightly skew
        stamp /= stamp.sum()
        m = ImagePSF(stamp)
    else:
        raise ValueError(kind)
    if fixed_xy:
        m.x_0.fixed = True
        m.y_0.fixed = True
    return m


def unit_images(spec, xs, ys, shape):
    """P_s on the whole pixel grid: the unit-flux model of each source evaluated by photutils."""
    yy, xx = np.mgrid[:shape[0], :shape[1]]
    out = []
    for x, y in zip(xs, ys):
        m = make_psf(spec)
        m.x_0 = x
        m.y_0 = y
        m.flux = 1.0
        out.append(np.array(m(xx.astype(float), yy.astype(float)), dtype=float))
    return out


# --------------------------------------------------------------------------
# the recording fitter
# --------------------------------------------------------------------------
class RecFitter:
    def __init__(self):
        from astropy.modeling.fitting import TRFLSQFitter
        self.real = TRFLSQFitter()
        self.calls = []

    @property
    def fit_info(self):
        return self.real.fit_info

    def __call__(self, model, x, y, z, weights=None, maxiter=None):
        n = model.n_submodels
        names = [model.name] if n == 1 else list(model.submodel_names)
        self.calls.append({'ids': [int(v) for v in names], 'xi': [int(v) for v in x], 'yi': [int(v) for v in y]})
        kw = {} if maxiter is None else {'maxiter': maxiter}
        return self.real(model, x, y, z, weights=weights, **kw)


# --------------------------------------------------------------------------
# scenes
# --------------------------------------------------------------------------
LAYOUTS = ['isolated', 'pair', 'pair', 'triple', 'edge', 'far', 'mixed']
DATA_KINDS = ['exact', 'exact', 'exact+bkg', 'exact+noise', 'random', 'random']


def q16(rng, a, b):
    return rng.randint(int(a * SC), int(b * SC)) / SC


def gen_scene(rng):
    ny, nx = rng.choice([(17, 21), (21, 17), (19, 19), (23, 26), (15, 30)])
    fy, fx = rng.choice([(5, 5), (7, 7), (5, 7), (7, 5), (3, 3), (9, 9)])
    pk = rng.choices(['cgprf', 'gprf', 'image'], [3, 2, 4])[0]
    spec = {'kind': pk, 'fwhm': rng.choice([2.0, 2.5, 3.0, 3.7])}
    if pk == 'gprf':
        spec['theta'] = rng.choice([0.0, 0.5])
    if pk == 'image':
        spec['half'] = rng.choice([2, 3, 4])
        spec['fwhm'] = rng.choice([1.5, 2.0, 2.5])
    layout = rng.choice(LAYOUTS)
    xs, ys = [], []
    if layout == 'isolated':
        n = rng.randint(1, 3)
        for j in range(n):
            xs.append(q16(rng, 3, nx - 4))
            ys.append(q16(rng, 3, ny - 4))
    elif layout in ('pair', 'triple', 'mixed'):
        n = 2 if layout == 'pair' else 3 if layout == 'triple' else 4
        x0, y0 = q16(rng, 4, nx - 5), q16(rng, 4, ny - 5)
        xs, ys = [x0], [y0]
        for j in range(1, n):
            far = layout == 'mixed' and j == n - 1
            sep = rng.uniform(6, 9) if far else rng.uniform(1.25, 4.0)
            ang = rng.uniform(0, 2 * math.pi)
            xs.append(min(max(round((x0 + sep * math.cos(ang)) * SC) / SC, 0.5), nx - 1.5))
            ys.append(min(max(round((y0 + sep * math.sin(ang)) * SC) / SC, 0.5), ny - 1.5))
    elif layout == 'edge':
        n = rng.randint(1, 3)
        for j in range(n):
            side = rng.randrange(4)
            along_x, along_y = q16(rng, 0, nx - 1), q16(rng, 0, ny - 1)
            off = rng.choice([-0.5, 0.0, 0.25, 1.0, 1.5])
            if side == 0:
                xs.append(off); ys.append(along_y)
            elif side == 1:
                xs.append(nx - 1 - off); ys.append(along_y)
            elif side == 2:
                xs.append(along_x); ys.append(off)
            else:
                xs.append(along_x); ys.append(ny - 1 - off)
    else:   # far: separated by more than stamp + window so that compact PSFs are mutually dark
        n = 2
        xs = [q16(rng, 3, 5), q16(rng, nx - 6, nx - 4)]
        ys = [q16(rng, 3, 5), q16(rng, ny - 6, ny - 4)]
        if rng.random() < 0.7:
            spec = {'kind': 'image', 'half': rng.choice([2, 3]), 'fwhm': rng.choice([1.5, 2.0])}
            fy, fx = rng.choice([(3, 3), (5, 5)])
    # no two sources at the same place (the rank condition)
    seen = set()
    for j in range(len(xs)):
        while (xs[j], ys[j]) in seen:
            xs[j] += 1.0 / SC
        seen.add((xs[j], ys[j]))
    n = len(xs)
    fstar = [rng.randint(8, 4000) / 4 for _ in range(n)]
    finit = [rng.randint(8, 4000) / 4 for _ in range(n)]
    ids = list(range(1, n + 1))
    if rng.random() < 0.4:
        rng.shuffle(ids)
    # partition into groups
    gk = rng.choice(['one', 'singles', 'random', 'random'])
    if gk == 'one':
        gids = [rng.choice([1, 5])] * n
    elif gk == 'singles':
        gids = rng.sample(range(1, 3 * n + 1), n)
    else:
        labs = rng.sample(range(1, 10), rng.randint(1, n))
        gids = [rng.choice(labs) for _ in range(n)]
    dkind = rng.choice(DATA_KINDS)
    mask = None
    if rng.random() < 0.45:
        dens = rng.choice([0.05, 0.1, 0.2])
        mask = [[rng.random() < dens for _ in range(nx)] for _ in range(ny)]
    error = None
    if rng.random() < 0.5:
        # powers of two: weights = 1.0 / error is exact in binary64 and the rescaled problem of the Coq check is integral
        vals = rng.choice([[0.5, 1.0, 2.0, 4.0], [0.25, 1.0, 1.0, 8.0], [2.0, 2.0, 0.25]])
        error = [[rng.choice(vals) for _ in range(nx)] for _ in range(ny)]
    bkg = None
    ped = 0.0
    if dkind == 'exact+bkg':
        ped = rng.randint(-80, 400) / 4
        bkg = [ped] * n
    elif rng.random() < 0.4:
        bkg = [rng.randint(-80, 80) / 8 for _ in range(n)]
    return dict(shape=(ny, nx), fit_shape=(fy, fx), psf=spec, layout=layout, x=xs, y=ys, fstar=fstar, finit=finit,
                ids=ids, gids=gids, gkind=gk, dkind=dkind, mask=mask, error=error, bkg=bkg, ped=ped,
                noise_seed=rng.randrange(1 << 30), k=rng.choice(SCALES))


def render(c, units):
    """The data image (floats) of the scene."""
    ny, nx = c['shape']
    rr = random.Random(c['noise_seed'])
    if c['dkind'] == 'random':
        return np.array([[rr.randint(0, 8000) / 8 for _ in range(nx)] for _ in range(ny)], dtype=float)
    fs = [Fraction(f) for f in c['fstar']]
    ped = Fraction(c['ped'])
    img = np.zeros((ny, nx))
    for y in range(ny):
        for x in range(nx):
            v = ped
            for f, u in zip(fs, units):
                if u[y, x] != 0.0:
                    v += f * Fraction(float(u[y, x]))
            img[y, x] = float(v)          # ONE rounding per pixel
    if c['dkind'] == 'exact+noise':
        img = img + np.array([[rr.randint(-16, 16) / 16 for _ in range(nx)] for _ in range(ny)])
    return img


def run_phot(c, data, gids, bkg, fixed_xy=True, finit=None):
    """One real PSFPhotometry run.  Returns (flux_fit by id, x_fit by id, y_fit by id, fitter calls)."""
    from astropy.table import Table
    from photutils.psf import PSFPhotometry
    psf = make_psf(c['psf'], fixed_xy=fixed_xy)
    fitter = RecFitter()
    phot = PSFPhotometry(psf, tuple(c['fit_shape']), fitter=fitter)
    t = Table()
    t['id'] = c['ids']
    t['x'] = [float(v) for v in c['x']]
    t['y'] = [float(v) for v in c['y']]
    t['flux'] = [float(v) for v in (finit if finit is not None else c['finit'])]
    if bkg is not None:
        t['local_bkg'] = [float(v) for v in bkg]
    t['group_id'] = list(gids)
    mask = None if c['mask'] is None else np.array(c['mask'], dtype=bool)
    error = None if c['error'] is None else np.array(c['error'], dtype=float)
    with warnings.catch_warnings():
        warnings.simplefilter('ignore')
        res = phot(np.array(data, dtype=float), mask=mask, error=error, init_params=t)
    by_id = {int(r['id']): r for r in res}
    return ({i: float(r['flux_fit']) for i, r in by_id.items()}, {i: float(r['x_fit']) for i, r in by_id.items()},
            {i: float(r['y_fit']) for i, r in by_id.items()}, fitter.calls)


# --------------------------------------------------------------------------
# the plain-Python reference (independent of the Coq model and of photutils' bookkeeping)
# --------------------------------------------------------------------------
def window(c_, f, n):
    imin = math.ceil(c_ - f / 2)
    imax = imin + f
    if imax <= 0 or imin >= n:
        return None
    a, b = max(0, imin), min(n, imax)
    return (a, b) if b > a else None


def src_pixels(c, j, masked=True):
    wy_ = window(c['y'][j], c['fit_shape'][0], c['shape'][0])
    wx_ = window(c['x'][j], c['fit_shape'][1], c['shape'][1])
    if wy_ is None or wx_ is None:
        return None
    out = []
    for y in range(*wy_):
        for x in range(*wx_):
            if masked and c['mask'] is not None and c['mask'][y][x]:
                continue
            out.append((y, x))
    return out


def groups_of(c, gids):
    """table order inside a group, groups by increasing group id: lists of source indices."""
    out = []
    for g in sorted(set(gids)):
        out.append([j for j in range(len(gids)) if gids[j] == g])
    return out


def ref_problem(c, members, units, data, bkg, scale=1):
    """(rows, y) of the group in exact Fractions."""
    rows, ys = [], []
    for j in members:
        for (y, x) in src_pixels(c, j):
            w = Fraction(1) if c['error'] is None else 1 / Fraction(c['error'][y][x])
            rows.append([w * Fraction(float(units[m][y, x])) for m in members])
            b = Fraction(0) if bkg is None else Fraction(bkg[j])
            ys.append(w * scale * (Fraction(float(data[y, x])) - b))
    return rows, ys


def ref_solve(rows, ys):
    k = len(rows[0])
    g = [[sum(r[i] * r[j] for r in rows) for j in range(k)] + [sum(r[i] * y for r, y in zip(rows, ys))] for i in range(k)]
    for col in range(k):
        piv = next((r for r in range(col, k) if g[r][col] != 0), None)
        if piv is None:
            return None
        g[col], g[piv] = g[piv], g[col]
        pv = g[col][col]
        g[col] = [v / pv for v in g[col]]
        for r in range(k):
            if r != col and g[r][col] != 0:
                f = g[r][col]
                g[r] = [a - f * b for a, b in zip(g[r], g[col])]
    return [g[i][k] for i in range(k)]


def is_exact(c):
    """the background-subtracted data are the rendered superposition (one rounding per pixel)."""
    return c['dkind'] in ('exact', 'exact+bkg') and (c['bkg'] is None or c['dkind'] == 'exact+bkg')


def own_light(c, members, units):
    """True when no source outside the group puts light on the group's fit pixels."""
    others = [j for j in range(len(c['x'])) if j not in members]
    for j in members:
        for (y, x) in src_pixels(c, j):
            if any(units[o][y, x] != 0.0 for o in others):
                return False
    return True


# --------------------------------------------------------------------------
# Coq terms
# --------------------------------------------------------------------------
def flux_term(c, members, units, data, bkg, impl, recpix, expect, scaled, singles, full, msums, tolbits):
    ny, nx = c['shape']
    fy, fx = c['fit_shape']
    pixset = []
    seen = set()
    for j in members:
        for p in src_pixels(c, j, masked=False):
            if p not in seen:
                seen.add(p)
                pixset.append(p)
    tab = []
    for (y, x) in pixset:
        e = 1.0 if c['error'] is None else c['error'][y][x]
        tab.append(((y, x), (dy(data[y, x]), dy(e), [dy(units[m][y, x]) for m in members])))
    srcs = [(int(c['ids'][j]), int(round(c['x'][j] * SC)), int(round(c['y'][j] * SC)),
             dy(0.0 if bkg is None else bkg[j])) for j in members]
    mask = None if c['mask'] is None else Some([bool(v) for row in c['mask'] for v in row])
    # exponents of the integer rescaling (any choice gives an equivalent test; these make every number integral)
    def need(vals):
        return max([0] + [-dy(v)[1] for v in vals])
    sp = need([units[m][y, x] for (y, x) in pixset for m in members])
    fluxes = list(impl) + (list(expect) if expect is not None else []) + (list(scaled[1]) if scaled is not None else []) \
        + (list(singles) if singles is not None else [])
    ek = min(0, dy(scaled[0])[1]) if scaled is not None else 0
    dvals = [data[y, x] for (y, x) in pixset] + ([] if bkg is None else [bkg[j] for j in members])
    sf = max(need(fluxes), need(dvals) - ek - sp, 0)
    sw = 0 if c['error'] is None else max([0] + [dy(c['error'][y][x])[1] for (y, x) in pixset])
    return coq(((ny, nx, fy, fx, SC), mask, c['error'] is not None, (int(sp), int(sf), int(sw)), tab, srcs,
                [(int(y), int(x)) for (y, x) in recpix],
                [dy(v) for v in impl], pos(tolbits),
                None if expect is None else Some(([dy(v) for v in expect], pos(TOL_RECOVER))),
                None if scaled is None else Some((dy(scaled[0]), [dy(v) for v in scaled[1]])),
                None if singles is None else Some([dy(v) for v in singles]),
                None if full else Some([dy(float(m) * (1 + 2.0 ** -40)) for m in msums])))


def describe(c):
    d = {k: c[k] for k in ('shape', 'fit_shape', 'psf', 'layout', 'x', 'y', 'fstar', 'finit', 'ids', 'gids', 'gkind',
                           'dkind', 'bkg', 'ped', 'noise_seed', 'k')}
    d['mask'] = None if c['mask'] is None else [''.join('1' if v else '0' for v in row) for row in c['mask']]
    d['error'] = c['error']
    return d


def undescribe(d):
    c = dict(d)
    c['shape'] = tuple(c['shape'])
    c['fit_shape'] = tuple(c['fit_shape'])
    c['mask'] = None if d['mask'] is None else [[ch == '1' for ch in row] for row in d['mask']]
    return c


def _detail(ctx, fn, term, tag):
    try:
        return ctx.coq_eval_term(IMPORTS, f'{fn} {term}', tag=tag)[:3000]
    except Exception as e:      # diagnostics only
        return repr(e)[:300]


def scene_valid(c):
    """every window overlaps the image and keeps an unmasked pixel (otherwise the call raises: C12's business)."""
    for j in range(len(c['x'])):
        px = src_pixels(c, j)
        if not px:
            return False
    return True


# --------------------------------------------------------------------------
# the direct oracle on the C12 text (Fractions), used to classify a disagreement
# --------------------------------------------------------------------------
def text_oracle(c, members, units, data, bkg, impl, expect, scaled, singles):
    """Returns a list of (signature, message) for clauses of the C12 text violated by the implementation's output."""
    bad = []
    rows, ys = ref_problem(c, members, units, data, bkg)
    ms = inverse_row_sums(rows)
    if ms is None:
        return bad
    cond = [float(m) for m in ms]
    sol = ref_solve(rows, ys)
    scale = max(1.0, max(abs(float(v)) for v in sol))
    amp = max(1.0, max(float(sum(abs(a) for a in r)) for r in rows)) * max(1.0, max(abs(float(v)) for v in ys))
    slack = [1e-6 * scale + 1e-6 * cnd * amp for cnd in cond]
    if expect is not None:
        for j, (a, b) in enumerate(zip(impl, expect)):
            if abs(a - b) > slack[j] + 1e-6 * abs(b):
                bad.append(('PSFPhotometry:fixed-xy:rendered-flux-not-recovered',
                            f'noise-free scene rendered from the same PSF model at the same (fixed) positions: flux_fit = {a!r} '
                            f'for the source rendered with flux {b!r} (source {c["ids"][members[j]]})'))
                break
    if scaled is not None:
        k, impl_k = scaled
        for j, (a, b) in enumerate(zip(impl_k, impl)):
            if abs(a - k * b) > (1 + abs(k)) * slack[j] + 1e-6 * abs(k * b):
                bad.append(('PSFPhotometry:fixed-xy:flux-does-not-scale',
                            f'image (and local_bkg) scaled by {k}: flux_fit {a!r} is not {k} * {b!r}'))
                break
    return bad


# --------------------------------------------------------------------------
def run_flux_correspondence(ctx, n_cases):
    """n_cases = number of scenes.  Returns a dict of counts; disagreements are reported through ctx.violation."""
    import photutils.psf  # noqa: F401
    rng = random.Random((int(ctx.seed) + 1) * 1000003 + 0xC12)
    out = {'scenes': 0, 'group_cases': 0, 'full': 0, 'exact_expect': 0, 'scaled': 0, 'singles': 0, 'disagreements': 0,
           'free_cases': 0, 'free_disagreements': 0, 'skipped_invalid': 0,
           'skipped_nonpositive_ls_flux': 0}
    n_free = max(4, n_cases // 10)
    terms, kept = [], []
    budget_full = 10 ** 9        # the exact in-Coq solve is cheap on the integer-rescaled problem: every group of <= 3 sources
    for _ in range(n_cases):
        c = gen_scene(rng)
        if not scene_valid(c):
            out['skipped_invalid'] += 1
            ctx.stat('c12l_flux', 'skipped:window-off-image-or-fully-masked')
            continue
        units = unit_images(c['psf'], c['x'], c['y'], c['shape'])
        data = render(c, units)
        n = len(c['x'])
        # PRECONDITION of the tie (decided on the inputs alone): the exact least-squares flux of every source fitted
        # alone is positive, like the initial guess.  Otherwise astropy's TRF fitter can stall at flux ~ 0 (its first
        # trust-region step has length |flux_init| and lands within rounding of 0, where the RELATIVE finite-difference
        # step sqrt(eps)*|x| gives a zero Jacobian and "gtol satisfied"): observation C12L-O1, outside the C12 text.
        alone = [ref_solve(*ref_problem(c, [j], units, data, c['bkg'])) for j in range(n)]
        if any(a is None or a[0] <= 0 for a in alone):
            out['skipped_nonpositive_ls_flux'] += 1
            ctx.stat('c12l_flux', 'skipped:non-positive-exact-flux-of-a-source-alone')
            continue
        out['scenes'] += 1
        for key in ('layout', 'dkind', 'gkind'):
            ctx.stat('c12l_flux', f'{key}:{c[key]}')
        ctx.stat('c12l_flux', 'psf:' + c['psf']['kind'])
        ctx.stat('c12l_flux', f'nsrc:{n}')
        ctx.stat('c12l_flux', 'mask:' + ('yes' if c['mask'] is not None else 'no'))
        ctx.stat('c12l_flux', 'error:' + ('yes' if c['error'] is not None else 'no'))
        ctx.stat('c12l_flux', 'local_bkg:' + ('no' if c['bkg'] is None else 'pedestal' if c['dkind'] == 'exact+bkg' else 'per-source'))
        ctx.stat('c12l_flux', 'ids:' + ('shuffled' if c['ids'] != sorted(c['ids']) else '1..N'))
        ctx.count_case(('c12l', describe(c)), nontrivial=True)
        try:
            flux, xf, yf, calls = run_phot(c, data, c['gids'], c['bkg'])
            k = c['k']
            bkg_k = None if c['bkg'] is None else [b * k for b in c['bkg']]
            flux_k, _, _, _ = run_phot(c, data * k, c['gids'], bkg_k, finit=[f * k for f in c['finit']])
            flux_1, _, _, _ = run_phot(c, data, list(range(1, n + 1)), c['bkg'])
        except Exception as e:
            ctx.violation('correspondence:C12L_Model:raises', 'PSFPhotometry raised on a valid scene with fixed positions: '
                          + repr(e)[:200], {'case': describe(c)}, found_input=False)
            continue
        moved = [i for j, i in enumerate(c['ids']) if xf[i] != c['x'][j] or yf[i] != c['y'][j]]
        if moved:
            ctx.violation('PSFPhotometry:fixed-xy:position-changed',
                          f'x_0 / y_0 are fixed but x_fit / y_fit differ from the initial values for ids {moved}',
                          {'mode': 'flux', 'case': describe(c)})
        for members in groups_of(c, c['gids']):
            ids_g = [c['ids'][j] for j in members]
            call = next((cl for cl in calls if cl['ids'] == ids_g), None)
            if call is None:
                ctx.violation('correspondence:C12L_Model:group-call-missing',
                              f'no fitter call was made for the group with ids {ids_g} in table order (calls: '
                              f'{[cl["ids"] for cl in calls]})', {'case': describe(c)}, found_input=False)
                continue
            recpix = list(zip(call['yi'], call['xi']))
            impl = [flux[i] for i in ids_g]
            rows, ys = ref_problem(c, members, units, data, c['bkg'])
            msums = inverse_row_sums(rows)
            if msums is None:
                ctx.stat('c12l_flux', 'skipped:rank-deficient-group')
                continue
            exact = is_exact(c)
            expect = [c['fstar'][j] for j in members] if (exact and own_light(c, members, units)) else None
            scaled = (k, [flux_k[i] for i in ids_g])
            singles = [flux_1[i] for i in ids_g] if len(members) > 1 else None
            full = len(members) <= 3 and budget_full > 0
            try:
                t = flux_term(c, members, units, data, c['bkg'], impl, recpix, expect, scaled, singles, full, msums,
                              TOL_EXACT if exact else TOL_GENERAL)
            except ValueError:
                ctx.violation('correspondence:C12L_Model:non-finite', 'a non-finite flux_fit was returned',
                              {'case': describe(c), 'impl': repr(impl)}, found_input=False)
                continue
            budget_full -= full
            out['group_cases'] += 1
            out['full'] += full
            out['exact_expect'] += expect is not None
            out['scaled'] += 1
            out['singles'] += singles is not None
            ctx.stat('c12l_flux', f'group_size:{len(members)}')
            ctx.stat('c12l_flux', 'check:' + ('full' if full else 'light'))
            ctx.stat('c12l_flux', 'expect:' + ('f*' if expect is not None else 'normal-equations-only'))
            terms.append(t)
            kept.append((c, members, units, data, impl, expect, scaled, singles))
    bad = ctx.coq_eval_cases(IMPORTS, 'check_flux_case', terms, case_type='flux_case', tag='c12l_flux')
    out['disagreements'] = len(bad)
    for i in bad[:8]:
        c, members, units, data, impl, expect, scaled, singles = kept[i]
        detail = {'case': describe(c), 'group (source indices)': members, 'flux_fit': impl, 'rendered': expect,
                  'scaled run (k, flux_fit)': scaled, 'fitted alone': singles,
                  'model (rows, solution, gradient at flux_fit, tolerance)': _detail(ctx, 'flux_model_out', terms[i], 'c12l_detail')}
        viol = text_oracle(c, members, units, data, c['bkg'], impl, expect, scaled, singles)
        if viol:
            for sig, msg in viol:
                ctx.violation(sig, msg, {'mode': 'flux', 'case': describe(c), 'group': members})
        else:
            ctx.violation('correspondence:C12L_Model.check_flux_case',
                          'PSFPhotometry with fixed positions: the pixels handed to the fitter / flux_fit do not agree with the '
                          'least-squares model of the group (normal equations of the design built from the unmasked window '
                          'pixels, weights 1/error, per-source local background) within the fitter tolerance', detail,
                          found_input=False)
    if kept:
        c, members, _, _, impl, expect, _, _ = kept[-1]
        ctx.sample({'c12l_flux_case': describe(c), 'group': members, 'flux_fit': impl, 'rendered': expect}, limit=8)

    # ---------------- positions free, started at the truth ----------------
    terms, kept = [], []
    for _ in range(n_free):
        c = gen_scene(rng)
        c['dkind'] = 'exact'
        c['ped'] = 0.0
        c['bkg'] = None
        c['gids'] = [1] * len(c['x'])           # all the light of the scene is in the one group
        if c['layout'] == 'edge' or not scene_valid(c):
            continue
        if c['psf']['kind'] == 'image':
            c['psf'] = {'kind': 'cgprf', 'fwhm': 2.5}
        units = unit_images(c['psf'], c['x'], c['y'], c['shape'])
        data = render(c, units)
        ctx.stat('c12l_free', 'nsrc:' + str(len(c['x'])))
        ctx.count_case(('c12l_free', describe(c)), nontrivial=True)
        try:
            flux, xf, yf, _ = run_phot(c, data, c['gids'], None, fixed_xy=False, finit=c['fstar'])
        except Exception as e:
            ctx.violation('correspondence:C12L_Model:raises', 'PSFPhotometry raised on a valid scene: ' + repr(e)[:200],
                          {'case': describe(c)}, found_input=False)
            continue
        truth = [(c['x'][j], c['y'][j], c['fstar'][j]) for j in range(len(c['x']))]
        got = [(xf[i], yf[i], flux[i]) for i in c['ids']]
        try:
            terms.append(coq(([(tuple(dy(v) for v in a), tuple(dy(v) for v in b)) for a, b in zip(truth, got)],
                              pos(FREE_BITS))))
        except ValueError:
            ctx.violation('PSFPhotometry:free-xy:truth-not-returned', 'non-finite fit started at the truth',
                          {'mode': 'free', 'case': describe(c)})
            continue
        kept.append((c, truth, got))
        out['free_cases'] += 1
    bad = ctx.coq_eval_cases(IMPORTS, 'check_free_case', terms, case_type='free_case', tag='c12l_free')
    out['free_disagreements'] = len(bad)
    for i in bad[:6]:
        c, truth, got = kept[i]
        ctx.violation('PSFPhotometry:free-xy:truth-not-returned',
                      'noise-free scene rendered from the same PSF model, fit started AT the truth (x, y, flux all free): '
                      f'returned {got}, rendered {truth}', {'mode': 'free', 'case': describe(c)})
    for k_, v in out.items():
        ctx.stat('c12l_totals', k_, v)
    ctx.support('flux_is_least_squares_solution_of_real_fit', out['group_cases'])
    ctx.support('truth_is_returned_when_started_at_truth', out['free_cases'])
    return out


def replay(obj):
    """Replay of a found_input violation of this helper (mode 'flux' / 'free')."""
    r = obj['replay']
    c = undescribe(r['case'])
    units = unit_images(c['psf'], c['x'], c['y'], c['shape'])
    bad = []
    if r.get('mode') == 'free':
        data = render(c, units)
        flux, xf, yf, _ = run_phot(c, data, c['gids'], None, fixed_xy=False, finit=c['fstar'])
        for j, i in enumerate(c['ids']):
            for a, b in ((xf[i], c['x'][j]), (yf[i], c['y'][j]), (flux[i], c['fstar'][j])):
                if not abs(a - b) <= 2.0 ** -FREE_BITS * (1 + abs(b)):
                    bad.append((i, a, b))
        print('impl:', [(xf[i], yf[i], flux[i]) for i in c['ids']])
    else:
        data = render(c, units)
        flux, xf, yf, _ = run_phot(c, data, c['gids'], c['bkg'])
        k = c['k']
        flux_k, _, _, _ = run_phot(c, data * k, c['gids'], None if c['bkg'] is None else [b * k for b in c['bkg']],
                                   finit=[f * k for f in c['finit']])
        print('impl flux_fit:', flux)
        for j, i in enumerate(c['ids']):
            if xf[i] != c['x'][j] or yf[i] != c['y'][j]:
                bad.append(('position-changed', i))
        for members in groups_of(c, c['gids']):
            ids_g = [c['ids'][j] for j in members]
            exact = is_exact(c)
            expect = [c['fstar'][j] for j in members] if (exact and own_light(c, members, units)) else None
            bad += text_oracle(c, members, units, data, c['bkg'], [flux[i] for i in ids_g], expect,
                               (k, [flux_k[i] for i in ids_g]), None)
    print('property holds on this input' if not bad else f'property FAILS on this input: {bad[:3]}')
    return 0 if not bad else 1


def main(argv=None):
    """Standalone: python -m harness.c12l [n_scenes] [seed]  (private pid C12L; VERIF_REPO selects the tree)."""
    import json
    import sys
    import time
    from . import core
    argv = sys.argv[1:] if argv is None else argv
    n = int(argv[0]) if argv else 60
    seed = int(argv[1]) if len(argv) > 1 else 0
    core.setup_repo_path()
    ctx = core.Ctx('C12L', 'quick', seed)
    ok, log, missing = core.build_files(['lib/Cases.v', 'lib/Conn.v', 'C20_Model.v', 'C20H_Model.v', 'C12_Model.v', 'C12L_Model.v'])
    if missing:
        print(log[-2000:])
        return 2
    t0 = time.time()
    out = run_flux_correspondence(ctx, n)
    print(json.dumps({'result': out, 'seconds': round(time.time() - t0, 1),
                      'distribution': ctx.cov['correspondence']}, indent=1))
    for v in ctx.violations:
        print('VIOLATION', v)
    return 1 if ctx.violations else 0


if __name__ == '__main__':
    raise SystemExit(main())
